"""Demonstration (not a check): on the unrepaired tree the controller commands a SECOND fetch of a requested output when the confirmation
of a transfer of that output to another host arrives before the first fetch is answered, and later commands the purge of that second
copy while the second fetch is still unanswered (C04: "never drops it while a transfer or fetch it commanded from that host is still
unanswered").  Socket-free: real scheduler (initialize/assign/plan) and controller (act/flush_queues/notify), recording stub bridge.

Run: PYTHONPATH=<tree>/src /venv/bin/python double_fetch_demo.py      exit 1 = violation shown, 0 = not reproduced
Job: p (CPU) -> c (needs a GPU); p's output is requested by the caller and consumed by c.  Cluster: h0 = one CPU worker, h1 = one GPU worker.
Schedule: p runs on h0; c must run on h1, so p.0 is transferred h0 -> h1; h1 confirms the transfer BEFORE h0's data server answers the fetch."""
import sys

from cascade.controller.act import act, flush_queues
from cascade.controller.notify import notify
from cascade.controller.report import Reporter
from cascade.executor.msg import DatasetPublished, DatasetTransmitPayload, DatasetTransmitPayloadHeader
from cascade.low.builders import JobBuilder, TaskBuilder
from cascade.low.core import DatasetId, Environment, Worker, WorkerId
from cascade.scheduler.api import assign, initialize, plan
from cascade.scheduler.core import has_computable
from cascade.scheduler.graph import precompute
import cloudpickle


class StubBridge:
    def __init__(self, env):
        self.env, self.log = env, []

    def get_environment(self):
        return self.env

    def task_sequence(self, ts):
        self.log.append(("task_sequence", ts.worker, tuple(ts.tasks)))

    def transmit(self, ds, source, target):
        self.log.append(("transmit", ds, source, target))

    def fetch(self, ds, source):
        self.log.append(("fetch", ds, source))

    def purge(self, host, ds):
        self.log.append(("purge", host, ds))


def p() -> int:
    return 1


def c(x: int) -> int:
    return x + 1


def step(state, job, env, bridge):
    assignments = []
    if has_computable(state):
        for a in assign(state, job, env):
            act(bridge, state, a)
            assignments.append(a)
    state = plan(state, assignments)
    return flush_queues(bridge, state)


def main() -> int:
    cb = TaskBuilder.from_callable(c)
    cb.definition.needs_gpu = True
    job = JobBuilder().with_node("p", TaskBuilder.from_callable(p)).with_node("c", cb).with_edge("p", "c", "x").build().get_or_raise()
    D = DatasetId("p", "0")
    job.ext_outputs = [D, DatasetId("c", "0")]
    w0, w1 = WorkerId("h0", "w0"), WorkerId("h1", "w0")
    env = Environment(workers={w0: Worker(cpu=1, gpu=0, memory_mb=1000), w1: Worker(cpu=1, gpu=1, memory_mb=1000)})
    bridge, reporter = StubBridge(env), Reporter(None)
    state = initialize(env, precompute(job), set(job.ext_outputs))
    state = step(state, job, env, bridge)
    where_p = [e[1] for e in bridge.log if e[0] == "task_sequence" and e[2] == ("p",)][0]
    state = notify(state, job, [DatasetPublished(where_p, D, None)], reporter)     # p done, D published on its host
    state = step(state, job, env, bridge)                                            # c assigned; transfer + fetch commanded
    where_c = [e[1] for e in bridge.log if e[0] == "task_sequence" and e[2] == ("c",)][0]
    if where_c.host == where_p.host:
        # the scheduler's choice between the two idle workers depends on set iteration order: try another hash seed
        import os
        n = int(os.environ.get("DEMO_TRY", "0"))
        if n < 16:
            os.execve(sys.executable, [sys.executable, __file__], {**os.environ, "PYTHONHASHSEED": str(n + 1), "DEMO_TRY": str(n + 1)})
        print("not reproduced: consumer always scheduled on the producer's host, no transfer")
        return 0
    state = notify(state, job, [DatasetPublished(where_c.host, D, 0)], reporter)     # the transfer is confirmed first ...
    state = step(state, job, env, bridge)
    fetches = [e for e in bridge.log if e[0] == "fetch" and e[1] == D]
    payload = DatasetTransmitPayload(DatasetTransmitPayloadHeader(confirm_address="a", confirm_idx=1, ds=D, deser_fun="cloudpickle.loads"), cloudpickle.dumps(1))
    state = notify(state, job, [payload], reporter)                                  # ... then ONE fetch is answered
    state = notify(state, job, [DatasetPublished(where_c, DatasetId("c", "0"), None)], reporter)  # c completes
    state = step(state, job, env, bridge)
    purges = [e for e in bridge.log if e[0] == "purge" and e[2] == D]
    print("fetch commands for p.0:", [(e[2]) for e in fetches], "| payloads received: 1 | purge of p.0 commanded at:", [e[1] for e in purges])
    if len(fetches) > 1:
        unanswered = fetches[1][2]
        if any(e[1] == unanswered for e in purges):
            print(f"VIOLATION: p.0 is purged on {unanswered} while the fetch commanded from {unanswered} is still unanswered (and the output was fetched twice)")
        else:
            print("VIOLATION: the requested output p.0 is fetched twice")
        return 1
    print("OK: one fetch, purge after its answer")
    return 0


if __name__ == "__main__":
    sys.exit(main())
