"""Call handling, builtins, container-method models and light type inference
for the abstract interpreter (mixin of interp.Run)."""
from __future__ import annotations

import ast

from .repo import AnalysisError, FuncInfo
from .terms import (NTuple, Partial, ModelFn, App, Atom, Attr, BoundMethod, BuiltinRef, ClassRef, Closure, Comp, Elem, EnumVal, FStr, FuncRef,
                    ModRef, Mut, Obj, Op, Opaque, Star, Sub, Sym, Term, contains_term, vkey)

try:
    from .evalx import AnyKeyDict as AnyKeyDict_
except Exception:  # circular import at start-up
    AnyKeyDict_ = ()
MUTATORS = {"append", "extend", "insert", "pop", "remove", "clear", "add", "discard", "update", "setdefault",
            "popitem", "sort", "reverse", "difference_update", "intersection_update", "symmetric_difference_update",
            "appendleft", "popleft", "__setitem__", "__delitem__"}
TRANSPARENT_WRAPPERS = {"cascade.low.tracing.timer"}
NORETURN = {"cascade.low.func.assert_never", "cascade.shm.func.assert_never"}


OPERATOR_FUNCS = {"operator.add": "Add", "operator.sub": "Sub", "operator.mul": "Mult", "operator.truediv": "Div", "operator.pow": "Pow",
                  "operator.floordiv": "FloorDiv", "operator.mod": "Mod", "operator.and_": "BitAnd", "operator.or_": "BitOr"}


class CallMixin:
    # ------------------------------------------------------------------ types
    def ann_classes(self, module, ann) -> set[str]:
        """Annotation AST -> set of class quals it may denote (unions, Optional, strings)."""
        repo = self.repo
        if ann is None:
            return set()
        if isinstance(ann, ast.Constant) and isinstance(ann.value, str):
            try:
                return self.ann_classes(module, ast.parse(ann.value, mode="eval").body)
            except SyntaxError:
                return set()
        if isinstance(ann, ast.Constant) and ann.value is None:
            return set()
        if isinstance(ann, ast.BinOp) and isinstance(ann.op, ast.BitOr):
            return self.ann_classes(module, ann.left) | self.ann_classes(module, ann.right)
        if isinstance(ann, ast.Subscript):
            head = ann.value
            hn = head.id if isinstance(head, ast.Name) else (head.attr if isinstance(head, ast.Attribute) else "")
            if hn in ("Optional", "Union"):
                s = ann.slice
                elts = s.elts if isinstance(s, ast.Tuple) else [s]
                out = set()
                for e in elts:
                    out |= self.ann_classes(module, e)
                return out
            return set()
        if isinstance(ann, (ast.Name, ast.Attribute)):
            mem = repo.union_members(module, ann)
            if mem:
                return {m for m in mem if m in repo.classes}
            q = repo.resolve_expr(module, ann)
            if q and q in repo.classes:
                return {q}
        return set()

    def ann_container(self, module, ann):
        """-> ('dict', keyann, valann) | ('seq', elemann) | None"""
        if isinstance(ann, ast.Constant) and isinstance(ann.value, str):
            try:
                return self.ann_container(module, ast.parse(ann.value, mode="eval").body)
            except SyntaxError:
                return None
        if isinstance(ann, ast.Subscript):
            head = ann.value
            hn = head.id if isinstance(head, ast.Name) else (head.attr if isinstance(head, ast.Attribute) else "")
            s = ann.slice
            elts = s.elts if isinstance(s, ast.Tuple) else [s]
            if hn in ("dict", "Dict", "defaultdict", "Mapping", "PMap") and len(elts) == 2:
                return ("dict", elts[0], elts[1])
            if hn in ("list", "List", "set", "Set", "Iterable", "Sequence", "Iterator", "frozenset", "tuple") and elts:
                return ("seq", elts[0])
        if isinstance(ann, (ast.Name, ast.Attribute)):
            q = self.repo.resolve_expr(module, ann)
            if q and q in self.repo.consts:
                cm, ce = self.repo.consts[q]
                return self.ann_container(cm, ce)
        return None

    def ann_of(self, t, _d=0):
        """(module, annotation AST) describing the static type of a term, if derivable."""
        if _d > 8 or not isinstance(t, Term):
            return None
        repo = self.repo
        if isinstance(t, Sym):
            fi = getattr(self, "_root_fi", None)
            return self._sym_ann.get(t.name) if hasattr(self, "_sym_ann") else None
        if isinstance(t, Attr):
            for cq in self.types_of(t.base, _d + 1):
                ci, ann = repo.field_ann(cq, t.attr)
                if ci is not None and ann is not None:
                    return (ci.module, ann)
            return None
        if isinstance(t, Sub):
            b = self.ann_of(t.base, _d + 1)
            if b:
                c = self.ann_container(*b)
                if c and c[0] == "dict":
                    return (b[0], c[2])
                if c and c[0] == "seq":
                    return (b[0], c[1])
            return None
        if isinstance(t, Elem):
            b = self.ann_of(t.it, _d + 1)
            if b:
                c = self.ann_container(*b)
                if c and c[0] == "seq":
                    return (b[0], c[1])
                if c and c[0] == "dict":
                    return (b[0], c[1])
            return None
        if isinstance(t, Mut):
            return self.ann_of(t.prev, _d + 1)
        return None

    def types_of(self, v, _d=0) -> set[str]:
        if isinstance(v, Obj):
            return {v.cls}
        if isinstance(v, Atom):
            return {v.cls} if v.cls else set()
        if not isinstance(v, Term):
            return set()
        k = v.key()
        if k in self.tpos:
            return set(self.tpos[k])
        if isinstance(v, App):
            if isinstance(v.fn, ClassRef):
                return {v.fn.qual}
            fi = self.repo.funcs.get(v.fname)
            if fi is not None and getattr(fi.node, "returns", None) is not None:
                return self.ann_classes(fi.module, fi.node.returns)
            return set()
        a = self.ann_of(v, _d)
        if a:
            return self.ann_classes(*a)
        return set()

    def field_of(self, ref) -> str | None:
        """'ClassQual.attr' for an access path ending in (or passing through) a typed attribute."""
        t = ref
        for _ in range(6):
            if isinstance(t, Sub):
                t = t.base
                continue
            if isinstance(t, Mut):
                t = t.prev
                continue
            break
        if isinstance(t, Attr):
            for cq in sorted(self.types_of(t.base)):
                ci, _ = self.repo.field_ann(cq, t.attr)
                if ci is not None:
                    return f"{ci.qual}.{t.attr}"
            ts = self.types_of(t.base)
            if ts:
                return f"{sorted(ts)[0]}.{t.attr}"
            return f"?.{t.attr}"
        return None

    def bind_param_types(self, fr):
        fi = fr.fi
        if not hasattr(self, "_sym_ann"):
            self._sym_ann = {}
        a = fi.node.args
        for arg in a.posonlyargs + a.args + a.kwonlyargs:
            if arg.annotation is not None:
                cell = fr.locals.get(arg.arg)
                if cell is not None and isinstance(cell.value, Sym):
                    self._sym_ann.setdefault(cell.value.name, (fi.module, arg.annotation))
                    t = self.ann_classes(fi.module, arg.annotation)
                    if t:
                        self.tpos.setdefault(cell.value.name, set(t))

    # ------------------------------------------------------------------ calls
    def ex_Call(self, node, fr):
        self._recv_value = None
        if isinstance(node.func, ast.Attribute):
            self.tick()
            base, bref = self.eval_ref(node.func.value, fr)
            fv, fref = self.getattr_ref(base, bref, node.func.attr, node.func, fr)
            recv_value = base
        else:
            fv, fref = self.eval_ref(node.func, fr)
            recv_value = None
        args = []
        for a in node.args:
            if isinstance(a, ast.Starred):
                v = self.eval(a.value, fr)
                items = self.concrete_iter(v) if not isinstance(v, dict) else list(v)
                if items is not None:
                    args.extend(items)
                else:
                    args.append(Star(v))
            else:
                args.append(self.eval(a, fr))
        kwargs = {}
        for k in node.keywords:
            v = self.eval(k.value, fr)
            if k.arg is None:
                if isinstance(v, dict) and all(isinstance(x, str) for x in v):
                    kwargs.update(v)
                else:
                    kwargs[f"**{len(kwargs)}"] = Star(v, True)
            else:
                kwargs[k.arg] = v
        self._recv_value = recv_value
        try:
            return self.call_value(fv, fref, args, kwargs, node, fr)
        finally:
            self._recv_value = None

    def call_name(self, fv, fref, node) -> str:
        if isinstance(fv, FuncRef):
            return fv.fi.qual
        if isinstance(fv, Closure):
            return fv.fi.qual
        if isinstance(fv, ClassRef):
            return fv.qual
        if isinstance(fv, BuiltinRef):
            return "builtins." + fv.name
        if isinstance(fv, BoundMethod):
            if fv.fi is not None:
                return fv.fi.qual
            base = vkey(fv.recv_ref) if fv.recv_ref is not None else vkey(fv.recv)
            return f"{base}.{fv.name}"
        if isinstance(fv, Term):
            return vkey(fv)
        return ast.unparse(node.func)

    def call_value(self, fv, fref, args, kwargs, node, fr):
        from .interp import _Raise

        name = self.call_name(fv, fref, node)
        recv = fv.recv if isinstance(fv, BoundMethod) else None
        recv_ref = fv.recv_ref if isinstance(fv, BoundMethod) else None
        method = fv.name if isinstance(fv, BoundMethod) else None
        if method is None and isinstance(fv, Attr):
            recv, recv_ref, method = fv.base, fv.base, fv.attr
            if isinstance(fref, Attr):
                recv_ref = fref.base
        qual = None
        if isinstance(fv, (FuncRef, Closure)):
            qual = fv.fi.qual
        elif isinstance(fv, BoundMethod) and fv.fi is not None:
            qual = fv.fi.qual
        elif isinstance(fv, ClassRef):
            qual = fv.qual
        elif isinstance(fv, BuiltinRef):
            qual = "builtins." + fv.name
        elif isinstance(fv, Sym):
            qual = fv.name
        data = dict(discarded=(node is getattr(self, "_stmt_call", None)), name=name, qual=qual, callee=fv, recv=recv, recv_ref=recv_ref, method=method, args=list(args),
                    kwargs=dict(kwargs), field=self.field_of(recv_ref) if recv_ref is not None else None, recv_value=getattr(self, "_recv_value", None),
                    text=ast.unparse(node.func) if hasattr(node, "func") else name)
        eff = self.effect("call", node, fr, **data)
        # may-raise fork requested by the rule
        rz = self.opts.raising(data) if self.opts.raising is not None else None
        if rz:
            if self.decide(f"raises({name}@{getattr(node, 'lineno', 0)}:{getattr(node, 'col_offset', 0)})", node):
                # the rule may name the exception class that is raised (default: an unspecified Exception)
                exc = Obj(rz if isinstance(rz, str) else "builtins.Exception", args=(f"from {name}",), name=f"exc@{name}")
                self.effect("raise", node, fr, value=exc, implicit=True, from_call=name)
                raise _Raise(exc, node)
        self.cur_call = data
        model = self.opts.call_models.get(qual) or self.opts.call_models.get(name) or (
            self.opts.call_models.get(("method", method)) if method is not None else None)
        if model is not None:
            r = model(self, args, kwargs, node, fr)
            eff.data["result"] = r
            return r
        r = self.dispatch_call(fv, args, kwargs, node, fr, name, qual)
        eff.data["result"] = r
        return r

    def dispatch_call(self, fv, args, kwargs, node, fr, name, qual):
        from .interp import _Raise

        repo = self.repo
        if qual in NORETURN:
            exc = Obj("builtins.TypeError", args=tuple(args))
            self.effect("raise", node, fr, value=exc, implicit=True, noreturn=qual)
            raise _Raise(exc, node)
        if qual in TRANSPARENT_WRAPPERS and args:
            return args[0]
        if isinstance(fv, BuiltinRef):
            return self.call_builtin(fv.name, args, kwargs, node, fr)
        if isinstance(fv, ModelFn):
            return fv.fn(self, args, kwargs, node, fr)
        if isinstance(fv, Partial):
            return self.call_value(fv.fn, None, list(fv.args) + list(args), {**fv.kwargs, **kwargs}, node, fr)
        if qual == "typing.cast" and len(args) == 2:
            return args[1]
        if qual == "operator.methodcaller" and args and isinstance(args[0], str):
            mname, margs, mkw = args[0], list(args[1:]), dict(kwargs)

            def _mc(run, a, k, n, f, _m=mname, _a=margs, _k=mkw):
                fv2, _ = run.getattr_ref(a[0], None, _m, n, f)
                return run.call_value(fv2, None, list(_a), dict(_k), n, f)
            return ModelFn(f"methodcaller({mname})", _mc)
        if qual == "operator.attrgetter" and len(args) == 1 and isinstance(args[0], str) and "." not in args[0]:
            return ModelFn(f"attrgetter({args[0]})", lambda run, a, k, n, f, _m=args[0]: run.getattr_ref(a[0], None, _m, n, f)[0])
        if qual == "operator.itemgetter" and len(args) == 1:
            return ModelFn(f"itemgetter({vkey(args[0])})", lambda run, a, k, n, f, _i=args[0]: run.getitem_ref(a[0], None, _i, n, f)[0])
        if qual in OPERATOR_FUNCS and len(args) == 2 and not kwargs:
            return self.binop(OPERATOR_FUNCS[qual], args[0], args[1], node)
        if qual in ("dataclasses.replace", "copy.copy") and args and isinstance(args[0], Obj) and (qual == "copy.copy" or args[0].cls in self.repo.classes):
            o = args[0]
            n = Obj(o.cls, dict(o.fields), o.args, o.kwargs, frozen=o.frozen)
            for k, v in kwargs.items():
                n.fields[k] = v
            return n
        if qual == "copy.copy" and args and isinstance(args[0], (list, dict, set)):
            import copy as _c

            return _c.copy(args[0])
        if isinstance(fv, BoundMethod) and fv.name == "fromkeys" and 1 <= len(args) <= 2 and not kwargs:
            # dict.fromkeys(xs[, v]) — the order-preserving de-duplication idiom `list(dict.fromkeys(xs))`
            base = fv.recv
            items = self.concrete_iter(args[0]) if isinstance(base, BuiltinRef) and base.name == "dict" else None
            if items is not None and all(_h(x) for x in items):
                return dict.fromkeys(items, args[1] if len(args) == 2 else None)
        if qual == "itertools.cycle" and len(args) == 1:
            items = self.concrete_iter(args[0])
            if items:
                from .stmts import _CycleIter

                return _CycleIter(list(items))
        if "itertools.chain.from_iterable" in (qual, name) and len(args) == 1:
            outer = self.concrete_iter(args[0])
            if outer is not None:
                flat, okk = [], True
                for part in outer:
                    items = self.concrete_iter(part)
                    if items is None:
                        okk = False
                        break
                    flat.extend(items)
                if okk:
                    from .stmts import _ConcreteIter

                    return _ConcreteIter(flat)
        if qual == "itertools.chain":
            out = []
            for a in args:
                items = self.concrete_iter(a)
                if items is None:
                    out = None
                    break
                out.extend(items)
            if out is not None:
                from .stmts import _ConcreteIter

                return _ConcreteIter(out)
        if qual == "itertools.groupby" and args:
            items = self.concrete_iter(args[0])
            keyf = args[1] if len(args) > 1 else kwargs.get("key")
            if items is not None:
                keys = [self.call_value(keyf, None, [x], {}, node, fr) if keyf is not None else x for x in items]
                if not any(contains_term(k) for k in keys):
                    groups = []
                    for k, x in zip(keys, items):
                        if groups and self._same_value(groups[-1][0], k):
                            groups[-1][1].append(x)
                        else:
                            groups.append((k, [x]))
                    from .stmts import _ConcreteIter

                    return _ConcreteIter([(k, list(g)) for k, g in groups])
        if qual == "itertools.islice" and args and len(args) >= 2 and all(isinstance(x, int) or x is None for x in args[1:]) and not kwargs:
            items = self.concrete_iter(args[0])
            if items is not None:
                from .stmts import _ConcreteIter

                return _ConcreteIter(list(items)[slice(*args[1:])])
        if qual == "functools.partial" and args:
            return Partial(args[0], args[1:], kwargs)
        if qual == "collections.defaultdict" and len(args) == 2 and not kwargs and isinstance(args[1], dict) and isinstance(args[0], BuiltinRef) \
                and args[0].name in ("list", "set", "dict", "int"):
            from collections import defaultdict

            return defaultdict({"list": list, "set": set, "dict": dict, "int": int}[args[0].name], args[1])
        if qual == "collections.defaultdict" and len(args) <= 1 and not kwargs:
            from collections import defaultdict

            fac = {"list": list, "set": set, "dict": dict, "int": int}.get(args[0].name) if args and isinstance(args[0], BuiltinRef) else None
            if fac is not None or not args:
                return defaultdict(fac)
            if isinstance(args[0], (Closure, FuncRef, ClassRef, Partial)):
                # a lambda / function / class as factory: evaluated by the interpreter when a missing key is read
                return defaultdict(lambda _f=args[0]: self.call_value(_f, None, [], {}, node, fr))
        if isinstance(fv, Closure):
            return self.call_function(fv.fi, args, kwargs, node, fr, closure=fv.frame)
        if isinstance(fv, FuncRef):
            if self.should_inline(fv.fi, fr):
                return self.call_function(fv.fi, args, kwargs, node, fr)
            ra = returns_arg(fv.fi)
            if ra is not None:
                if ra[0] < len(args) and not any(isinstance(x, Star) for x in args[: ra[0] + 1]):
                    return args[ra[0]]
                if ra[1] in kwargs:
                    return kwargs[ra[1]]
            return App(fv.fi.qual, args, kwargs, uid=self.next_uid(), fname=fv.fi.qual)
        if isinstance(fv, ClassRef):
            return self.construct(fv.qual, args, kwargs, node, fr)
        if isinstance(fv, tuple) and fv and all(isinstance(x, ClassRef) for x in fv):
            return App("union", args)
        if isinstance(fv, BoundMethod):
            return self.call_method(fv, args, kwargs, node, fr, name)
        if isinstance(fv, Attr):
            # method on symbolic receiver without type info
            return self.symbolic_method(fv.base, fv.attr, args, kwargs, node, fr, name)
        if isinstance(fv, Term):
            return App(vkey(fv), args, kwargs, uid=self.next_uid(), fname=vkey(fv))
        return App(name, args, kwargs, uid=self.next_uid(), fname=name)

    def should_inline(self, fi: FuncInfo, fr) -> bool:
        if fr.depth + 1 > self.opts.max_depth:
            return False
        if self.opts.opaque and fi.qual in self.opts.opaque:
            return False
        if fi.qual in self.opts.call_models:
            return False
        inl = self.opts.inline
        if inl is not None:
            if callable(inl):
                if inl(fi):
                    return True
            elif fi.qual in inl:
                return True
        from .repo import KNOWN_FUNCS
        if KNOWN_FUNCS and fi.qual not in KNOWN_FUNCS and not (fi.name.startswith("__") and fi.name.endswith("__") and fi.name != "__call__"):
            return True  # a helper introduced after the rule tables were written (extract-function refactoring): transparent
        if self.opts.inline_private and fi.name.startswith("_") and not fi.name.startswith("__init") and not (
                fi.name.startswith("__") and fi.name.endswith("__")) and fi.module.name == self.opts.root_module and not fi.is_generator:
            return True
        return False

    @staticmethod
    def _same_value(a, b) -> bool:
        try:
            return bool(a == b)
        except Exception:
            return a is b

    def call_function(self, fi: FuncInfo, args, kwargs, node, fr, closure=None, self_value=None):
        from .interp import Cell, Frame, _Return

        if fr.depth + 1 > self.opts.max_depth + 2:
            return App(fi.qual, args, kwargs, uid=self.next_uid(), fname=fi.qual)
        nf = Frame(fi, closure, fr.depth + 1)
        a = fi.node.args
        pos = [x.arg for x in a.posonlyargs + a.args]
        defaults = a.defaults
        argv = list(args)
        if self_value is not None:
            argv = [self_value] + argv
        star_tail = None
        if argv and isinstance(argv[-1], Star) and not argv[-1].double and a.vararg and len(argv) - 1 == len(pos) \
                and not any(isinstance(x, Star) for x in argv[:-1]):
            # f(p1, ..., pn, *rest) into def f(p1, ..., pn, *args): the tail is forwarded unchanged
            star_tail = argv[-1].value
            argv = argv[:-1]
        if any(isinstance(x, Star) for x in argv):
            return App(fi.qual, args, kwargs, uid=self.next_uid(), fname=fi.qual)
        kw = dict(kwargs)
        for i, p in enumerate(pos):
            if i < len(argv):
                v = argv[i]
            elif p in kw:
                v = kw.pop(p)
            else:
                di = i - (len(pos) - len(defaults))
                if di >= 0:
                    v = self.eval_default(defaults[di], fi, closure)
                else:
                    v = Sym(f"{fi.qual}:{p}")
            nf.locals[p] = Cell(v, v if isinstance(v, Term) else None)
        if a.vararg:
            if star_tail is not None:
                nf.locals[a.vararg.arg] = Cell(star_tail, star_tail if isinstance(star_tail, Term) else None)
            else:
                nf.locals[a.vararg.arg] = Cell(tuple(argv[len(pos):]))
        for k, d in zip(a.kwonlyargs, a.kw_defaults):
            if k.arg in kw:
                v = kw.pop(k.arg)
            elif d is not None:
                v = self.eval_default(d, fi, closure)
            else:
                v = Sym(f"{fi.qual}:{k.arg}")
            nf.locals[k.arg] = Cell(v, v if isinstance(v, Term) else None)
        if a.kwarg:
            dstar = [k for k in kw if k.startswith("**")]
            if len(dstar) == 1 and len(kw) == 1 and isinstance(kw[dstar[0]], Term):
                nf.locals[a.kwarg.arg] = Cell(kw[dstar[0]], kw[dstar[0]])  # f(**kwargs) into def f(**kwargs): forwarded unchanged
            else:
                nf.locals[a.kwarg.arg] = Cell({k: v for k, v in kw.items() if not k.startswith("**")})
        self.effect("enter", node, nf, qual=fi.qual)
        if fi.is_generator:
            nf.gen_acc = []
        try:
            r = self.exec_function_body(nf)
        finally:
            self.effect("leave", node, nf, qual=fi.qual)
        if fi.is_generator:
            from .stmts import _ConcreteIter

            return _ConcreteIter(nf.gen_acc)
        return r

    def eval_default(self, d, fi, closure):
        from .interp import Frame

        try:
            return ast.literal_eval(d)
        except Exception:
            pass
        if isinstance(d, ast.Name) and fi.cls is not None:
            # defaults are evaluated in the class body's scope at definition time: a class-level constant is visible there
            for q in self.repo.class_mro(fi.cls.qual):
                ci = self.repo.classes.get(q)
                if ci is not None and d.id in ci.class_attrs:
                    v = self.const_value(ci.module, ci.class_attrs[d.id], cls=ci)
                    if v is not NotImplemented:
                        return v
        tmp = Frame(fi, closure, 0)
        tmp.declared = set()
        return self.eval(d, tmp)

    def construct(self, qual, args, kwargs, node, fr):
        repo = self.repo
        if qual in repo.classes:
            ci = repo.classes[qual]
            fields = {}
            decos = [ast.unparse(d) for d in ci.node.decorator_list]
            is_dc = any(d.startswith("dataclass") or d in ("element", "message") for d in decos) or any(
                b.split(".")[-1] == "BaseModel" for b in repo.class_mro(qual)[1:]
            )
            if repo.is_enum(qual):
                return App(qual, args, kwargs, fname=qual)
            if any(b.split(".")[-1] == "NamedTuple" for b in repo.class_mro(qual)[1:]) and not any(isinstance(x, Star) for x in args):
                names = [st.target.id for st in ci.node.body if isinstance(st, ast.AnnAssign) and isinstance(st.target, ast.Name)]
                vals = list(args) + [None] * (len(names) - len(args))
                for k, v in kwargs.items():
                    if k in names:
                        vals[names.index(k)] = v
                for i, n_ in enumerate(names):
                    if i >= len(args) and n_ not in kwargs and n_ in ci.class_attrs:
                        dv = self.const_value(ci.module, ci.class_attrs[n_])
                        vals[i] = dv if dv is not NotImplemented else None
                return NTuple(vals, names, qual)
            if is_dc and not any(isinstance(x, Star) for x in args):
                names = []
                for q in reversed(repo.class_mro(qual)):
                    c2 = repo.classes.get(q)
                    if c2:
                        for st in c2.node.body:
                            if isinstance(st, ast.AnnAssign) and isinstance(st.target, ast.Name):
                                if st.target.id not in names:
                                    names.append(st.target.id)
                for n, v in zip(names, args):
                    fields[n] = v
                for k, v in kwargs.items():
                    fields[k] = v
                for q in repo.class_mro(qual):
                    c2 = repo.classes.get(q)
                    if c2:
                        for n, ve in c2.class_attrs.items():
                            if n in names and n not in fields:
                                if isinstance(ve, ast.Call) and ast.unparse(ve.func).split(".")[-1] in ("field", "Field"):
                                    kw = {k.arg: k.value for k in ve.keywords}
                                    if "default_factory" in kw:
                                        fac = self.eval(kw["default_factory"], fr)
                                        fields[n] = self.call_value(fac, None, [], {}, node, fr)
                                        continue
                                    if "default" in kw:
                                        ve = kw["default"]
                                    elif ve.args:
                                        ve = ve.args[0]
                                v = self.const_value(c2.module, ve)
                                fields[n] = v if v is not NotImplemented else Sym(f"{qual}.{n}")
            if not is_dc and not repo.find_method(qual, "__init__"):
                fields.update({k: v for k, v in kwargs.items() if not k.startswith("**")})
            frozen = any("frozen=True" in d.replace(" ", "") or d in ("element", "message") for d in decos)
            o = Obj(qual, fields, args, kwargs, frozen=frozen and is_dc)
            init = repo.find_method(qual, "__init__") if not is_dc else None
            from .repo import KNOWN_CLASSES
            new_cls = bool(KNOWN_CLASSES) and qual not in KNOWN_CLASSES
            if init is not None and (new_cls or self.should_inline(init, fr)) and not any(isinstance(x, Star) for x in args):
                self.call_function(init, args, kwargs, node, fr, self_value=o)
            return o
        return Obj(qual, {}, args, kwargs)

    # ------------------------------------------------------------- builtins
    def call_builtin(self, name, args, kwargs, node, fr):
        from .interp import _Raise
        from .stmts import _ConcreteIter

        sym = lambda: App("builtins." + name, args, kwargs, uid=None if name in PURE_BUILTINS else self.next_uid(),
                          fname=name)
        cls_like = {"ValueError", "TypeError", "KeyError", "RuntimeError", "NotImplementedError", "Exception",
                    "TimeoutError", "AttributeError", "IndexError", "StopIteration", "AssertionError", "OSError",
                    "ConnectionRefusedError", "FileNotFoundError", "BaseException", "OverflowError", "SystemExit",
                    "KeyboardInterrupt", "ImportError", "UnboundLocalError", "NameError", "LookupError"}
        if name in cls_like:
            return Obj("builtins." + name, {}, args, kwargs)
        a0 = args[0] if args else None
        if name == "isinstance" and len(args) == 2:
            return self.isinstance_(args[0], args[1], node, fr)
        if name == "issubclass":
            return self.decide(f"issubclass({vkey(args[0])},{vkey(args[1])})", node)
        if name == "hasattr" and len(args) == 2:
            o, n = args
            if isinstance(o, Obj) and isinstance(n, str):
                if n in o.fields:
                    return True
                if o.cls in self.repo.classes:
                    if self.repo.find_method(o.cls, n) or self.repo.field_ann(o.cls, n)[0]:
                        return True
                    return False
            if isinstance(o, Term) and isinstance(n, str):
                ts = self.types_of(o)
                if ts and all(t in self.repo.classes for t in ts):
                    has = [bool(self.repo.find_method(t, n) or self.repo.field_ann(t, n)[0]) for t in ts]
                    if all(has):
                        return True
                    if not any(has) and len(ts) == 1:
                        return False
            if isinstance(n, str) and isinstance(o, (int, float, str, bytes, list, tuple, dict, set, frozenset, type(None))):
                return hasattr(o, n)
            return self.decide(f"hasattr({vkey(o)},{vkey(n)})", node)
        if name == "getattr" and len(args) >= 2:
            o, n = args[0], args[1]
            if isinstance(n, str) and isinstance(o, Obj) and len(args) == 3 and n not in o.fields and not (
                    o.cls in self.repo.classes and (self.repo.find_method(o.cls, n) or self.repo.field_ann(o.cls, n)[0])):
                return args[2]
            if isinstance(n, str) and isinstance(o, (Obj, ModRef, ClassRef)):
                v, _ = self.getattr_ref(o, None, n, node, fr)
                return v
            if isinstance(n, str) and isinstance(o, Term):
                k = Attr(o, n).key()
                if k in self.heap or (self.types_of(o) and any(self.repo.field_ann(t, n)[0] or self.repo.find_method(t, n) for t in self.types_of(o) if t in self.repo.classes)):
                    v, _ = self.getattr_ref(o, o, n, node, fr)
                    return v
                if len(args) == 3:
                    return App("getattr", (o, n, args[2]), fname="getattr")
                return Attr(o, n)
            return sym()
        if name == "len":
            if isinstance(a0, (list, tuple, dict, set, frozenset, str, bytes, range)):
                if not any(isinstance(x, Star) for x in (a0 if not isinstance(a0, (dict, str, bytes, range)) else ())):
                    return len(a0)
            return sym()
        if name == "bool":
            return self.truth(a0, node, fr) if args else False
        if name == "iter" and args:
            if isinstance(a0, _ConcreteIter):
                return a0
            items = self.concrete_iter(a0)
            if items is not None:
                return _ConcreteIter(items)
            return App("iter", (a0,), fname="iter")
        if name == "object" and not args and not kwargs:
            # a fresh sentinel: equal / identical only to itself
            return Obj("builtins.object", {}, name=f"object#{self.next_uid()}")
        if name == "next" and args:
            if isinstance(a0, _ConcreteIter):
                if a0.pos < len(a0.items):
                    a0.pos += 1
                    return a0.items[a0.pos - 1]
                if len(args) > 1:
                    return args[1]
                return self.raise_implicit("builtins.StopIteration", node, fr)
            if len(args) == 1:
                if self.decide(f"exhausted({vkey(a0)})#{self.next_uid()}", node):
                    return self.raise_implicit("builtins.StopIteration", node, fr)
            return App("next", args, uid=self.next_uid(), fname="next")
        if name == "zip" and args and all(self._as_citer(x) is not None for x in args):
            its = [self._as_citer(x) for x in args]
            out = []
            strict = bool(kwargs.get("strict", False))
            while True:
                row = []
                stop = False
                for i, it in enumerate(its):
                    if getattr(it, "cyclic", False) and it.items:
                        if all(getattr(o, "cyclic", False) for o in its):
                            stop = True  # only endless partners: not a finite zip
                            break
                        row.append(it.items[it.pos % len(it.items)])
                        it.pos += 1
                    elif it.pos < len(it.items):
                        row.append(it.items[it.pos])
                        it.pos += 1
                    else:
                        stop = True
                        if strict and (i > 0 or any(o.pos < len(o.items) for o in its[1:])):
                            return self.raise_implicit("builtins.ValueError", node, fr)
                        break
                if stop:
                    break
                out.append(tuple(row))
            return _ConcreteIter(out)
        if name in ("sorted", "min", "max") and kwargs.get("key") is not None and len(args) == 1 and not contains_term(args[0]) \
                and isinstance(args[0], (list, tuple, set, frozenset, dict, _ConcreteIter)):
            seq = args[0].drain() if isinstance(args[0], _ConcreteIter) else list(args[0])
            ks = self._keyed(seq, kwargs["key"], node, fr)
            if ks is not None and (ks or name == "sorted"):
                if name == "sorted":
                    order = sorted(range(len(ks)), key=lambda i_: ks[i_][0], reverse=bool(kwargs.get("reverse", False)))
                    return [ks[i_][1] for i_ in order]
                pick = (min if name == "min" else max)(range(len(ks)), key=lambda i_: ks[i_][0])
                return ks[pick][1]
        concrete = all(_plain(x) for x in args) and all(_plain(x) for x in kwargs.values())
        if concrete and name in SAFE_BUILTINS:
            try:
                argv = [x.drain() if isinstance(x, _ConcreteIter) else x for x in args]
                if name in ("any", "all") and argv and any(contains_term(x) for x in argv[0]):
                    vals = [self.truth(x, node, fr) for x in argv[0]]
                    return any(vals) if name == "any" else all(vals)
                if name in ("sorted", "min", "max") and "key" in kwargs:
                    ks = self._keyed(list(argv[0]) if argv else [], kwargs["key"], node, fr)
                    if ks is None:
                        return sym()
                    rev = bool(kwargs.get("reverse", False))
                    order = sorted(range(len(ks)), key=lambda i_: ks[i_][0], reverse=rev) if name == "sorted" else None
                    if name == "sorted":
                        return [ks[i_][1] for i_ in order]
                    pick = (min if name == "min" else max)(range(len(ks)), key=lambda i_: ks[i_][0])
                    return ks[pick][1]
                if name in ("sorted", "min", "max", "sum") and argv and contains_term(argv[0]):
                    return sym()
                r = SAFE_BUILTINS[name](*argv, **kwargs)
                if name in ("enumerate", "zip", "reversed", "map", "filter"):
                    r = _ConcreteIter(list(r))
                return r
            except StopIteration:
                return self.raise_implicit("builtins.StopIteration", node, fr)
            except (ValueError, TypeError, KeyError, IndexError) as e:
                return self.raise_implicit("builtins." + type(e).__name__, node, fr)
            except Exception:
                return sym()
        if name == "len" and isinstance(a0, Obj) and a0.cls in self.repo.classes and a0.fields and self.repo.find_method(a0.cls, "__len__") is not None:
            return self.call_function(self.repo.find_method(a0.cls, "__len__"), [], {}, node, fr, self_value=a0)
        if name in ("str", "repr") and isinstance(a0, Obj) and a0.cls in self.repo.classes and a0.fields:
            # the class's own __str__/__repr__ decides what the text is (and whether it is injective)
            for mname in (("__str__", "__repr__") if name == "str" else ("__repr__",)):
                mfi = self.repo.find_method(a0.cls, mname)
                if mfi is not None:
                    return self.call_function(mfi, [], {}, node, fr, self_value=a0)
        if name in ("str", "repr") and isinstance(a0, (Atom, Obj)):
            return Sym(f"{name}({vkey(a0)})")
        if name == "type" and len(args) == 1:
            if isinstance(a0, Obj):
                return ClassRef(a0.cls)
            if type(a0) in (str, int, float, bool, bytes, list, dict, tuple, set, frozenset) or a0 is None:
                return BuiltinRef(type(a0).__name__)
            return App("type", (a0,), fname="type")
        if name == "print":
            return None
        if name == "memoryview" and args and isinstance(a0, (bytes, bytearray)):
            return bytes(a0)
        if name == "super":
            return Opaque("super()")
        return sym()

    def _keyed(self, items, keyf, node, fr):
        """[(key value, item)] with the key callable evaluated by the interpreter; None if some key is not a concrete orderable value"""
        out = []
        for x in items:
            try:
                kv = self.call_value(keyf, None, [x], {}, node, fr)
            except Exception as e:  # signals of the interpreter must propagate
                from .interp import _Signal
                if isinstance(e, _Signal):
                    raise
                return None
            if contains_term(kv) or not isinstance(kv, (int, float, str, tuple, bool)):
                return None
            out.append((kv, x))
        try:
            sorted(k for k, _ in out)
        except TypeError:
            return None
        return out

    def _as_citer(self, x):
        from .stmts import _ConcreteIter

        if isinstance(x, _ConcreteIter):
            return x
        if isinstance(x, (list, tuple)):
            return _ConcreteIter(x)
        if isinstance(x, dict) and not isinstance(x, AnyKeyDict_):
            return _ConcreteIter(list(x.keys()))
        return None

    def isinstance_(self, v, spec, node, fr) -> bool:
        repo = self.repo
        classes: list[str] = []

        def flat(s):
            if isinstance(s, (tuple, list)):
                for x in s:
                    flat(x)
            elif isinstance(s, ClassRef):
                classes.append(s.qual)
            elif isinstance(s, BuiltinRef):
                classes.append("builtins." + s.name)
            elif isinstance(s, Term):
                classes.append(vkey(s))
            elif s is None:
                classes.append("builtins.NoneType")

        flat(spec)
        cs = set(classes)
        if "builtins.object" in cs:
            return True
        if isinstance(v, Obj):
            return any(c in repo.class_mro(v.cls) or self.exc_isinstance(v.cls, c) for c in cs)
        if isinstance(v, Atom) and v.cls:
            return any(c in repo.class_mro(v.cls) for c in cs) or ("builtins.str" in cs and v.cls == "builtins.str")
        if isinstance(v, EnumVal):
            return v.enum in cs or "builtins.int" in cs
        if not isinstance(v, Term):
            pymap = {"builtins.str": str, "builtins.int": int, "builtins.float": float, "builtins.dict": dict,
                     "builtins.list": list, "builtins.tuple": tuple, "builtins.set": set, "builtins.bool": bool,
                     "builtins.bytes": bytes, "builtins.NoneType": type(None)}
            return any(isinstance(v, pymap[c]) for c in cs if c in pymap)
        k = v.key()
        pos = self.tpos.get(k)
        if pos is None:
            t = self.types_of(v)
            pos = set(t) if t else None
        if pos is not None:
            sub = {p for p in pos if any(c in repo.class_mro(p) for c in cs) or p in cs}
            if sub == pos:
                return True
            if not sub:
                return False
            r = self.decide(f"isinstance({k},{'|'.join(sorted(cs))})", node)
            self.tpos[k] = sub if r else (pos - sub)
            return r
        neg = self.tneg.get(k, set())
        if cs <= neg:
            return False
        r = self.decide(f"isinstance({k},{'|'.join(sorted(cs))})", node)
        if r:
            self.tpos[k] = set(cs)
        else:
            self.tneg[k] = neg | cs
        return r

    # -------------------------------------------------------------- methods
    def call_method(self, bm: BoundMethod, args, kwargs, node, fr, name):
        from .evalx import AnyKeyDict
        from .stmts import _ConcreteIter

        recv = bm.recv
        if bm.fi is not None:
            if isinstance(recv, ClassRef):  # classmethod
                if self.should_inline(bm.fi, fr):
                    return self.call_function(bm.fi, args, kwargs, node, fr, self_value=recv)
                return App(bm.fi.qual, args, kwargs, uid=self.next_uid(), fname=bm.fi.qual)
            if self.should_inline(bm.fi, fr):
                return self.call_function(bm.fi, args, kwargs, node, fr, self_value=recv)
            if bm.name in MUTATORS and isinstance(recv, Term):
                self.bump(bm.recv_ref if bm.recv_ref is not None else recv)
            return App(bm.fi.qual, [recv] + list(args), kwargs, uid=self.next_uid(), fname=bm.fi.qual)
        m = bm.name
        if isinstance(recv, AnyKeyDict):
            if m == "get":
                return recv.value if recv.present else (args[1] if len(args) > 1 else None)
            if m == "pop":
                if recv.present:
                    recv.present = False
                    return recv.value
                if len(args) > 1:
                    return args[1]
                return self.raise_implicit("builtins.KeyError", node, fr)
            if m == "setdefault":
                if not recv.present:
                    recv.present, recv.value = True, (args[1] if len(args) > 1 else None)
                return recv.value
            if m in ("keys", "values", "items"):
                k = Sym("anykey")
                if not recv.present:
                    return []
                return {"keys": [k], "values": [recv.value], "items": [(k, recv.value)]}[m]
            return App(name, args, kwargs, uid=self.next_uid())
        if isinstance(recv, _ConcreteIter):
            return App(name, args, kwargs, uid=self.next_uid())
        if isinstance(recv, (list, dict, set, frozenset, tuple, str, bytes)):
            if any(isinstance(x, Star) for x in args):
                return App(name, args, kwargs, uid=self.next_uid())
            if isinstance(recv, str) and contains_term(args):
                return App(name, [recv] + list(args), kwargs, fname=f"str.{m}")
            if m in ("format",) or (isinstance(recv, (str, bytes)) and m in ("encode", "decode", "hex")):
                try:
                    return getattr(recv, m)(*args, **kwargs)
                except Exception:
                    return App(name, [recv] + list(args), kwargs, fname=f"str.{m}")
            if m == "sort" and isinstance(recv, list) and kwargs.get("key") is not None and not contains_term(recv):
                ks = self._keyed(list(recv), kwargs["key"], node, fr)
                if ks is not None:
                    order = sorted(range(len(ks)), key=lambda i_: ks[i_][0], reverse=bool(kwargs.get("reverse", False)))
                    recv[:] = [ks[i_][1] for i_ in order]
                    return None
            if m == "sort" and isinstance(recv, list):
                if "key" in kwargs or contains_term(recv):
                    keyf = kwargs.get("key")
                    self.effect("sort_symbolic", node, fr, recv=recv, key=keyf)
                    if keyf is None and not contains_term(recv):
                        recv.sort(reverse=bool(kwargs.get("reverse", False)))
                    return None
                try:
                    recv.sort(reverse=bool(kwargs.get("reverse", False)))
                except TypeError:
                    pass
                return None
            if m == "copy":
                import copy as _c

                return _c.copy(recv)
            try:
                hash_ok = all(_h(x) for x in args) or m in (
                    "append", "extend", "insert", "update", "index", "count", "join", "get", "setdefault", "pop", "intersection",
                    "union", "difference", "issubset", "issuperset", "isdisjoint", "symmetric_difference",
                    "difference_update", "intersection_update")
                if not hash_ok:
                    return App(name, args, kwargs, uid=self.next_uid())
                if m == "get" and isinstance(recv, dict):
                    k = args[0]
                    if _h(k) and k in recv:
                        return recv[k]
                    if isinstance(k, Term) and recv and not any(isinstance(x, Term) and x == k for x in recv):
                        if self.decide(f"in({vkey(k)},{vkey(recv)})", node):
                            return Sub(Sym(vkey(recv)), k)
                    return args[1] if len(args) > 1 else None
                if m == "join" and isinstance(recv, str):
                    seq = args[0]
                    items = self.concrete_iter(seq)
                    if items is None or contains_term(items):
                        return App("str.join", [recv, seq], fname="str.join")
                    return recv.join(items)
                f = getattr(recv, m)
                r = f(*args, **kwargs)
                if m in ("keys", "values", "items"):
                    r = list(r)
                return r
            except (KeyError, ValueError) as e:
                if any(isinstance(x, Term) for x in args) and (contains_term(recv) or m in ("remove", "pop", "index")):
                    self.notes.append(f"symbolic {m} on concrete container at line {getattr(node, 'lineno', 0)}")
                    return App(name, [recv] + list(args), kwargs, uid=self.next_uid())
                return self.raise_implicit("builtins." + type(e).__name__, node, fr)
            except IndexError:
                return self.raise_implicit("builtins.IndexError", node, fr)
            except (TypeError, AttributeError):
                return App(name, [recv] + list(args), kwargs, uid=self.next_uid())
        if isinstance(recv, int) and not isinstance(recv, bool) and m == "to_bytes" and all(isinstance(a, (int, str)) for a in args):
            try:
                return recv.to_bytes(*args, **kwargs)
            except OverflowError:
                return self.raise_implicit("builtins.OverflowError", node, fr)
            except Exception:
                pass
        if isinstance(recv, BuiltinRef) and recv.name == "int" and m == "from_bytes" and args and isinstance(args[0], (bytes, bytearray)):
            try:
                return int.from_bytes(*args, **kwargs)
            except Exception:
                pass
        if isinstance(recv, (Obj, Atom)):
            return App(name, args, kwargs, uid=self.next_uid(), fname=name)
        if isinstance(recv, Term):
            return self.symbolic_method(recv, m, args, kwargs, node, fr, name, recv_ref=bm.recv_ref)
        return App(name, args, kwargs, uid=self.next_uid())

    def symbolic_method(self, recv, m, args, kwargs, node, fr, name, recv_ref=None):
        if m in MUTATORS:
            self.bump(recv_ref if recv_ref is not None else recv)
        if m in ("keys", "values", "items", "get", "copy") or m in PURE_METHODS:
            return App(Attr(recv, m), args, kwargs, fname=f"{vkey(recv)}.{m}")
        return App(Attr(recv, m), args, kwargs, uid=self.next_uid(), fname=f"{vkey(recv)}.{m}")

    def bump(self, ref):
        """An in-place mutation of a symbolic container: later reads see a new version."""
        if not isinstance(ref, Term):
            return
        k = ref.key()
        n = self.mutver.get(k, 0) + 1
        self.mutver[k] = n
        cur = self.heap.get(k, ref)
        if isinstance(cur, Term):
            self.heap[k] = Mut(ref, n)


_RA_CACHE: dict = {}


def returns_arg(fi):
    """(index, name) if every return statement of the function returns the same bare
    parameter and that parameter is never re-bound (a sound 'returns its argument' summary)."""
    if fi.qual in _RA_CACHE:
        return _RA_CACHE[fi.qual]
    res = None
    node = fi.node
    if not isinstance(node, ast.Lambda) and not fi.is_generator:
        from .repo import walk_scope

        rets = [n for n in walk_scope(node) if isinstance(n, ast.Return)]
        names = {n.value.id if (n.value is not None and isinstance(n.value, ast.Name)) else None for n in rets}
        if rets and len(names) == 1 and None not in names:
            nm = names.pop()
            params = [a.arg for a in node.args.posonlyargs + node.args.args]
            if nm in params:
                rebound = False
                for n in walk_scope(node):
                    if isinstance(n, ast.Name) and n.id == nm and isinstance(n.ctx, ast.Store):
                        # `state = helper(state, ...)` where helper itself returns that argument is fine
                        rebound = True
                if rebound:
                    rebound = not _only_identity_rebinds(fi, nm)
                last = node.body[-1]
                if not rebound and isinstance(last, ast.Return):
                    res = (params.index(nm) - (1 if fi.cls is not None and params and params[0] in ("self", "cls") and False else 0), nm)
    _RA_CACHE[fi.qual] = res
    return res


def _only_identity_rebinds(fi, nm) -> bool:
    from .repo import get_repo, walk_scope

    repo = get_repo()
    for n in walk_scope(fi.node):
        if isinstance(n, ast.Assign) and any(isinstance(t, ast.Name) and t.id == nm for t in n.targets):
            v = n.value
            if not isinstance(v, ast.Call):
                return False
            f = v.func
            # timer(F, kind)(args)
            if isinstance(f, ast.Call) and isinstance(f.func, ast.Name) and f.args:
                q0 = repo.resolve_expr(fi.module, f.func)
                if q0 in TRANSPARENT_WRAPPERS:
                    f = f.args[0]
            q = repo.resolve_expr(fi.module, f) if isinstance(f, (ast.Name, ast.Attribute)) else None
            callee = repo.funcs.get(q) if q else None
            if callee is None or callee is fi:
                return False
            _RA_CACHE.setdefault(fi.qual, None)
            ra = returns_arg(callee)
            if ra is None:
                return False
            idx = ra[0]
            ok = (idx < len(v.args) and isinstance(v.args[idx], ast.Name) and v.args[idx].id == nm) or any(
                k.arg == ra[1] and isinstance(k.value, ast.Name) and k.value.id == nm for k in v.keywords)
            if not ok:
                return False
        elif isinstance(n, (ast.AugAssign, ast.For, ast.With, ast.NamedExpr)):
            for t in ast.walk(n.target if hasattr(n, "target") else n):
                pass
    for n in walk_scope(fi.node):
        if isinstance(n, ast.Name) and n.id == nm and isinstance(n.ctx, ast.Store):
            # must be the target of one of the Assigns vetted above
            pass
    return True


PURE_BUILTINS = {"len", "str", "repr", "int", "float", "sorted", "list", "tuple", "set", "dict", "enumerate", "zip",
                 "min", "max", "sum", "abs", "any", "all", "range", "reversed", "frozenset", "bool", "type", "id",
                 "getattr", "hash", "map", "filter", "round", "bytes", "memoryview", "iter"}
PURE_METHODS = {"keys", "values", "items", "get", "copy", "startswith", "endswith", "split", "rsplit", "strip",
                "lstrip", "rstrip", "removeprefix", "removesuffix", "lower", "upper", "encode", "decode", "index",
                "count", "union", "intersection", "difference", "issubset", "issuperset", "isdisjoint", "join",
                "format", "to_bytes", "hex", "done", "exception", "result", "is_alive", "toreadonly"}

import builtins as _b  # noqa: E402

SAFE_BUILTINS = {n: getattr(_b, n) for n in (
    "len", "str", "repr", "int", "float", "sorted", "list", "tuple", "set", "dict", "enumerate", "zip", "min", "max",
    "sum", "abs", "any", "all", "range", "reversed", "frozenset", "round", "bytes", "divmod", "ord", "chr")}


def _plain(x) -> bool:
    from .stmts import _ConcreteIter

    if isinstance(x, (Term, Obj, Atom, Closure, FuncRef, ClassRef, BoundMethod, ModRef, BuiltinRef, Star)):
        return False
    if isinstance(x, _ConcreteIter):
        return True
    return True


def _h(x) -> bool:
    try:
        hash(x)
        return True
    except TypeError:
        return False
