"""Developer helper: dump the explored paths of a function."""
import sys
from .repo import get_repo
from .interp import Interp

def dump(qual, **kw):
    ip = Interp(get_repo(), **kw)
    paths = ip.explore(qual)
    print(qual, len(paths), "paths")
    for i, p in enumerate(paths):
        print(f"--- path {i}: exit={p.exit[0]} {p.exit[1] if p.exit[0]!='return' else ''} | {p.cond_text()}")
        for e in p.effects:
            if e.kind in ("enter", "leave", "loop_iter", "loop_exit"): continue
            print(f"    L{e.lineno} {e.brief()}" + (f"  [{e.data.get('field')}]" if e.data.get('field') else ""))
        for n in p.notes: print("    note:", n)

if __name__ == "__main__":
    dump(sys.argv[1], max_iter=int(sys.argv[2]) if len(sys.argv) > 2 else 1)
