"""Expression evaluation for the abstract interpreter (mixin of interp.Run)."""
from __future__ import annotations

import ast
import operator

from .repo import AnalysisError
from .terms import (NTuple, Partial, App, Atom, Attr, BoundMethod, BuiltinRef, ClassRef, Closure, Comp, Elem, EnumVal, FStr, FuncRef,
                    ModRef, Obj, Op, Opaque, Star, Sub, Sym, Term, contains_term, vkey)
from .calls import CallMixin

BINOPS = {
    "Add": operator.add, "Sub": operator.sub, "Mult": operator.mul, "Div": operator.truediv,
    "FloorDiv": operator.floordiv, "Mod": operator.mod, "Pow": operator.pow, "BitOr": operator.or_,
    "BitAnd": operator.and_, "BitXor": operator.xor, "LShift": operator.lshift, "RShift": operator.rshift,
}
PLAIN = (int, float, str, bytes, bool, type(None), tuple, list, dict, set, frozenset, range, slice)


class AnyKeyDict:
    """Abstraction of a mapping for "the key in question": every key behaves alike
    (present with `value`, or absent)."""

    def __init__(self, present: bool, value=None, name="anykey"):
        self.present = present
        self.value = value
        self.name = name

    def __repr__(self):
        return f"<{self.name}: {'{k: ' + vkey(self.value) + '}' if self.present else '{}'}>"

    def __deepcopy__(self, memo):
        import copy

        return AnyKeyDict(self.present, copy.deepcopy(self.value, memo), self.name)


class EvalMixin(CallMixin):
    # ------------------------------------------------------------------ entry
    def eval(self, node, fr):
        return self.eval_ref(node, fr)[0]

    def eval_ref(self, node, fr):
        """-> (value, ref) where ref is the symbolic access path (Term) or None."""
        self.tick()
        m = getattr(self, "ex_" + type(node).__name__, None)
        if m is None:
            return Opaque(ast.unparse(node)), None
        r = m(node, fr)
        if isinstance(r, tuple) and len(r) == 2 and getattr(r, "_isref", False):
            return r
        return r, None

    # ------------------------------------------------------------------ names
    def load_name(self, name, fr, node):
        return self.load_name_ref(name, fr, node)[0]

    def load_name_ref(self, name, fr, node):
        from .interp import _Raise

        f = fr
        first = True
        while f is not None:
            if name in f.locals:
                c = f.locals[name]
                return c.value, (c.ref if c.ref is not None else (c.value if isinstance(c.value, Term) else None))
            if first and name in f.declared and name not in f.globals_decl:
                # declared local but unbound on this path
                exc = Obj("builtins.UnboundLocalError", args=(name,))
                if self.opts.record_unbound:
                    self.effect("unbound", node, f, name=name)
                self.effect("raise", node, f, value=exc, implicit=True)
                raise _Raise(exc, node)
            if not first and name in f.declared:
                # enclosing-scope variable not (yet) bound: unknown
                return Sym(f"{f.fi.qual}.{name}"), None
            first = False
            f = f.parent
        v = self.global_value(f"{fr.fi.module.name}.{name}", fr, bare=name)
        return v, (v if isinstance(v, Term) else None)

    def global_value(self, qual, fr, bare=None):
        repo = self.repo
        if qual in self.heap:
            return self.heap[qual]
        mname, _, nm = qual.rpartition(".")
        m = repo.modules.get(mname)
        target = qual
        if m is not None and bare is not None:
            q = repo.resolve_name(m, bare)
            if q is None:
                import builtins

                if hasattr(builtins, bare):
                    return BuiltinRef(bare)
                return Sym(bare)
            target = q
        r = repo.lookup(target)
        if r is None:
            if m is not None and bare is not None and bare in m.module_imports:
                return ModRef(target)
            return Sym(repo.canon(target)) if "." in target else Sym(target)
        kind, obj = r
        if kind == "module":
            return ModRef(obj.name)
        if kind == "class":
            return ClassRef(obj.qual)
        if kind == "func":
            return FuncRef(obj)
        if kind == "const":
            cm, ce = obj
            v = self.const_value(cm, ce)
            sc = self.opts.scale_ints
            if sc is not None and type(v) is int and v > sc[2] and cm.name in sc[0]:
                return sc[1]
            if isinstance(v, (dict, list, set)):
                # a mutable module-level object: one shared instance per run (writes must persist)
                key = repo.canon(target)
                for q2 in (qual, key, target):
                    if q2 in self.heap:
                        return self.heap[q2]
                self.heap[qual] = v
                self.heap[key] = v
                return v
            builtin_ctor = isinstance(ce, ast.Call) and isinstance(ce.func, ast.Name) and ce.func.id in (
                "frozenset", "set", "tuple", "list", "dict", "sorted", "range", "object") and repo.resolve_name(cm, ce.func.id) is None
            if v is NotImplemented and (isinstance(ce, (ast.List, ast.Tuple, ast.Dict, ast.Set)) or builtin_ctor) and not getattr(self, "_in_modconst", False):
                # a module-level table whose entries are not plain constants (handler tuples built with operator.methodcaller, partials, ...):
                # evaluated once by the interpreter in the module's scope, shared by everything that names it
                from .interp import Frame, _Signal
                from .repo import FuncInfo

                key = repo.canon(target)
                fn = ast.FunctionDef(name="<module>", args=ast.arguments(posonlyargs=[], args=[], kwonlyargs=[], kw_defaults=[], defaults=[]),
                                     body=[], decorator_list=[], lineno=1)
                tmp = Frame(FuncInfo(cm.name, fn, cm, None, None), None, fr.depth)
                tmp.declared = set()
                self._in_modconst = True
                n_eff = len(self.effects)
                n_dec = len(self.decisions)
                try:
                    v2 = self.eval(ce, tmp)
                except _Signal:
                    v2 = NotImplemented
                finally:
                    self._in_modconst = False
                    del self.effects[n_eff:]
                if v2 is not NotImplemented and len(self.decisions) == n_dec and not isinstance(v2, Term):
                    self.heap[qual] = v2
                    self.heap[key] = v2
                    return v2
            if v is NotImplemented and isinstance(ce, ast.Call) and not getattr(self, "_in_modconst", False):
                # NAME = RepoClass(...) / repo_function(...) at module level: built once, shared by everything that names it
                cq = repo.resolve_expr(cm, ce.func)
                r2 = repo.lookup(cq) if cq else None
                if r2 is None and cq and "." in cq and cq.split(".")[0] not in ("cascade", "earthkit") and not ce.keywords:
                    # NAME = external.Constructor(<literals>) (struct.Struct(">q"), re.compile("..")): a stable, pure term that shows its arguments
                    try:
                        lit = [ast.literal_eval(a_) for a_ in ce.args]
                    except Exception:
                        lit = None
                    if lit is not None:
                        return App(cq, lit, fname=cq)
                if r2 is not None and r2[0] in ("class", "func") and not (r2[0] == "class" and repo.is_enum(r2[1].qual)):
                    from .interp import Frame, _Signal
                    from .repo import FuncInfo

                    key = repo.canon(target)
                    fn = ast.FunctionDef(name="<module>", args=ast.arguments(posonlyargs=[], args=[], kwonlyargs=[], kw_defaults=[], defaults=[]),
                                         body=[], decorator_list=[], lineno=1)
                    tmp = Frame(FuncInfo(cm.name, fn, cm, None, None), None, fr.depth)
                    tmp.declared = set()
                    self._in_modconst = True
                    n_eff = len(self.effects)
                    try:
                        v2 = self.eval(ce, tmp)
                    except _Signal:
                        v2 = NotImplemented
                    finally:
                        self._in_modconst = False
                        del self.effects[n_eff:]  # import-time effects are not effects of the analysed function
                    if v2 is not NotImplemented:
                        self.heap[qual] = v2
                        self.heap[key] = v2
                        return v2
            return v if v is not NotImplemented else Sym(repo.canon(target))
        return Sym(target)

    def const_value(self, m, e, _d=0, cls=None):
        """Module-level / class-level constant expression -> value (literals, unions of classes, simple arithmetic, tables)."""
        if _d > 6:
            return NotImplemented
        if cls is not None and isinstance(e, ast.Name) and e.id in cls.methods:
            return FuncRef(cls.methods[e.id])
        if cls is not None and isinstance(e, (ast.List, ast.Tuple, ast.Set, ast.Dict)):
            sub = lambda x: self.const_value(m, x, _d + 1, cls)
            if isinstance(e, ast.Dict):
                if any(k is None for k in e.keys):
                    return NotImplemented
                ks, vs = [sub(x) for x in e.keys], [sub(x) for x in e.values]
                if any(v is NotImplemented for v in ks + vs):
                    return NotImplemented
                try:
                    return dict(zip(ks, vs))
                except TypeError:
                    return NotImplemented
            vals = [sub(x) for x in e.elts]
            if any(v is NotImplemented for v in vals):
                return NotImplemented
            return list(vals) if isinstance(e, ast.List) else tuple(vals) if isinstance(e, ast.Tuple) else set(vals)
        try:
            return ast.literal_eval(e)
        except Exception:
            pass
        if isinstance(e, ast.BinOp):
            l = self.const_value(m, e.left, _d + 1)
            r = self.const_value(m, e.right, _d + 1)
            if isinstance(e.op, ast.BitOr):
                mem = self.repo.union_members(m, e)
                if mem is not None:
                    return tuple(ClassRef(q) for q in mem)
            if l is NotImplemented or r is NotImplemented:
                return NotImplemented
            try:
                return BINOPS[type(e.op).__name__](l, r)
            except Exception:
                return NotImplemented
        if isinstance(e, (ast.Name, ast.Attribute)):
            q = self.repo.resolve_expr(m, e)
            if q is None:
                import builtins

                if isinstance(e, ast.Name) and hasattr(builtins, e.id):
                    return BuiltinRef(e.id)
                return NotImplemented
            r = self.repo.lookup(q)
            if r is None:
                if "." in q and q.split(".")[0] not in ("cascade", "earthkit"):
                    return Sym(q)  # a name from an external module (operator.add, numpy.float32, ...): an opaque but stable reference
                return NotImplemented
            kind, obj = r
            if kind == "class":
                return ClassRef(obj.qual)
            if kind == "func":
                return FuncRef(obj)
            if kind == "const":
                return self.const_value(obj[0], obj[1], _d + 1)
            if kind == "classattr":
                ci, ve = obj
                if self.repo.is_enum(ci.qual):
                    return EnumVal(ci.qual, q.rsplit(".", 1)[-1])
            return NotImplemented
        if isinstance(e, (ast.List, ast.Tuple, ast.Set)):
            vals = [self.const_value(m, x, _d + 1) for x in e.elts]
            if any(v is NotImplemented for v in vals):
                return NotImplemented
            return list(vals) if isinstance(e, ast.List) else tuple(vals) if isinstance(e, ast.Tuple) else set(vals)
        if isinstance(e, ast.Dict) and all(k is not None for k in e.keys):
            ks = [self.const_value(m, x, _d + 1) for x in e.keys]
            vs = [self.const_value(m, x, _d + 1) for x in e.values]
            if any(v is NotImplemented for v in ks + vs):
                return NotImplemented
            try:
                return dict(zip(ks, vs))
            except TypeError:
                return NotImplemented
        if isinstance(e, ast.Call) and isinstance(e.func, ast.Name) and e.func.id == "int" and len(e.args) == 1:
            v = self.const_value(m, e.args[0], _d + 1)
            try:
                return int(v)
            except Exception:
                return NotImplemented
        return NotImplemented

    def ex_Name(self, node, fr):
        return _ref(*self.load_name_ref(node.id, fr, node))

    def ex_Constant(self, node, fr):
        sc = self.opts.scale_ints
        if sc is not None and type(node.value) is int and node.value > sc[2] and fr.fi.module.name in sc[0]:
            # scaled-threshold exploration (see Options.scale_ints)
            return sc[1]
        return node.value

    # ------------------------------------------------------------- attribute
    def ex_Attribute(self, node, fr):
        base, bref = self.eval_ref(node.value, fr)
        return _ref(*self.getattr_ref(base, bref, node.attr, node, fr))

    def getattr_ref(self, base, bref, attr, node, fr):
        repo = self.repo
        if isinstance(base, NTuple) and attr in base.names:
            return base.field(attr), (Attr(bref, attr) if bref is not None else None)
        if isinstance(base, ModRef) and attr == "__dict__" and base.qual in repo.modules:
            m_ = repo.modules[base.qual]
            d_ = {}
            for q_, ci_ in repo.classes.items():
                if ci_.module is m_ and q_ == f"{base.qual}.{ci_.name}":
                    d_[ci_.name] = ClassRef(q_)
            for q_, fi_ in repo.funcs.items():
                if fi_.module is m_ and fi_.parent is None and fi_.cls is None:
                    d_[fi_.name] = FuncRef(fi_)
            return d_, None
        if isinstance(base, ModRef):
            q = f"{base.qual}.{attr}"
            if base.qual in repo.modules or repo.lookup(q) is not None:
                v = self.global_value(q, fr)
                return v, (v if isinstance(v, Term) else None)
            return Sym(q), Sym(q)
        if isinstance(base, ClassRef):
            if base.qual in repo.classes and repo.is_enum(base.qual) and attr in repo.enum_members(base.qual):
                return EnumVal(base.qual, attr), None
            fi = repo.find_method(base.qual, attr) if base.qual in repo.classes else None
            if fi is not None:
                if any(d in ("classmethod",) for d in fi.decorators):
                    return BoundMethod(base, attr, fi), None
                return FuncRef(fi), None
            if base.qual in repo.classes:
                for q in repo.class_mro(base.qual):
                    ci = repo.classes.get(q)
                    if ci and attr in ci.class_attrs:
                        key = f"{q}.{attr}"
                        if key in self.heap:
                            return self.heap[key], Sym(key)
                        v = self.const_value(ci.module, ci.class_attrs[attr], cls=ci)
                        return (v if v is not NotImplemented else Sym(key)), Sym(key)
            if attr == "__name__":
                return base.qual.rsplit(".", 1)[-1], None
            if attr in ("model_fields", "__dataclass_fields__", "__annotations__") and base.qual in repo.classes:
                # the declared fields of a model / dataclass (own and inherited), by name
                names = {}
                for q in reversed(repo.class_mro(base.qual)):
                    ci_ = repo.classes.get(q)
                    if ci_ is not None:
                        for f_ in ci_.fields:
                            names[f_] = Sym(f"{q}.{f_}:field")
                return names, None
            if attr in ("__mro__", "__bases__") and base.qual in repo.classes:
                mro = [q for q in repo.class_mro(base.qual)]
                refs = tuple(ClassRef(q) for q in mro) + (ClassRef("builtins.object"),)
                return (refs if attr == "__mro__" else tuple(ClassRef(b) for b in mro[1:2]) or (ClassRef("builtins.object"),)), None
            return Sym(f"{base.qual}.{attr}"), Sym(f"{base.qual}.{attr}")
        if isinstance(base, EnumVal):
            if attr == "name":
                return base.member, None
            if attr == "value":
                return Attr(Sym(repr(base)), "value"), None
        if isinstance(base, Obj):
            if attr in base.fields:
                v = base.fields[attr]
                r = Attr(bref if bref is not None else Sym(base.name), attr)
                return v, r
            if base.cls in repo.classes:
                fi = repo.find_method(base.cls, attr)
                if fi is not None:
                    if "property" in fi.decorators:
                        return self.call_function(fi, [base], {}, node, fr), None
                    if "staticmethod" in fi.decorators:
                        return FuncRef(fi), None
                    return BoundMethod(base, attr, fi, bref), None
                v, r = self.getattr_ref(ClassRef(base.cls), None, attr, node, fr)
                if not isinstance(v, Sym):
                    return v, r
            r = Attr(bref if bref is not None else Sym(base.name), attr)
            if r.key() in self.heap:
                return self.heap[r.key()], r
            if attr == "__class__":
                return ClassRef(base.cls), None
            if base.cls in repo.classes and base.fields and not getattr(self, "_in_getattr_hook", False) and not (attr.startswith("__") and attr.endswith("__")):
                # the class's own fallback for attributes that are neither fields nor methods (objects whose fields the model spelled out)
                hook = repo.find_method(base.cls, "__getattr__")
                if hook is not None:
                    self._in_getattr_hook = True
                    try:
                        return self.call_function(hook, [base, attr], {}, node, fr), None
                    finally:
                        self._in_getattr_hook = False
            return BoundMethod(base, attr, None, bref) if base.cls.startswith("builtins.") and False else r, r
        if isinstance(base, Atom):
            if attr in base.fields:
                return base.fields[attr], Attr(bref if bref is not None else Sym(base.name), attr)
            r = Attr(Sym(base.name), attr)
            return self.heap.get(r.key(), r), r
        if isinstance(base, Term):
            r = Attr(bref if bref is not None else base, attr)
            if r.key() in self.heap:
                return self.heap[r.key()], r
            r2 = Attr(base, attr)
            if r2.key() in self.heap:
                return self.heap[r2.key()], r2
            # typed receiver: method / property / class attribute?
            for cq in sorted(self.types_of(base)):
                if cq in repo.classes:
                    fi = repo.find_method(cq, attr)
                    if fi is not None and any(d.endswith((".setter", ".getter")) for d in fi.decorators):
                        # a property with a setter: the name is defined twice in the class body; reading it runs the getter
                        from .interp import _prop_defs
                        g_, _s = _prop_defs(repo, cq, attr)
                        if g_ is not None:
                            return self.call_function(g_, [base], {}, node, fr), None
                    if fi is not None:
                        if "property" in fi.decorators:
                            if self.should_inline(fi, fr):
                                # a property introduced later (or a private helper property): evaluated like any other inlined helper
                                return self.call_function(fi, [base], {}, node, fr), None
                            return Attr(base, attr), r
                        if "staticmethod" in fi.decorators:
                            return FuncRef(fi), None
                        return BoundMethod(base, attr, fi, bref if bref is not None else base), None
                    ci, ann = repo.field_ann(cq, attr)
                    if ci is not None and attr in ci.init_values and isinstance(ci.init_values[attr], (ast.List, ast.Tuple, ast.Dict)):
                        init = repo.find_method(cq, "__init__")
                        if init is not None:
                            from .interp import Cell, Frame
                            tf = Frame(init, None, fr.depth)
                            tf.declared = set()
                            tf.locals["self"] = Cell(base, bref if bref is not None else base)
                            try:
                                tv = self.eval(ci.init_values[attr], tf)
                                if not isinstance(tv, Term):
                                    self.heap[r.key()] = tv
                                    return tv, r
                            except Exception:
                                pass
                    if ci is None:
                        cv, cr = self.getattr_ref(ClassRef(cq), None, attr, node, fr)
                        if not (isinstance(cv, Sym) and cv.name == f"{cq}.{attr}"):
                            return cv, cr
            return r2 if bref is None else Attr(bref, attr) if False else r2, r
        if isinstance(base, AnyKeyDict) or isinstance(base, PLAIN) or isinstance(base, (Closure, FuncRef, BuiltinRef)):
            if isinstance(base, (Closure, FuncRef)) and attr == "__name__":
                return base.fi.name, None
            return BoundMethod(base, attr, None, bref), None
        if isinstance(base, BoundMethod):
            return Attr(Sym(vkey(base)), attr), None
        from .stmts import _ConcreteIter

        if isinstance(base, _ConcreteIter):
            return BoundMethod(base, attr, None, bref), None
        return Opaque(f"{vkey(base)}.{attr}"), None

    # ------------------------------------------------------------- subscript
    def eval_index(self, s, fr):
        if isinstance(s, ast.Slice):
            lo = self.eval(s.lower, fr) if s.lower else None
            hi = self.eval(s.upper, fr) if s.upper else None
            st = self.eval(s.step, fr) if s.step else None
            if all(isinstance(x, (int, type(None))) for x in (lo, hi, st)):
                return slice(lo, hi, st)
            return Op("slice", lo, hi, st)
        if isinstance(s, ast.Tuple):
            return tuple(self.eval_index(e, fr) for e in s.elts)
        return self.eval(s, fr)

    def ex_Subscript(self, node, fr):
        base, bref = self.eval_ref(node.value, fr)
        idx = self.eval_index(node.slice, fr)
        return _ref(*self.getitem_ref(base, bref, idx, node, fr))

    def getitem_ref(self, base, bref, idx, node, fr):
        from .interp import _Raise

        r = Sub(bref, idx) if bref is not None else (Sub(base, idx) if isinstance(base, Term) else None)
        if isinstance(base, AnyKeyDict):
            if base.present:
                return base.value, r
            return self.raise_implicit("builtins.KeyError", node, fr)
        if isinstance(base, dict):
            if _hashable(idx) and idx in base:
                return base[idx], r
            if isinstance(idx, Term) and any(isinstance(k, Term) for k in base) is False and base:
                # unknown key into a concrete dict: undecided which entry
                return Sub(Sym(vkey(base)), idx), r
            if hasattr(base, "default_factory") and base.default_factory is not None:
                v = base.default_factory()
                base[idx] = v
                return v, r
            return self.raise_implicit("builtins.KeyError", node, fr)
        if isinstance(base, (list, tuple, str, bytes, range)):
            if isinstance(idx, (int, slice)):
                try:
                    return base[idx], r
                except IndexError:
                    return self.raise_implicit("builtins.IndexError", node, fr)
            return Sub(Sym(vkey(base)), idx), r
        if isinstance(base, ClassRef):  # generic alias e.g. dict[str, int]
            return base, None
        if isinstance(base, Term):
            if r is not None and r.key() in self.heap:
                return self.heap[r.key()], r
            r2 = Sub(base, idx)
            if r2.key() in self.heap:
                return self.heap[r2.key()], r2
            return r2, r
        if isinstance(base, (Obj, Atom)):
            r = Sub(bref if bref is not None else Sym(base.name), idx)
            return self.heap.get(r.key(), r), r
        return Opaque(f"{vkey(base)}[{vkey(idx)}]"), None

    def raise_implicit(self, cls, node, fr):
        from .interp import _Raise

        exc = Obj(cls)
        self.effect("raise", node, fr, value=exc, implicit=True)
        raise _Raise(exc, node)

    # ------------------------------------------------------------- operators
    def ex_BoolOp(self, node, fr):
        is_and = isinstance(node.op, ast.And)
        v = None
        for e in node.values:
            v = self.eval(e, fr)
            t = self.truth(v, e, fr)
            if is_and and not t:
                return v if not isinstance(v, Term) else False
            if not is_and and t:
                return v if not isinstance(v, Term) else (v if _is_valueish(v) else True)
        return v if not isinstance(v, Term) else (True if is_and else False) if not _is_valueish(v) else v

    def ex_UnaryOp(self, node, fr):
        v = self.eval(node.operand, fr)
        if isinstance(node.op, ast.Not):
            return not self.truth(v, node.operand, fr)
        if isinstance(v, (int, float)) and not isinstance(v, bool):
            return {"USub": -v, "UAdd": +v, "Invert": ~v if isinstance(v, int) else v}[type(node.op).__name__]
        return Op(type(node.op).__name__, v)

    def ex_BinOp(self, node, fr):
        l = self.eval(node.left, fr)
        r = self.eval(node.right, fr)
        return self.binop(type(node.op).__name__, l, r, node)

    def binop(self, opname, l, r, node):
        if opname == "BitOr" and isinstance(l, (ClassRef, BuiltinRef, tuple)) and isinstance(r, (ClassRef, BuiltinRef, tuple, type(None))):
            lt = l if isinstance(l, tuple) else (l,)
            rt = r if isinstance(r, tuple) else (r,)
            return lt + rt
        if isinstance(l, PLAIN) and isinstance(r, PLAIN) and not (contains_term(l) and opname not in ("Add", "Mult")):
            if opname == "Mod" and isinstance(l, str) and contains_term(r):
                return Op(opname, l, r)
            try:
                return BINOPS[opname](l, r)
            except Exception:
                return Op(opname, l, r)
        if opname in ("Add", "Sub") and (isinstance(l, Term) or isinstance(r, Term)):
            n = _lin_combine(opname, l, r)
            if n is not NotImplemented:
                return n
        return Op(opname, l, r)

    def ex_Compare(self, node, fr):
        left = self.eval(node.left, fr)
        for op, rn in zip(node.ops, node.comparators):
            right = self.eval(rn, fr)
            if not self.compare(type(op).__name__, left, right, node, fr):
                return False
            left = right
        return True

    NEG = {"NotEq": "Eq", "IsNot": "Is", "NotIn": "In"}

    STDLIB_CONST_PREFIXES = ("inspect.", "zmq.", "socket.", "signal.", "logging.", "errno.", "stat.", "enum.", "http.")

    @classmethod
    def ext_const(cls, t) -> bool:
        """a reference to a constant of an external module (inspect.Parameter.KEYWORD_ONLY, zmq.POLLIN, inspect.Parameter.empty): a fixed object, equal only
        to itself, different from every concrete value and from every other such constant"""
        if not isinstance(t, (Sym, Attr)):
            return False
        k = t.key()
        return k.startswith(cls.STDLIB_CONST_PREFIXES) and "(" not in k and "[" not in k

    def _never_none(self, app) -> bool:
        """the un-evaluated result of a repository function whose declared return type excludes None (`-> bytes`, `-> tuple[...]`)"""
        fi = self.repo.funcs.get(app.fname) if isinstance(app.fname, str) else None
        ann = getattr(fi.node, "returns", None) if fi is not None else None
        if ann is None:
            return False
        txt = ast.unparse(ann)
        return not any(w in txt for w in ("None", "Optional", "Any", "object")) and not isinstance(ann, ast.Constant)

    def compare(self, op, l, r, node, fr) -> bool:
        if op in ("Eq", "Is") and (self.ext_const(l) or self.ext_const(r)):
            if self.ext_const(l) and self.ext_const(r):
                return l.key() == r.key()
            other = r if self.ext_const(l) else l
            if not isinstance(other, Term):
                return False
        if op in self.NEG:
            return not self.compare(self.NEG[op], l, r, node, fr)
        if op == "Gt":
            return self.compare("Lt", r, l, node, fr)
        if op == "GtE":
            return not self.compare("Lt", l, r, node, fr)
        if op == "LtE":
            return not self.compare("Lt", r, l, node, fr)
        if op == "Is":
            if l is None or r is None:
                other = r if l is None else l
                if isinstance(other, Term):
                    if isinstance(other, App) and self._never_none(other):
                        return False
                    return self.decide(f"isnone({vkey(other)})", node)
                return other is None
            if isinstance(l, Term) or isinstance(r, Term):
                if isinstance(l, Term) and isinstance(r, Term) and l == r:
                    return True
                a, b = sorted([vkey(l), vkey(r)])
                return self.decide(f"is({a},{b})", node)
            if isinstance(l, (bool, int, str, EnumVal, Atom, Obj, ClassRef, FuncRef)) or isinstance(r, (bool, int, str, EnumVal, Atom, Obj)):
                return l is r or (type(l) is type(r) and isinstance(l, (bool, int, str)) and l == r) or (isinstance(l, (ClassRef, FuncRef)) and l == r)
            if isinstance(l, BuiltinRef) and isinstance(r, BuiltinRef):
                return l.name == r.name
            return l is r
        if op == "Eq":
            if isinstance(l, Term) or isinstance(r, Term):
                if isinstance(l, Term) and isinstance(r, Term) and l == r and not isinstance(l, App):
                    return True
                a, b = sorted([vkey(l), vkey(r)])
                return self.decide(f"eq({a},{b})", node)
            if contains_term(l) or contains_term(r):
                if vkey(l) == vkey(r):
                    return True
                a, b = sorted([vkey(l), vkey(r)])
                return self.decide(f"eq({a},{b})", node)
            try:
                return bool(l == r)
            except Exception:
                return False
        if op == "In":
            return self.contains(r, l, node, fr)
        if op == "Lt":
            if isinstance(l, (int, float)) and isinstance(r, (int, float)):
                return l < r
            if isinstance(l, str) and isinstance(r, str):
                return l < r
            if isinstance(l, (tuple, list)) and isinstance(r, (tuple, list)) and not contains_term(l) and not contains_term(r):
                try:
                    return l < r
                except Exception:
                    pass
            return self.decide(f"lt({vkey(l)},{vkey(r)})", node)
        raise AnalysisError(f"unsupported comparison {op}")

    def contains(self, container, item, node, fr) -> bool:
        if isinstance(container, AnyKeyDict):
            return container.present
        if isinstance(container, Obj) and container.cls in self.repo.classes and container.fields:
            m = self.repo.find_method(container.cls, "__contains__")
            if m is not None:  # a user-defined container: its own membership test decides
                return self.truth(self.call_function(m, [item], {}, node, fr, self_value=container), node, fr)
        if isinstance(container, (dict, set, frozenset, list, tuple)) and self.ext_const(item) and all(self.ext_const(x) or not isinstance(x, Term) for x in container):
            return any(isinstance(x, Term) and x.key() == item.key() for x in container)
        if isinstance(container, (dict, set, frozenset, list, tuple)):
            if isinstance(item, Term):
                if any(isinstance(x, Term) and x == item for x in container):
                    return True
                if not container:
                    return False
                return self.decide(f"in({vkey(item)},{vkey(container)})", node)
            if contains_term(container):
                try:
                    if _hashable(item) and item in container:
                        return True
                except Exception:
                    pass
                if any(isinstance(x, Term) for x in container):
                    return self.decide(f"in({vkey(item)},{vkey(container)})", node)
                return False
            try:
                if isinstance(container, (list, tuple)):
                    return any(self._same(item, x) for x in container)
                return _hashable(item) and item in container
            except Exception:
                return False
        if isinstance(container, str) and isinstance(item, str):
            return item in container
        if isinstance(container, BoundMethod) or container is None:
            return self.raise_implicit("builtins.TypeError", node, fr)
        return self.decide(f"in({vkey(item)},{vkey(container)})", node)

    @staticmethod
    def _same(a, b):
        try:
            return a is b or a == b
        except Exception:
            return False

    def truth(self, v, node, fr) -> bool:
        if isinstance(v, Term):
            if isinstance(v, Op) and v.op == "Not":
                return not self.truth(v.operands[0], node, fr)
            return self.decide(f"truthy({vkey(v)})", node)
        if isinstance(v, AnyKeyDict):
            return v.present
        if isinstance(v, (Obj, Atom, EnumVal, ClassRef, FuncRef, Closure, ModRef, BuiltinRef, BoundMethod)):
            if isinstance(v, EnumVal):
                return True
            return True
        from .stmts import _ConcreteIter

        if isinstance(v, _ConcreteIter):
            return True
        try:
            return bool(v)
        except Exception:
            return True

    def ex_IfExp(self, node, fr):
        if self.truth(self.eval(node.test, fr), node.test, fr):
            return _ref(*self.eval_ref(node.body, fr))
        return _ref(*self.eval_ref(node.orelse, fr))

    def ex_NamedExpr(self, node, fr):
        v, ref = self.eval_ref(node.value, fr)
        # walrus binds in the enclosing function scope even inside comprehensions
        f = fr
        while getattr(f, "is_comp", False):
            f = f.parent
        self.store_name(node.target.id, v, f, ref)
        return _ref(v, ref)

    def ex_Lambda(self, node, fr):
        fi = None
        for cand in fr.fi.nested.values():
            if cand.node is node:
                fi = cand
        if fi is None:
            from .repo import FuncInfo

            fi = FuncInfo(f"{fr.fi.qual}.<lambda@{node.lineno}>", node, fr.fi.module, None, fr.fi)
        return Closure(fi, fr)

    # ------------------------------------------------------------ containers
    def ex_Tuple(self, node, fr):
        return tuple(self.eval_elts(node.elts, fr))

    def ex_List(self, node, fr):
        return list(self.eval_elts(node.elts, fr))

    def ex_Set(self, node, fr):
        out = set()
        for v in self.eval_elts(node.elts, fr):
            if _hashable(v):
                out.add(v)
        return out

    def eval_elts(self, elts, fr):
        out = []
        for e in elts:
            if isinstance(e, ast.Starred):
                v = self.eval(e.value, fr)
                items = self.concrete_iter(v)
                if items is not None:
                    out.extend(items)
                else:
                    out.append(Star(v))
            else:
                out.append(self.eval(e, fr))
        return out

    def ex_Dict(self, node, fr):
        out = {}
        sym_parts = []
        for k, v in zip(node.keys, node.values):
            if k is None:
                d = self.eval(v, fr)
                if isinstance(d, dict):
                    out.update(d)
                else:
                    sym_parts.append(d)
                    out[Star(d, True)] = d
            else:
                kv = self.eval(k, fr)
                vv = self.eval(v, fr)
                if _hashable(kv):
                    out[kv] = vv
        return out

    def ex_JoinedStr(self, node, fr):
        parts = []
        for p in node.values:
            if isinstance(p, ast.Constant):
                parts.append(str(p.value))
            elif isinstance(p, ast.FormattedValue):
                v = self.eval(p.value, fr)
                if isinstance(v, (str, int)) and not isinstance(v, bool) and p.format_spec is None and p.conversion == -1:
                    parts.append(str(v))
                else:
                    parts.append(v if isinstance(v, Term) else Sym(vkey(v)) if not isinstance(v, (str, int)) else str(v))
        if all(isinstance(p, str) for p in parts):
            return "".join(parts)
        merged = []
        for p in parts:
            if isinstance(p, str) and merged and isinstance(merged[-1], str):
                merged[-1] += p
            else:
                merged.append(p)
        return FStr(merged)

    def ex_Starred(self, node, fr):
        return Star(self.eval(node.value, fr))

    def ex_Yield(self, node, fr):
        v = self.eval(node.value, fr) if node.value is not None else None
        self.effect("yield", node, fr, value=v)
        f = fr
        while f is not None and getattr(f, "is_comp", False):
            f = f.parent
        if f is not None and hasattr(f, "gen_acc"):
            f.gen_acc.append(v)
        return None

    def ex_YieldFrom(self, node, fr):
        v = self.eval(node.value, fr)
        self.effect("yield", node, fr, value=v, frm=True)
        if hasattr(fr, "gen_acc"):
            items = self.concrete_iter(v)
            if items is not None:
                fr.gen_acc.extend(items)
        return None

    def ex_Await(self, node, fr):
        return self.eval(node.value, fr)

    def ex_Slice(self, node, fr):
        return self.eval_index(node, fr)

    # -------------------------------------------------------- comprehensions
    def ex_ListComp(self, node, fr):
        return self.comp(node, "list", fr)

    def ex_SetComp(self, node, fr):
        return self.comp(node, "set", fr)

    def ex_GeneratorExp(self, node, fr):
        return self.comp(node, "gen", fr)

    def ex_DictComp(self, node, fr):
        return self.comp(node, "dict", fr)

    def comp(self, node, kind, fr):
        from .interp import Frame

        cfr = Frame(fr.fi, fr, fr.depth)
        cfr.is_comp = True
        cfr.declared = set()
        for g in node.generators:
            for t in ast.walk(g.target):
                if isinstance(t, ast.Name):
                    cfr.declared.add(t.id)
        out = []
        symbolic = {"iters": [], "conds": []}

        def rec(gi):
            if gi == len(node.generators):
                if kind == "dict":
                    out.append((self.eval(node.key, cfr), self.eval(node.value, cfr)))
                else:
                    out.append(self.eval(node.elt, cfr))
                return
            g = node.generators[gi]
            it = self.eval(g.iter, fr if gi == 0 else cfr)
            items = self.concrete_iter(it)
            if items is None:
                symbolic["iters"].append(it)
                x = Elem(it, "*")
                self.assign(g.target, x, cfr, node, None, record=False)
                for c in g.ifs:
                    symbolic["conds"].append(self.cond_term(c, cfr))
                rec(gi + 1)
                return
            for x in items[: self.opts.max_concrete_iter * 4]:
                self.assign(g.target, x, cfr, node, None, record=False)
                if all(self.truth(self.eval(c, cfr), c, cfr) for c in g.ifs):
                    rec(gi + 1)

        rec(0)
        if symbolic["iters"] and out:
            return Comp(kind, out[0], symbolic["iters"], symbolic["conds"])
        if kind == "list":
            return out
        if kind == "gen":
            from .stmts import _ConcreteIter

            return _ConcreteIter(out)
        if kind == "set":
            return {x for x in out if _hashable(x)}
        return {k: v for k, v in out if _hashable(k)}

    def cond_term(self, c, fr):
        """A condition inside a symbolic comprehension as a term (no forking)."""
        return Opaque(self.subst_text(c, fr))

    def subst_text(self, e, fr):
        """Source text of e with local names replaced by their values' keys."""
        class R(ast.NodeTransformer):
            def visit_Name(s, n):
                f = fr
                while f is not None:
                    if n.id in f.locals:
                        v = f.locals[n.id].value
                        return ast.copy_location(ast.Name(id="⟦" + vkey(v) + "⟧", ctx=ast.Load()), n)
                    f = f.parent
                return n

        import copy as _c

        return ast.unparse(R().visit(_c.deepcopy(e)))


class _RefTuple(tuple):
    _isref = True


def _ref(v, r):
    return _RefTuple((v, r))


def _hashable(v) -> bool:
    try:
        hash(v)
        return True
    except TypeError:
        return False


def _is_valueish(v) -> bool:
    return True


def _lin(v, _d=0):
    """integer-linear reading of a value: (constant, {term key: (coefficient, term)}) or None"""
    if _d > 8:
        return None
    if isinstance(v, bool):
        return None
    if isinstance(v, int):
        return v, {}
    if isinstance(v, Op) and v.op in ("Add", "Sub") and len(v.operands) == 2:
        a, b = _lin(v.operands[0], _d + 1), _lin(v.operands[1], _d + 1)
        if a is None or b is None:
            return None
        sign = 1 if v.op == "Add" else -1
        atoms = {k: (c, t) for k, (c, t) in a[1].items()}
        for k, (c, t) in b[1].items():
            c0 = atoms.get(k, (0, t))[0]
            atoms[k] = (c0 + sign * c, t)
        return a[0] + sign * b[0], atoms
    if isinstance(v, (Sym, Attr, Sub)):
        return 0, {v.key(): (1, v)}
    return None


def _lin_combine(opname, l, r):
    """l (+|-) r over integer-linear terms, simplified only when something actually cancels or two constants fold (x - (x - 3) -> 3; (n - 3) - 4 -> n - 7);
    anything else (concatenations, graph unions, set differences) is left exactly as written."""
    L, R = _lin(l), _lin(r)
    if L is None or R is None:
        return NotImplemented
    sign = 1 if opname == "Add" else -1
    atoms = dict(L[1])
    cancelled = False
    for k, (c, t) in R[1].items():
        c0 = atoms.get(k, (0, t))[0]
        atoms[k] = (c0 + sign * c, t)
        if k in L[1]:
            cancelled = True
    const = L[0] + sign * R[0]
    folds = L[0] != 0 and R[0] != 0
    if not (cancelled or folds):
        return NotImplemented
    atoms = {k: v for k, v in atoms.items() if v[0] != 0}
    if not atoms:
        return const
    if any(abs(c) > 3 for c, _ in atoms.values()):
        return NotImplemented
    expr = None
    for k in sorted(atoms):
        c, t = atoms[k]
        for _ in range(max(c, 0)):
            expr = t if expr is None else Op("Add", expr, t)
    if const > 0:
        expr = const if expr is None else Op("Add", expr, const)
    elif const < 0 and expr is not None:
        expr = Op("Sub", expr, -const)
    elif const < 0:
        expr = const
    for k in sorted(atoms):
        c, t = atoms[k]
        for _ in range(max(-c, 0)):
            if expr is None:
                return NotImplemented
            expr = Op("Sub", expr, t)
    return expr if expr is not None else NotImplemented
