"""Path-sensitive abstract interpreter over function ASTs (never runs repo code).

It explores every path of a function (loops bounded, unknown conditions forked by
re-execution with a decision prefix), evaluates guards over a finite abstract domain
of representative values supplied by the rule, keeps unknown values as symbolic
terms (def-use / provenance) and records an effect trace per path: calls, stores,
returns, raises, yields, with-blocks, loop boundaries."""
from __future__ import annotations

import ast
import copy
from dataclasses import dataclass, field
from typing import Any, Callable, Optional

from .repo import AnalysisError, FuncInfo, Repo, walk_scope
from .terms import *  # noqa: F401,F403
from .terms import (App, Atom, Attr, BoundMethod, BuiltinRef, ClassRef, Closure, Elem, EnumVal, FuncRef,
                    ModRef, Obj, Sym, Term, vkey)


# ------------------------------------------------------------------ signals
class _Signal(Exception):
    pass


class _Return(_Signal):
    def __init__(self, value):
        self.value = value


class _Break(_Signal):
    pass


class _Continue(_Signal):
    pass


class _Raise(_Signal):
    def __init__(self, exc, node=None):
        self.exc = exc
        self.node = node


class _Trunc(_Signal):
    def __init__(self, why):
        self.why = why


UNBOUND = object()


@dataclass
class Effect:
    kind: str  # call store aug del return raise yield with_enter with_exit loop_iter loop_exit unbound
    node: ast.AST
    func: str  # qualified name of the function whose body contains the node
    depth: int
    ncond: int  # number of decisions taken before this effect on the path
    data: dict = field(default_factory=dict)
    seq: int = 0

    def __getattr__(self, k):
        try:
            return self.data[k]
        except KeyError:
            raise AttributeError(k)

    @property
    def lineno(self):
        return getattr(self.node, "lineno", 0)

    def brief(self) -> str:
        d = self.data
        if self.kind == "call":
            a = ", ".join([vkey(x) for x in d["args"]] + [f"{k}={vkey(v)}" for k, v in d["kwargs"].items()])
            return f"call {d['name']}({a})"
        if self.kind == "store":
            return f"store {d['target']} = {vkey(d['value'])}"
        if self.kind == "aug":
            return f"aug {d['target']} {d['op']}= {vkey(d['value'])}"
        if self.kind in ("return", "yield", "raise"):
            return f"{self.kind} {vkey(d.get('value'))}"
        return f"{self.kind} {d.get('target', d.get('ctx', ''))}"


@dataclass
class Decision:
    key: str
    value: bool
    node: Optional[ast.AST]
    forced: bool  # came from a fact, not from the oracle


@dataclass
class Path:
    effects: list[Effect]
    decisions: list[Decision]
    exit: tuple  # ('return', v) | ('raise', exc) | ('trunc', why)
    notes: list[str] = field(default_factory=list)
    heap: dict = field(default_factory=dict)

    def calls(self, pred: Callable[[Effect], bool] | None = None) -> list[Effect]:
        return [e for e in self.effects if e.kind == "call" and (pred is None or pred(e))]

    def of(self, kind: str) -> list[Effect]:
        return [e for e in self.effects if e.kind == kind]

    def cond_text(self, upto: int | None = None) -> str:
        ds = self.decisions if upto is None else self.decisions[:upto]
        return " & ".join(("" if d.value else "not ") + d.key for d in ds if not d.forced)

    @property
    def raised(self):
        return self.exit[1] if self.exit[0] == "raise" else None

    @property
    def returned(self):
        return self.exit[1] if self.exit[0] == "return" else UNBOUND


class Cell:
    __slots__ = ("value", "ref")

    def __init__(self, value, ref=None):
        self.value = value
        self.ref = ref


class Frame:
    def __init__(self, fi: FuncInfo, parent: "Frame | None", depth: int):
        self.fi = fi
        self.parent = parent  # lexical parent (closures)
        self.depth = depth
        self.locals: dict[str, Cell] = {}
        self.declared: set[str] = _local_names(fi)
        self.globals_decl: set[str] = _global_names(fi)
        self.exc_stack: list = []


def _local_names(fi: FuncInfo) -> set[str]:
    names = set(fi.params)
    node = fi.node
    if isinstance(node, ast.Lambda):
        return names
    for n in walk_scope(node):
        if isinstance(n, ast.Name) and isinstance(n.ctx, (ast.Store, ast.Del)):
            names.add(n.id)
        elif isinstance(n, (ast.FunctionDef, ast.AsyncFunctionDef, ast.ClassDef)):
            names.add(n.name)
        elif isinstance(n, ast.ExceptHandler) and n.name:
            names.add(n.name)
        elif isinstance(n, (ast.Import, ast.ImportFrom)):
            for a in n.names:
                names.add((a.asname or a.name).split(".")[0])
    # comprehension targets are their own scope in py3 (except walrus): remove those only stored there
    comp_only = set()
    for n in walk_scope(node):
        if isinstance(n, (ast.ListComp, ast.SetComp, ast.DictComp, ast.GeneratorExp)):
            for g in n.generators:
                for t in ast.walk(g.target):
                    if isinstance(t, ast.Name):
                        comp_only.add(t.id)
    stored_outside = set(fi.params)
    for n in _walk_no_comp(node):
        if isinstance(n, ast.Name) and isinstance(n.ctx, (ast.Store, ast.Del)):
            stored_outside.add(n.id)
        elif isinstance(n, (ast.FunctionDef, ast.AsyncFunctionDef, ast.ClassDef)):
            stored_outside.add(n.name)
        elif isinstance(n, ast.ExceptHandler) and n.name:
            stored_outside.add(n.name)
        elif isinstance(n, (ast.Import, ast.ImportFrom)):
            for a in n.names:
                stored_outside.add((a.asname or a.name).split(".")[0])
        elif isinstance(n, ast.NamedExpr) and isinstance(n.target, ast.Name):
            stored_outside.add(n.target.id)
    for n in walk_scope(node):
        if isinstance(n, ast.NamedExpr) and isinstance(n.target, ast.Name):
            stored_outside.add(n.target.id)
    return (names - comp_only) | stored_outside


def _walk_no_comp(fn):
    body = fn.body if isinstance(fn.body, list) else [fn.body]
    todo = list(body)
    while todo:
        n = todo.pop()
        yield n
        if isinstance(n, (ast.FunctionDef, ast.AsyncFunctionDef, ast.Lambda, ast.ClassDef)):
            continue
        if isinstance(n, (ast.ListComp, ast.SetComp, ast.DictComp, ast.GeneratorExp)):
            # the first iterable is evaluated in the enclosing scope
            todo.append(n.generators[0].iter)
            continue
        todo.extend(ast.iter_child_nodes(n))


def _global_names(fi: FuncInfo) -> set[str]:
    out = set()
    if isinstance(fi.node, ast.Lambda):
        return out
    for n in walk_scope(fi.node):
        if isinstance(n, (ast.Global, ast.Nonlocal)):
            out.update(n.names)
    return out


@dataclass
class Options:
    max_paths: int = 6000
    max_depth: int = 4
    max_iter: int = 1  # iterations explored for loops over symbolic iterables
    max_while: int = 2
    max_concrete_iter: int = 24
    max_steps: int = 20000
    inline: Any = None  # set of quals | callable(FuncInfo)->bool, in addition to the default policy
    inline_private: bool = True  # default policy: private helpers (_name) of the analysed function's own module are inlined
    opaque: Any = None  # set of quals never inlined
    raising: Any = None  # callable(effect-data dict)->bool : may this call raise?  (forks)
    type_facts: dict = field(default_factory=dict)  # term key -> set of class quals (known type)
    facts: dict = field(default_factory=dict)  # decision key -> bool (assumed)
    call_models: dict = field(default_factory=dict)  # qual or name -> callable(interp, args, kwargs, node)->value
    self_cls: Optional[str] = None
    record_unbound: bool = True
    havoc_on_call: bool = False
    root_module: str = ""
    # (modules, k, scope): integer constants > scope written in these modules (literals and module-level names) evaluate to k.  Used by
    # small-scope rules: a size threshold above the explored scope is lowered into it, so that the beyond-threshold behaviour is explored too.
    scale_ints: Any = None


from .evalx import EvalMixin  # noqa: E402
from .stmts import StmtMixin  # noqa: E402


class Run(EvalMixin, StmtMixin):
    """One execution along one decision prefix."""

    def __init__(self, repo: Repo, opts: Options, prefix: list[bool]):
        self.repo = repo
        self.opts = opts
        self.prefix = prefix
        self.trace: list[bool] = []  # oracle decisions only
        self.decisions: list[Decision] = []
        self.facts: dict[str, bool] = dict(opts.facts)
        self.tpos: dict[str, set[str]] = {k: set(v) for k, v in opts.type_facts.items()}
        self.tneg: dict[str, set[str]] = {}
        self.effects: list[Effect] = []
        self.heap: dict[str, Any] = {}
        self.notes: list[str] = []
        self.uid = 0
        self.steps = 0
        self.mutver: dict[str, int] = {}

    # -------------------------------------------------------------- decisions
    def decide(self, key: str, node=None) -> bool:
        if key in self.facts:
            v = self.facts[key]
            self.decisions.append(Decision(key, v, node, True))
            return v
        i = len(self.trace)
        v = self.prefix[i] if i < len(self.prefix) else True
        self.trace.append(v)
        self.facts[key] = v
        self.decisions.append(Decision(key, v, node, False))
        return v

    def effect(self, kind: str, node, fr: Frame, **data) -> Effect:
        e = Effect(kind, node, fr.fi.qual, fr.depth, len(self.decisions), data, len(self.effects))
        self.effects.append(e)
        return e

    def next_uid(self) -> int:
        self.uid += 1
        return self.uid

    def tick(self):
        self.steps += 1
        if self.steps > self.opts.max_steps:
            raise _Trunc("step bound")


class Interp:
    def __init__(self, repo: Repo, **kw):
        self.repo = repo
        self.opts = Options(**kw)

    def explore(self, qual: str | FuncInfo, env: dict | None = None, args: dict | None = None,
                closure_frame: Frame | None = None, closure_locals: dict | None = None, defaults: bool = False) -> list[Path]:
        """All paths of the function.  `env` presets heap access paths (e.g.
        'state.outputs': {...}); `args` binds parameters to values (default: Sym(param))."""
        fi = qual if isinstance(qual, FuncInfo) else self.repo.func(qual)
        self.opts.root_module = fi.module.name
        paths: list[Path] = []
        stack: list[list[bool]] = [[]]
        while stack:
            prefix = stack.pop()
            run = Run(self.repo, self.opts, prefix)
            memo: dict = {}
            env_c, args_c, cl_c = copy.deepcopy((env or {}, args or {}, closure_locals or {}), memo)
            for k, v in env_c.items():
                run.heap[k] = v
            # fields of `self` that the rule presets but that this tree computes from other fields (a stored attribute turned into a property with a
            # setter): the preset goes through the setter, and the value reported at the end of the path is what the getter returns then
            virtual = {}
            scls = fi.cls
            anc_ = fi.parent
            while scls is None and anc_ is not None:
                scls = anc_.cls
                anc_ = anc_.parent
            if scls is not None:
                for k in list(env_c):
                    if k.startswith("self.") and "." not in k[5:] and "[" not in k:
                        g_, s_ = _prop_defs(self.repo, scls.qual, k[5:])
                        if g_ is None:
                            continue
                        if s_ is None:
                            raise AnalysisError(f"{scls.name}.{k[5:]} is a read-only computed property in this tree: the model state of the rule (which presets it as a "
                                                f"stored field) does not apply")
                        virtual[k] = (g_, s_, run.heap.pop(k))
            cf = closure_frame
            if closure_locals is not None and fi.parent is not None:
                cf = Frame(fi.parent, None, 0)
                for k, v in cl_c.items():
                    cf.locals[k] = Cell(v, Sym(k) if not isinstance(v, Term) else v)
            fr = Frame(fi, cf, 0)
            for p in fi.params:
                if args and p in args:
                    fr.locals[p] = Cell(args_c[p], Sym(p))
                elif p in run.heap:
                    fr.locals[p] = Cell(run.heap[p], Sym(p))
                elif (defaults or _is_new_param(fi, p)) and (dflt := _default_expr(fi, p)) is not None:
                    # the parameter is left out by the caller being modelled: it takes its declared default
                    fr.locals[p] = Cell(run.eval_default(dflt, fi, cf), Sym(p))
                else:
                    fr.locals[p] = Cell(Sym(p), Sym(p))
            if fi.cls is not None and fi.params and fi.params[0] in ("self", "cls"):
                run.tpos.setdefault(fi.params[0], {fi.cls.qual})
            anc = fi.parent
            while anc is not None:
                if anc.cls is not None and anc.params and anc.params[0] == "self":
                    run.tpos.setdefault("self", {anc.cls.qual})
                    break
                anc = anc.parent
            try:
                for k, (g_, s_, val_) in virtual.items():
                    run.call_function(s_, [Sym("self"), val_], {}, s_.node, fr)
            except (_Return, _Raise, _Trunc) as e_:
                raise AnalysisError(f"cannot preset {list(virtual)} through the property setter: {type(e_).__name__}")
            try:
                run.bind_param_types(fr)
                v = run.exec_function_body(fr)
                ex = ("return", v)
            except _Return as r:
                ex = ("return", r.value)
            except _Raise as r:
                ex = ("raise", r.exc)
            except _Trunc as t:
                ex = ("trunc", t.why)
            except (_Break, _Continue):
                ex = ("trunc", "stray break/continue")
            for k, (g_, s_, val_) in virtual.items():
                try:
                    run.heap[k] = run.call_function(g_, [Sym("self")], {}, g_.node, fr)
                except (_Return, _Raise, _Trunc):
                    run.heap[k] = Sym(k)
            paths.append(Path(run.effects, run.decisions, ex, run.notes, run.heap))
            for i in range(len(prefix), len(run.trace)):
                if run.trace[i]:
                    stack.append(run.trace[:i] + [False])
            if len(paths) > self.opts.max_paths:
                raise AnalysisError(f"path bound {self.opts.max_paths} exceeded in {fi.qual}")
        return paths


def _prop_defs(repo, cls_qual, name):
    """(getter FuncInfo, setter FuncInfo or None) if `name` is a property of the class (or a base), else (None, None)"""
    import ast as _ast

    for q in repo.class_mro(cls_qual):
        ci = repo.classes.get(q)
        if ci is None:
            continue
        g = s_ = None
        for st in ci.node.body:
            if isinstance(st, _ast.FunctionDef) and st.name == name:
                decos = [_ast.unparse(d) for d in st.decorator_list]
                if "property" in decos or any(d.endswith(".getter") for d in decos):
                    g = FuncInfo(qual=f"{q}.{name}", node=st, module=ci.module, cls=ci)
                elif any(d.endswith(".setter") for d in decos):
                    s_ = FuncInfo(qual=f"{q}.{name}", node=st, module=ci.module, cls=ci)
        if g is not None:
            return g, s_
    return None, None


def _is_new_param(fi, p) -> bool:
    """A parameter that the pinned tree's version of this function did not have (sa/known_params.txt): no caller of the modelled world
    passes it, so an entry point explored by a rule sees its declared default (same stance as "newly extracted code is transparent")."""
    from .repo import KNOWN_PARAMS

    known = KNOWN_PARAMS.get(fi.qual)
    return known is not None and p not in known


def _default_expr(fi, p):
    a = fi.node.args
    pos = a.posonlyargs + a.args
    for i, x in enumerate(pos):
        di = i - (len(pos) - len(a.defaults))
        if x.arg == p and di >= 0:
            return a.defaults[di]
    for x, d in zip(a.kwonlyargs, a.kw_defaults):
        if x.arg == p and d is not None:
            return d
    return None


def module_globals(repo: Repo, modname: str, opts: dict | None = None, effects: list | None = None) -> dict:
    """Abstractly evaluates the top-level statements of a module (assignments, loops building tables) and returns the final
    values of its globals.  Import / def / class statements bind references only."""
    m = repo.module(modname)
    fn = ast.FunctionDef(name="<module>", args=ast.arguments(posonlyargs=[], args=[], kwonlyargs=[], kw_defaults=[], defaults=[]),
                         body=[st for st in m.tree.body if not isinstance(st, (ast.Import, ast.ImportFrom))], decorator_list=[], lineno=1)
    fi = FuncInfo(modname, fn, m, None, None)
    for q, f2 in repo.funcs.items():
        if f2.parent is None and f2.cls is None and f2.module is m:
            fi.nested[f2.name] = f2
    run = Run(repo, Options(**(opts or {})), [])
    run.opts.root_module = modname
    fr = Frame(fi, None, 0)
    fr.declared = set()
    out = {}
    for st in fn.body:
        try:
            if isinstance(st, ast.ClassDef):
                fr.locals[st.name] = Cell(ClassRef(f"{modname}.{st.name}"))
            elif isinstance(st, (ast.FunctionDef, ast.AsyncFunctionDef)):
                fr.locals[st.name] = Cell(FuncRef(repo.funcs[f"{modname}.{st.name}"]))
            else:
                run.exec_stmt(st, fr)
        except _Signal:
            break
        except AnalysisError:
            continue
    for k, c in fr.locals.items():
        out[k] = c.value
    if effects is not None:
        effects.extend(run.effects)
    return out
