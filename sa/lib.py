"""Rule-kind helpers shared by the per-property modules."""
from __future__ import annotations

import ast
from typing import Callable, Iterable

from .interp import Effect, Interp, Path
from .repo import AnalysisError, FuncInfo, Repo, walk_scope
from .terms import Term, vkey


def loc(fi: FuncInfo, node=None) -> str:
    return fi.loc(node)


def unparse(n) -> str:
    try:
        return ast.unparse(n)
    except Exception:
        return "<?>"


# ------------------------------------------------------------------- effects
def is_call(e: Effect, *, qual: str | None = None, method: str | None = None, field: str | None = None,
            name_endswith: str | None = None) -> bool:
    if e.kind != "call":
        return False
    d = e.data
    if qual is not None and d.get("qual") != qual:
        return False
    if method is not None and d.get("method") != method:
        return False
    if field is not None and not (d.get("field") or "").endswith(field):
        return False
    if name_endswith is not None and not d.get("name", "").endswith(name_endswith):
        return False
    return True


def is_store(e: Effect, *, field: str | None = None, attr: str | None = None) -> bool:
    if e.kind not in ("store", "aug"):
        return False
    d = e.data
    if field is not None and not (d.get("field") or "").endswith(field):
        return False
    if attr is not None and d.get("attr") != attr:
        return False
    return True


def any_effect(paths: Iterable[Path], pred: Callable[[Effect], bool]) -> bool:
    return any(pred(e) for p in paths for e in p.effects)


# ----------------------------------------------------------------------- GTT
def gtt(ctx, rule: str, fi: FuncInfo, ip: Interp, rows: list[dict], effect: Callable[[Effect], bool],
        spec: Callable[[dict], bool | None], mode: str = "exact", what: str = "", args_of=None,
        path_filter: Callable[[Path], bool] | None = None, construct: str | None = None) -> list[dict]:
    """Guard truth table.  rows: [{'name':…, 'env':{…}, 'args':{…}, **atoms}].  For each row the function is
    explored under that abstract valuation; `reachable` = the effect occurs on some path.  spec(row) -> True
    (must be reachable), False (must not), None (don't care).  mode: exact | allowed (only False rows checked)
    | required (only True rows checked)."""
    table = []
    ctx.analysed(fi.qual)
    site = loc(fi)
    for row in rows:
        paths = ip.explore(fi, env=row.get("env"), args=row.get("args"))
        ctx.evals(len(paths))
        hits = [e for p in paths if (path_filter is None or path_filter(p)) for e in p.effects if effect(e)]
        reachable = bool(hits)
        want = spec(row)
        atoms = {k: v for k, v in row.items() if k not in ("env", "args")}
        verdict = "ok"
        if want is not None and reachable != want:
            if (mode == "exact") or (mode == "allowed" and not want) or (mode == "required" and want):
                verdict = "VIOLATED"
        table.append({**{k: vkey(v) if not isinstance(v, (str, int, bool, type(None))) else v for k, v in atoms.items()},
                      "reachable": reachable, "spec": want, "verdict": verdict})
        if verdict == "VIOLATED":
            where = loc(fi, hits[0].node) if hits else site
            ctx.violation(rule, fi.qual, where, construct or what,
                          f"{what}: under {atoms} the effect is {'reachable' if reachable else 'unreachable'} "
                          f"but the property requires it to be {'reachable' if want else 'unreachable'}",
                          row=atoms, reachable=reachable, required=want)
        else:
            ctx.ok(rule, site, f"{what} | {atoms}", nontrivial=True,
                   sample={"rule": rule, "function": fi.qual, "valuation": {k: str(v) for k, v in atoms.items()},
                           "effect_reachable": reachable, "spec": want} if len(ctx.samples) < 6 else None)
    ctx.table(rule, table)
    return table


# ------------------------------------------------------------ syntactic scans
class Scan:
    """Whole-repo syntactic index: attribute stores / mutator calls by attribute name."""

    def __init__(self, repo: Repo):
        self.repo = repo
        self._owner: dict[int, FuncInfo] = {}
        for fi in repo.all_funcs():
            for n in walk_scope(fi.node):
                self._owner.setdefault(id(n), fi)

    def owner(self, node) -> FuncInfo | None:
        return self._owner.get(id(node))

    def attr_sites(self, attr: str, modules_prefix: tuple[str, ...] = ("cascade", "earthkit"), owner: str | None = None):
        """Yield (fi, node, kind, detail) for every write-ish use of `<expr>.attr`:
        kind in store / aug / del / mutcall(method) / substore / subdel / read.
        `owner` (qualified class name): `self.attr` inside a class that is not `owner` (or a subclass) is that class's own attribute of the
        same name, not the field in question — such sites are skipped; any other receiver is kept (its type is not known here)."""
        for fi, n, kind, det in self._attr_sites(attr, modules_prefix):
            if owner is not None:
                recv = None
                if kind in ("store", "del"):
                    recv = n.value
                elif kind == "aug":
                    recv = n.target.value
                elif kind == "mutcall":
                    recv = getattr(n.func.value, "value", None)
                else:
                    b = n.func.value if isinstance(n, ast.Call) else n
                    while isinstance(b, ast.Subscript):
                        b = b.value
                    recv = b.value if isinstance(b, ast.Attribute) else None
                if isinstance(recv, ast.Name) and recv.id == "self":
                    f2 = fi
                    while f2 is not None and f2.cls is None:
                        f2 = f2.parent
                    if f2 is not None and f2.cls is not None and owner not in self.repo.class_mro(f2.cls.qual):
                        continue
            yield fi, n, kind, det

    def _attr_sites(self, attr: str, modules_prefix: tuple[str, ...] = ("cascade", "earthkit")):
        from .calls import MUTATORS

        for fi in self.repo.all_funcs():
            if not fi.module.name.startswith(modules_prefix):
                continue
            # local aliases of the field (or of an element of it): `m = state.attr`, `row = state.attr[k]`, `row = m[k]` — a write through the
            # alias is a write of the field (hoisted lookups are a routine optimisation)
            aliases: set[str] = set()
            changed = True
            while changed:
                changed = False
                for n in walk_scope(fi.node):
                    if isinstance(n, ast.Assign) and len(n.targets) == 1 and isinstance(n.targets[0], ast.Name) and n.targets[0].id not in aliases:
                        v = n.value
                        while isinstance(v, ast.Subscript):
                            v = v.value
                        if (isinstance(v, ast.Attribute) and v.attr == attr and isinstance(n.value, (ast.Attribute, ast.Subscript))) \
                                or (isinstance(v, ast.Name) and v.id in aliases and isinstance(n.value, ast.Subscript)):
                            aliases.add(n.targets[0].id)
                            changed = True

            def alias_root(e):
                while isinstance(e, ast.Subscript):
                    e = e.value
                return isinstance(e, ast.Name) and e.id in aliases
            for n in walk_scope(fi.node):
                if aliases and isinstance(n, ast.Call) and isinstance(n.func, ast.Attribute) and n.func.attr in MUTATORS and alias_root(n.func.value):
                    yield fi, n, ("mutcall" if isinstance(n.func.value, ast.Name) else "submutcall"), n.func.attr
                    continue
                if aliases and isinstance(n, ast.Subscript) and isinstance(n.ctx, (ast.Store, ast.Del)) and alias_root(n):
                    yield fi, n, "substore" if isinstance(n.ctx, ast.Store) else "subdel", None
                    continue
                if isinstance(n, ast.Attribute) and n.attr == attr:
                    if isinstance(n.ctx, ast.Store):
                        yield fi, n, "store", None
                    elif isinstance(n.ctx, ast.Del):
                        yield fi, n, "del", None
                elif isinstance(n, ast.AugAssign) and isinstance(n.target, ast.Attribute) and n.target.attr == attr:
                    yield fi, n, "aug", type(n.op).__name__
                elif isinstance(n, ast.Call) and isinstance(n.func, ast.Attribute) and n.func.attr in MUTATORS:
                    b = n.func.value
                    if isinstance(b, ast.Attribute) and b.attr == attr:
                        yield fi, n, "mutcall", n.func.attr
                    elif isinstance(b, ast.Subscript) and _sub_root_attr(b) == attr:
                        yield fi, n, "submutcall", n.func.attr
                elif isinstance(n, ast.Subscript) and isinstance(n.ctx, (ast.Store, ast.Del)) and _sub_root_attr(n) == attr:
                    yield fi, n, "substore" if isinstance(n.ctx, ast.Store) else "subdel", None


def _sub_root_attr(n):
    while isinstance(n, ast.Subscript):
        n = n.value
    return n.attr if isinstance(n, ast.Attribute) else None


def calls_in(fi: FuncInfo, pred: Callable[[ast.Call], bool]) -> list[ast.Call]:
    return [n for n in walk_scope(fi.node) if isinstance(n, ast.Call) and pred(n)]


def callee_text(n: ast.Call) -> str:
    return unparse(n.func)


def enclosing_chain(fi: FuncInfo, target: ast.AST) -> list[ast.AST]:
    """Statement ancestors of target inside fi (outermost first)."""
    chain: list[ast.AST] = []

    def rec(node, acc):
        if node is target:
            chain.extend(acc)
            return True
        for c in ast.iter_child_nodes(node):
            if isinstance(c, (ast.FunctionDef, ast.AsyncFunctionDef, ast.Lambda, ast.ClassDef)) and c is not target:
                continue
            if rec(c, acc + [node]):
                return True
        return False

    rec(fi.node, [])
    return chain
