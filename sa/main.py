"""./check <Cxx> quick|thorough  — decide one property on /repo's current working tree."""
from __future__ import annotations

import importlib
import os
import sys
import traceback


def main(argv):
    if len(argv) < 2:
        print("usage: check <Cxx> quick|thorough | check explain <replay.json>")
        return 2
    if argv[1] == "explain":
        import json

        d = json.load(open(argv[2]))
        print(json.dumps(d, indent=1))
        return 0
    pid = argv[1]
    tier = os.environ.get("VERIF_TIER") or (argv[2] if len(argv) > 2 else "quick")
    if tier not in ("quick", "thorough"):
        tier = "quick"
    from .report import Ctx

    try:
        from .repo import AnalysisError, get_repo

        repo = get_repo()
        ctx = Ctx(pid, tier, repo)
    except Exception as e:  # cannot even load the tree
        print(f"ANALYSIS-ERROR property={pid} cannot load repository: {e}")
        return 2
    try:
        mod = importlib.import_module(f"sa.props.{pid}")
    except ModuleNotFoundError:
        print(f"ANALYSIS-ERROR property={pid} no rule module")
        return 2
    for rule in mod.RULES:
        rid = getattr(rule, "rid", rule.__name__)
        try:
            rule(ctx)
        except AnalysisError as e:
            ctx.undecided(rid, "-", str(e))
        except RecursionError:
            ctx.undecided(rid, "-", "recursion limit in analysis")
        except Exception as e:
            tb = traceback.format_exc().strip().splitlines()
            ctx.undecided(rid, "-", f"internal error {type(e).__name__}: {e} [{tb[-3].strip() if len(tb) > 2 else ''}]")
            if os.environ.get("VERIF_DEBUG"):
                traceback.print_exc()
    if tier == "thorough" and hasattr(mod, "THOROUGH"):
        for rule in mod.THOROUGH:
            rid = getattr(rule, "rid", rule.__name__)
            try:
                rule(ctx)
            except AnalysisError as e:
                ctx.undecided(rid, "-", str(e))
            except Exception as e:
                ctx.undecided(rid, "-", f"internal error {type(e).__name__}: {e}")
                if os.environ.get("VERIF_DEBUG"):
                    traceback.print_exc()
    if tier == "thorough" and not ctx.errors:
        try:
            from .sweep import sweep

            ctx.sweep = sweep(ctx, mod)
            from . import repo as repomod

            repomod.set_repo(repo)
        except Exception as e:
            ctx.note(f"sensitivity sweep not run: {type(e).__name__}: {e}")
            if os.environ.get("VERIF_DEBUG"):
                traceback.print_exc()
    return ctx.finish(getattr(mod, "META", {}))


if __name__ == "__main__":
    sys.setrecursionlimit(5000)
    try:
        rc = main(sys.argv)
    except Exception as e:
        print(f"ANALYSIS-ERROR property={sys.argv[1] if len(sys.argv) > 1 else '?'} {type(e).__name__}: {e}")
        rc = 2
    sys.stdout.flush()
    sys.exit(rc)
