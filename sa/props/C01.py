"""C01 — a distributed run returns what sequential evaluation would (delivery-chain and binding clauses)."""
from __future__ import annotations

from ..interp import Interp
from ..lib import is_call, loc
from ..terms import App, Atom, Obj, Sub, Term, mentions, vkey
from .common import ddict, ds, scan, st, worker
from .C03 import r_predicates
from .C04 import r3_r4_flush, r6_fetch_queue, r7_available_writers, _notify_state
from .C10 import r3_binding, r4_r6_outputs, r9_memory_lifecycle
from .C02 import r5_act, r8_publication_fanout

NOTIFY = "cascade.controller.notify"
BR = "cascade.executor.bridge.Bridge"
MEM = "cascade.executor.runner.memory"
META = {
    "explanation": "Static structural analysis of the delivery chain: loop/await predicates, fetch queued for every published requested "
                   "output and commanded from the publishing host, fetched payload stored under its own dataset id and decoded with its "
                   "own decoder, fetch/transmit command fields, argument binding in the runner, worker-side publish (bytes, length, "
                   "decoder from one serialisation; segment closed before the announcement) and read paths. "
                   "Not decided: equality of values, independence from placement and event order.",
    "assumptions": ["shared-memory client, serde and zmq are opaque"],
}


def r4_output_store(ctx):
    """C01.R4: State.outputs is written only by notify on a DatasetTransmitPayload: key = the payload's dataset id,
    value = des_output(payload bytes, _, the payload's own decoder)."""
    repo = ctx.repo
    n = 0
    for fi, node, kind, det in scan().attr_sites("outputs", ("cascade.controller", "cascade.scheduler"), owner="cascade.scheduler.core.State"):
        if kind in ("substore", "submutcall", "mutcall", "store", "aug", "subdel", "del"):
            n += 1
            from .common import helper_of as _helper_of
            if fi.qual != f"{NOTIFY}.notify" and not _helper_of(repo, fi.qual, {f"{NOTIFY}.notify"}):
                ctx.violation("C01.R4", fi.qual, loc(fi, node), "writer of State.outputs",
                              f"{fi.qual} writes State.outputs ({kind}); only the payload branch of notify may bind a requested output")
            else:
                ctx.ok("C01.R4", loc(fi, node), "State.outputs written in notify")
    ctx.floor("C01.R4.sites", n, 1)
    fi = repo.func(f"{NOTIFY}.notify")
    ctx.analysed(fi.qual)
    D, Dother = ds("D", "T"), ds("D2", "T2")
    hdr = Obj("cascade.executor.msg.DatasetTransmitPayloadHeader", {"ds": D, "deser_fun": "my.deser", "confirm_idx": 3, "confirm_address": "a"})
    ev = Obj("cascade.executor.msg.DatasetTransmitPayload", {"header": hdr, "value": b"BYTES"})
    env = _notify_state(Atom("T"), ds("D1", "P1"), ds("D9", "P9"), worker("H1"), {"state.outputs": {D: None, Dother: None}})
    paths = Interp(repo).explore(fi, env=env, args={"events": [ev]})
    ctx.evals(len(paths))
    for p in paths:
        if p.exit[0] != "return":
            ctx.violation("C01.R4", fi.qual, loc(fi), "payload event handled",
                          f"a fetched payload (DatasetTransmitPayload) makes notify end with {p.exit[0]} {vkey(p.exit[1])[:80]}: the requested output never reaches the caller")
            continue
        outs = p.heap["state.outputs"]
        v = outs.get(D)
        good = isinstance(v, App) and v.fname == "cascade.executor.serde.des_output" and len(v.args) == 3 and v.args[0] == b"BYTES" and v.args[2] == "my.deser"
        if not good or outs.get(Dother) is not None:
            ctx.violation("C01.R4", fi.qual, loc(fi), "fetched payload binding",
                          f"payload for D (decoder 'my.deser'): outputs afterwards = {vkey(outs)[:300]}; expected outputs[D] = "
                          f"des_output(payload bytes, _, 'my.deser') and nothing else changed")
        else:
            ctx.ok("C01.R4", loc(fi), "payload decoded with its own decoder and stored under its own dataset id")


def r5_commands(ctx):
    """C01.R5: fetch / transmit commands name the dataset, the source, the right reply address, carry a fresh index and
    are sent to the source host's data server."""
    repo = ctx.repo
    D = ds("D", "T")
    from .common import host_entry as he
    env = {"self.sender.hosts": {"data.H1": he(repo, "sock1", "addr-H1"), "data.H2": he(repo, "sock2", "addr-H2"), "H1": he(repo, "s", "m1"), "H2": he(repo, "s", "m2")},
           "self.mlistener.address": "ctrl-addr", "self.transmit_idx_counter": 5}
    for meth, args, want in (
        ("transmit", {"ds": D, "source": "H1", "target": "H2"}, {"source": "H1", "target": "H2", "daddress": "addr-H2", "ds": D, "idx": 5}),
        ("fetch", {"ds": D, "source": "H1"}, {"source": "H1", "target": "controller", "daddress": "ctrl-addr", "ds": D, "idx": 5}),
    ):
        fi = repo.func(f"{BR}.{meth}")
        ctx.analysed(fi.qual)
        paths = Interp(repo).explore(fi, env=env, args=args)
        ctx.evals(len(paths))
        for p in paths:
            sends = [e for e in p.effects if e.kind == "call" and e.data.get("method") == "send" or is_call(e, qual=f"{BR}._send")]
            cnt = p.heap.get("self.transmit_idx_counter")
            if p.exit[0] != "return" or len(sends) != 1:
                ctx.violation("C01.R5", fi.qual, loc(fi), f"{meth} command", f"{meth} does not send exactly one command: {[s.brief()[:120] for s in sends]} exit={p.exit[0]}")
                continue
            a = sends[0].data["args"]
            m = a[1] if len(a) > 1 else None
            fields = m.fields if isinstance(m, Obj) else {}
            if a[0] != "data.H1" or any(fields.get(k) != v for k, v in want.items()):
                ctx.violation("C01.R5", fi.qual, loc(fi, sends[0].node), f"{meth} command fields",
                              f"{meth}(D, source=H1{', target=H2' if meth == 'transmit' else ''}) sends {vkey(fields)} to {vkey(a[0])}; expected {vkey(want)} to 'data.H1'")
            elif cnt != 6:
                ctx.violation("C01.R5", fi.qual, loc(fi), f"{meth} index freshness", f"transmit_idx_counter after the command is {vkey(cnt)}, expected 6 (fresh index per command)")
            else:
                ctx.ok("C01.R5", loc(fi), f"{meth}: command fields, destination and fresh index")


def r7_memory(ctx):
    """C01.R7: Memory.handle publishes bytes, length and decoder from one ser_output call under ds2shmid(outputId), closes the
    segment before announcing DatasetPublished(ds=outputId); Memory.provide reads through the same key function and decoder."""
    repo = ctx.repo
    fi = repo.func(f"{MEM}.Memory.handle")
    ctx.analysed(fi.qual)
    paths = Interp(repo).explore(fi, env={"self.local": {}}, args={"isPublish": True})
    ctx.evals(len(paths))
    n = 0
    for p in paths:
        if p.exit[0] != "return":
            continue
        n += 1
        al = [e for e in p.effects if is_call(e, qual="cascade.shm.client.allocate")]
        cb = [e for e in p.effects if is_call(e, qual="cascade.executor.comms.callback")]
        cl = [e for e in p.effects if e.kind == "call" and e.data.get("method") == "close"]
        wr = [e for e in p.effects if e.kind == "store" and e.data.get("subscript") and "view" in e.data.get("target", "")]
        ser = [e for e in p.effects if is_call(e, qual="cascade.executor.serde.ser_output")]
        if len(al) != 1 or len(cb) != 1 or not cl or len(wr) != 1 or len(ser) != 1:
            ctx.violation("C01.R7", fi.qual, loc(fi), "publish sequence",
                          f"publishing path has allocate x{len(al)}, view-write x{len(wr)}, close x{len(cl)}, announce x{len(cb)}, ser_output x{len(ser)} (each expected once)")
            continue
        S = ser[0].data["result"]
        a = al[0].data["args"] + [al[0].data["kwargs"].get(k) for k in ("key", "l", "deser_fun") if k in al[0].data["kwargs"]]
        key_ok = any(isinstance(x, App) and x.fname == f"{MEM}.ds2shmid" and x.args and vkey(x.args[0]) == "outputId" for x in a)
        len_ok = any(isinstance(x, App) and x.fname == "len" and x.args and x.args[0] == Sub(S, 0) for x in a)
        des_ok = any(x == Sub(S, 1) for x in a)
        val_ok = wr[0].data["value"] == Sub(S, 0)
        order_ok = wr[0].seq < cl[0].seq < cb[0].seq and al[0].seq < wr[0].seq
        msg = cb[0].data["args"][1] if len(cb[0].data["args"]) > 1 else None
        ann_ok = isinstance(msg, Obj) and msg.cls.endswith("DatasetPublished") and vkey(msg.fields.get("ds")) == "outputId" and msg.fields.get("transmit_idx") is None \
            and vkey(msg.fields.get("origin")) == "self.worker"
        for ok_, what in ((key_ok, "segment key = ds2shmid(outputId)"), (len_ok, "allocated length = len(serialised bytes)"),
                          (des_ok, "decoder stored = the one returned with the bytes"), (val_ok, "bytes written = the serialised bytes"),
                          (order_ok, "allocate < write < close < announce"), (ann_ok, "announcement names outputId, this worker, no transmit index")):
            if ok_:
                ctx.ok("C01.R7", loc(fi), what)
            else:
                ctx.violation("C01.R7", fi.qual, loc(fi), what, f"Memory.handle publish path: violated — {what}")
    ctx.floor("C01.R7.publish_paths", n, 1)
    # non-publishing path: nothing goes to shm, nothing is announced
    paths = Interp(repo).explore(fi, env={"self.local": {}}, args={"isPublish": False})
    if any(is_call(e, qual="cascade.shm.client.allocate") or is_call(e, qual="cascade.executor.comms.callback") for p in paths for e in p.effects):
        ctx.violation("C01.R7", fi.qual, loc(fi), "non-published output", "an output that is not to be published is written to shm / announced")
    else:
        ctx.ok("C01.R7", loc(fi), "unpublished outputs stay local")
    # every path keeps the value locally under outputId
    fi2 = repo.func(f"{MEM}.Memory.provide")
    ctx.analysed(fi2.qual)
    paths = Interp(repo).explore(fi2, env={"self.local": {}, "self.bufs": {}})
    ctx.evals(len(paths))
    for p in paths:
        if p.exit[0] != "return":
            continue
        g = [e for e in p.effects if is_call(e, qual="cascade.shm.client.get")]
        d = [e for e in p.effects if is_call(e, qual="cascade.executor.serde.des_output")]
        good = len(g) == 1 and len(d) == 1 and any(isinstance(x, App) and x.fname == f"{MEM}.ds2shmid" and vkey(x.args[0]) == "inputId" for x in g[0].data["args"] + list(g[0].data["kwargs"].values()))
        if good:
            buf = g[0].data["result"]
            da = d[0].data["args"]
            good = len(da) == 3 and mentions(da[0], buf.key()) and vkey(da[1]) == "annotation" and mentions(da[2], buf.key()) and "deser_fun" in vkey(da[2])
        rv = p.exit[1]
        if not good or not (d and rv == d[0].data["result"]):
            ctx.violation("C01.R7", fi2.qual, loc(fi2), "read path",
                          f"Memory.provide (dataset not yet local) must return des_output(buffer.view(), annotation, buffer.deser_fun) of the buffer "
                          f"obtained with ds2shmid(inputId); got {vkey(rv)[:200]}")
        else:
            ctx.ok("C01.R7", loc(fi2), "read path: same key function, the buffer's own decoder, value returned")


def r8_events_returned(ctx):
    """C01.R8: Bridge.recv_events returns every received event (publications and fetched payloads) in order, and nothing else."""
    from ..evalx import AnyKeyDict
    repo = ctx.repo
    fi = repo.func(f"{BR}.recv_events")
    ctx.analysed(fi.qual)
    M = "cascade.executor.msg."
    pub = Obj(M + "DatasetPublished", {"origin": worker("H1"), "ds": ds("D", "T"), "transmit_idx": None}, name="PUB")
    hdr = Obj(M + "DatasetTransmitPayloadHeader", {"ds": ds("D", "T"), "deser_fun": "f", "confirm_idx": 1, "confirm_address": "a"})
    pay = Obj(M + "DatasetTransmitPayload", {"header": hdr, "value": b"x"}, name="PAY")
    ack = Obj(M + "Ack", {"idx": 1}, name="ACK")
    msgs = [pub, ack, pay]
    ip = Interp(repo, max_while=2, max_iter=0, call_models={
        "cascade.executor.comms.Listener.recv_messages": lambda run, a, k, n, f: list(msgs) if not getattr(run, "model_sent", False) and not setattr(run, "model_sent", True) else []})
    env = {"self.heartbeat_checker": AnyKeyDict(True, Obj("cascade.executor.comms.GraceWatcher", {}, name="gw"), "heartbeat_checker"), "self.sender.hosts": {}}
    paths = ip.explore(fi, env=env)
    ctx.evals(len(paths))
    for p in paths:
        got = [getattr(x, "name", vkey(x)) for x in p.exit[1]] if p.exit[0] == "return" and isinstance(p.exit[1], list) else None
        if got != ["PUB", "PAY"]:
            ctx.violation("C01.R8", fi.qual, loc(fi), "events returned",
                          f"messages received (DatasetPublished, Ack, DatasetTransmitPayload): recv_events yields {got if got is not None else p.exit[0]}; expected the two events in order "
                          f"(a dropped event means a task is never marked done / a requested output never arrives)")
        else:
            ctx.ok("C01.R8", loc(fi), "recv_events returns exactly the received events, in order")


def r2_fetch_on_publication(ctx):
    r6_fetch_queue(ctx)


from .sched import r_no_downgrade, r_transfer_source  # noqa: E402

RULES = [r_no_downgrade, r_transfer_source, r7_available_writers, r8_events_returned, r_predicates, r2_fetch_on_publication, r3_r4_flush, r4_output_store, r5_commands, r3_binding, r4_r6_outputs, r7_memory, r9_memory_lifecycle,
         r5_act, r8_publication_fanout]

from .common import lazy  # noqa: E402
RULES.append(lazy("sched", "r_assignment_outputs", "completion of a task is inferred from the publication of its last output: every output must be published"))
RULES.append(lazy("C03", "r6_loop_wiring", "every requested output is known to the scheduler and every event reaches notify"))
RULES.append(lazy("C02", "r6_worker_deferral", "a task sequence whose inputs have all arrived is run (else its outputs never exist and the run never returns)"))
RULES.append(lazy("C07", "r3_r5_recv_loop", "an unacknowledged transfer / fetch payload is re-sent after its grace period (else the dependent task or the requested output waits for ever)"))
RULES.append(lazy("C10", "r10_resolve_callable", "entrypoint tasks and custom serde functions are found by their dotted names"))
RULES.append(lazy("C03", "r8_initial_state_owned", "a run must not consume the caller's Preschedule: a second run of the same job with the same Preschedule delivers nothing if the first one emptied its consumer sets"))


def r10_serde_dispatch(ctx):
    """C01.R10: a registered custom encoder is applied to values of exactly the registered type.  The encoder pair is user code written
    for that type; applied to a value of another type — a subclass included — it may drop what the subclass adds, and the value the
    caller or a downstream task receives differs from the sequential one.  Everything else goes through the general-purpose pickler."""
    repo = ctx.repo
    fi = repo.func("cascade.executor.serde.ser_output")
    ctx.analysed(fi.qual)
    # a (base, subclass) pair of repository classes stands for the user's classes
    pair = None
    for q in sorted(repo.classes):
        ci = repo.classes[q]
        mro = repo.class_mro(q)
        if len(mro) > 1 and mro[1] in repo.classes and not repo.is_enum(mro[1]) and not ci.outer and len(repo.class_mro(mro[1])) == 1:
            pair = (mro[1], q)
            break
    if pair is None:
        ctx.undecided("C01.R10", loc(fi), "no class pair available to stand for a registered type and its subclass")
        return
    from ..terms import ClassRef, ModelFn
    base, sub = pair
    other = next(q for q in sorted(repo.classes) if q not in repo.class_mro(sub) and base not in repo.class_mro(q))
    n = 0
    # the registry is filled by the code's own register() (whatever it stores per type), with the resolver of dotted names modelled
    ser = ModelFn("user_ser", lambda run, a, k, nn, f: App("user_ser", a, uid=None))
    reg = repo.func("cascade.executor.serde.SerdeRegistry.register")
    ctx.analysed(reg.qual)
    rps = [p for p in Interp(repo, call_models={"cascade.low.func.resolve_callable": lambda run, a, k, nn, f: ser}).explore(
        reg, env={"cascade.executor.serde.SerdeRegistry.serde": {}}, args={"cls": ClassRef("cascade.executor.serde.SerdeRegistry"), "t": ClassRef(base), "ser": "user.ser", "des": "user.des"})
        if p.exit[0] == "return"]
    registry = rps[0].heap.get("cascade.executor.serde.SerdeRegistry.serde") if len(rps) == 1 else None
    if not isinstance(registry, dict) or len(registry) != 1:
        ctx.undecided("C01.R10", loc(reg), f"SerdeRegistry.register on the model type does not leave a one-entry registry: {vkey(registry)[:100]}")
        return
    for label, vcls, want_custom in (("the registered type itself", base, True), ("a subclass of the registered type", sub, False), ("an unrelated type", other, False)):
        v = Obj(vcls, {}, name="VALUE")
        env = {"cascade.executor.serde.SerdeRegistry.serde": registry}
        ps = Interp(repo).explore(fi, env=env, args={"v": v, "annotation": "Any"})
        ctx.evals(len(ps))
        for p in ps:
            n += 1
            rv = p.exit[1] if p.exit[0] == "return" else None
            custom = isinstance(rv, tuple) and len(rv) == 2 and rv[1] == "user.des" and isinstance(rv[0], App) and rv[0].fname == "user_ser"
            pickled = isinstance(rv, tuple) and len(rv) == 2 and rv[1] == "cloudpickle.loads" and isinstance(rv[0], App) and "dumps" in rv[0].fname and rv[0].args and getattr(rv[0].args[0], "name", None) == "VALUE"
            if want_custom and not custom:
                ctx.violation("C01.R10", fi.qual, loc(fi), "registered type uses its encoder", f"value of {label}: ser_output gives {vkey(rv)[:120]}; expected the registered pair")
            elif not want_custom and not pickled:
                ctx.violation("C01.R10", fi.qual, loc(fi), "custom encoder only for the registered type",
                              f"encoder registered for {base.rsplit('.', 1)[-1]}, value of {label} ({vcls.rsplit('.', 1)[-1]}): ser_output gives {vkey(rv)[:140]}; expected the "
                              f"general-purpose pickler — an encoder written for another type need not preserve this value (a subclass's extra state is lost and "
                              f"the downstream task computes on different data)")
            else:
                ctx.ok("C01.R10", loc(fi), f"ser_output | value of {label}")
    ctx.floor("C01.R10.cases", n, 3)


RULES.append(r10_serde_dispatch)
RULES.append(lazy("C04", "r8_undecodable_output", "a value that could not be decoded is not the value sequential evaluation gives"))
RULES.append(lazy("C16", "r1_projections", "the preschedule records every output of every task: the publish set of a task is taken from it, and completion is inferred from the publication of the task's last output"))
RULES.append(lazy("C04", "r1_purge_guard", "a requested output is not dropped before its value has reached the caller (else the pending fetch fails and the value is never delivered)"))
