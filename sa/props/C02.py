"""C02 — every task dispatched once, to a free suitable worker, after its inputs exist (structural clauses)."""
from __future__ import annotations

from ..interp import Interp
from ..lib import is_call, loc
from ..repo import AnalysisError
from ..terms import App, Atom, Elem, Obj, Sub, Term, mentions, subterms, vkey
from .common import ddict, ds, r_last_output_order, st, worker
from .sched import r_transfer_source

ASSIGN = "cascade.scheduler.assign"
NOTIFY = "cascade.controller.notify"
BR = "cascade.executor.bridge.Bridge"
META = {
    "explanation": "Static structural analysis of the dispatch chain by path-sensitive abstract interpretation: bookkeeping "
                   "paired with every yielded assignment, GPU/CPU list provenance, input-preparation decision table, "
                   "computable-tracker update, act() command emission, worker-side deferral until all inputs were announced, "
                   "re-idling only on task completion, publication fan-out in the executor, completion-order contract. "
                   "Not decided: exactly-once across scheduling rounds and event orders (needs a cross-round invariant).",
    "assumptions": ["loops over symbolic collections explored for 0..2 iterations", "model states are small concrete instances"],
}


def r1_pairing_after_yield(ctx):
    """C02.R1: each yielded assignment is followed, before the next yield or exit, by: task popped from
    component.computable, worker removed from state.idle_workers, state.computable -= 1, component.weight -= 1,
    and the worker taken out of the local candidate collection."""
    repo = ctx.repo
    fi = repo.func(f"{ASSIGN}._assignment_heuristic")
    ctx.analysed(fi.qual)
    ip = Interp(repo, max_iter=2, max_paths=20000)
    paths = ip.explore(fi)
    ctx.evals(len(paths))
    sites = {}
    for p in paths:
        ys = [e for e in p.effects if e.kind == "yield"]
        for i, y in enumerate(ys):
            v = y.data["value"]
            if not (isinstance(v, App) and v.fname == f"{ASSIGN}.build_assignment" and len(v.args) >= 2):
                ctx.undecided("C02.R1", loc(fi, y.node), f"yield of something that is not build_assignment(worker, task, state): {vkey(v)}")
                continue
            w, t = v.args[0], v.args[1]
            end = ys[i + 1].seq if i + 1 < len(ys) else 10 ** 9
            seg = [e for e in p.effects if y.seq < e.seq < end]
            if p.exit[0] == "trunc":
                continue
            need = {
                "task popped from component.computable": any(
                    is_call(e, field="ComponentSchedule.computable") and e.method in ("pop", "__delitem__") and e.data["args"][:1] == [t] for e in seg)
                    or any(e.kind == "del" and (e.data.get("field") or "").endswith("ComponentSchedule.computable") and e.data.get("index") == t for e in seg),
                "worker removed from state.idle_workers": any(
                    is_call(e, field="State.idle_workers") and e.method in ("remove", "discard") and e.data["args"][:1] == [w] for e in seg),
                "state.computable decremented": any(
                    e.kind == "aug" and (e.data.get("field") or "").endswith("State.computable") and e.data["op"] == "Sub" and e.data["value"] == 1 for e in seg),
                "component.weight decremented": any(
                    e.kind == "aug" and (e.data.get("field") or "").endswith("ComponentSchedule.weight") and e.data["op"] == "Sub" and e.data["value"] == 1 for e in seg),
                "worker excluded from the local candidates": any(
                    e.kind == "call" and e.data.get("method") in ("pop", "remove", "discard") and not e.data.get("field")
                    and _derives(e.data["args"], w) for e in seg),
            }
            key = y.lineno
            cur = sites.setdefault(key, {k: True for k in need})
            for k, ok_ in need.items():
                if not ok_:
                    cur[k] = False
                    ctx.violation("C02.R1", fi.qual, loc(fi, y.node), f"after yield: {k}",
                                  f"after yielding the assignment of {vkey(t)} to {vkey(w)} there is a path to the next yield/exit "
                                  f"on which this does not happen: {k} (path: {p.cond_text()[:300]})")
    for line, res in sites.items():
        for k, ok_ in res.items():
            if ok_:
                ctx.ok("C02.R1", f"{loc(fi).rsplit(':', 1)[0]}:{line}", f"after yield: {k}")
    ctx.floor("C02.R1.yields", len(sites), 2)


def _derives(args, w) -> bool:
    """the removal argument is the yielded worker itself, or the index coming from the same iteration element"""
    for a in args:
        if a == w:
            return True
        if isinstance(a, Term) and isinstance(w, Term):
            # workers.pop(idx) with (idx, worker) from the same enumerate element
            ea = [x for x in subterms(a) if isinstance(x, Elem)]
            ew = [x for x in subterms(w) if isinstance(x, Elem)]
            if ea and ew and ea[0] == ew[0]:
                return True
    return False


def r2_gpu_cpu_lists(ctx):
    """C02.R2: GPU tasks are only offered to GPU workers; a GPU worker joins the CPU pass only if it is still idle."""
    repo = ctx.repo
    fi = repo.func(f"{ASSIGN}.assign_within_component")
    ctx.analysed(fi.qual)
    TG, TC = Atom("TG"), Atom("TC")
    WG, WC = worker("H1", "w0"), worker("H1", "w1")
    for busy_after_gpu in (False, True):
        calls = []

        def model(run, args, kwargs, node, fr, _b=busy_after_gpu):
            calls.append((list(args[1]) if isinstance(args[1], list) else args[1], list(args[2]) if isinstance(args[2], list) else args[2],
                          set(run.heap["state.idle_workers"])))
            if len(calls) == 1 and _b:
                for x in list(run.heap["state.idle_workers"]):
                    if x.name == WG.name:
                        run.heap["state.idle_workers"].discard(x)
            return []
        job = Obj("cascade.low.core.JobInstance", {"tasks": {
            TG: Obj("cascade.low.core.TaskInstance", {"definition": Obj("cascade.low.core.TaskDefinition", {"needs_gpu": True})}),
            TC: Obj("cascade.low.core.TaskInstance", {"definition": Obj("cascade.low.core.TaskDefinition", {"needs_gpu": False})})}})
        envm = Obj("cascade.low.core.Environment", {"workers": {WG: Obj("cascade.low.core.Worker", {"gpu": 1, "cpu": 1}),
                                                                  WC: Obj("cascade.low.core.Worker", {"gpu": 0, "cpu": 1})}})
        comp = Obj("cascade.scheduler.core.ComponentSchedule", {"computable": {TG: 0, TC: 0}})
        env = {"state.components": [comp], "state.idle_workers": {WG, WC}}
        ip = Interp(repo, call_models={f"{ASSIGN}._assignment_heuristic": model})
        paths = ip.explore(fi, env=env, args={"workers": [WG, WC], "component_id": 0, "job": job, "env": envm})
        ctx.evals(len(paths))
        if len(paths) != 1 or len(calls) != 2:
            ctx.undecided("C02.R2", loc(fi), f"expected one path with two heuristic passes, got {len(paths)} paths / {len(calls)} passes")
            continue
        (t1, w1, _), (t2, w2, idle2) = calls
        names = lambda l: sorted(getattr(x, "name", vkey(x)) for x in l) if isinstance(l, list) else vkey(l)
        row = {"gpu_worker_busy_after_gpu_pass": busy_after_gpu}
        if names(t1) != ["TG"] or names(w1) != [WG.name]:
            ctx.violation("C02.R2", fi.qual, loc(fi), "gpu pass lists",
                          f"the first pass must offer GPU tasks to GPU workers only: tasks={names(t1)} workers={names(w1)}", row=row)
        elif names(t2) != ["TC"]:
            ctx.violation("C02.R2", fi.qual, loc(fi), "cpu pass tasks", f"second pass tasks {names(t2)} (expected the CPU task only)", row=row)
        else:
            exp = [WC.name] if busy_after_gpu else sorted([WC.name, WG.name])
            if names(w2) != exp:
                ctx.violation("C02.R2", fi.qual, loc(fi), "cpu pass workers",
                              f"second pass is offered workers {names(w2)}; with the GPU worker "
                              f"{'busy (just given a GPU task)' if busy_after_gpu else 'still idle'} it must be {exp} — "
                              f"a busy worker would be dispatched a second task", row=row)
            else:
                ctx.ok("C02.R2", loc(fi), f"pass lists correct | {row}")


def r4_consider_computable(ctx):
    """C02.R4: a task becomes computable exactly when the published dataset was its last missing input."""
    repo = ctx.repo
    fi = repo.func(f"{NOTIFY}.consider_computable")
    ctx.analysed(fi.qual)
    D = ds("D", "P")
    C1, C2, C3 = Atom("C1"), Atom("C2"), Atom("C3")
    comp = Obj("cascade.scheduler.core.ComponentSchedule", {
        "computable": {}, "is_computable_tracker": {C1: {D, ds("D9", "P9")}, C2: {D}, C3: {ds("D8", "P8")}},
        "worker2task_distance": {}, "core": Obj("cascade.scheduler.core.ComponentCore", {"depth": 3})})
    env = {"state.components": [comp], "state.ts2component": {D.fields["task"]: 0}, "state.purging_tracker": {D: {C1, C2}},
           "state.host2workers": {Atom("H1"): []}, "state.computable": 0}
    paths = Interp(repo).explore(fi, env=env, args={"dataset": D, "host": Atom("H1")})
    ctx.evals(len(paths))
    for p in paths:
        if p.exit[0] != "return":
            ctx.violation("C02.R4", fi.qual, loc(fi), "consider_computable completes",
                          f"publishing a dataset on a consistent model state makes consider_computable end with {p.exit[0]} {vkey(p.exit[1])[:60]} (controller bookkeeping crash)")
            continue
        c = p.heap["state.components"][0]
        comp_after = set(c.fields["computable"].keys())
        cnt = p.heap.get("state.computable")
        if comp_after != {C2} or cnt != 1:
            ctx.violation("C02.R4", fi.qual, loc(fi), "newly computable set",
                          f"publishing D (last input of C2, one of two inputs of C1, no input of C3) makes {sorted(map(vkey, comp_after))} "
                          f"computable with counter {vkey(cnt)}; expected exactly C2 and counter 1")
        elif D in c.fields["is_computable_tracker"].get(C1, set()):
            ctx.violation("C02.R4", fi.qual, loc(fi), "tracker update", "the published dataset stays in the missing-input set of C1")
        else:
            ctx.ok("C02.R4", loc(fi), "exactly the task whose last missing input arrived becomes computable; counter mirrors it")


def r5_act(ctx):
    """C02.R5: act() sends exactly one TaskSequence carrying the assignment's worker/tasks/outputs and one transmit
    command per input that lives on another host (none for inputs already on the worker's host)."""
    repo = ctx.repo
    fi = repo.func("cascade.controller.act.act")
    ctx.analysed(fi.qual)
    H1, H2 = Atom("H1"), Atom("H2")
    W = worker(H1)
    D1, D2, DO, T = ds("D1", "P1"), ds("D2", "P2"), ds("DO", "T"), Atom("T")
    from .common import model_elem
    AQ = "cascade.scheduler.core.Assignment"
    a = Obj(AQ, {"worker": W, "tasks": [T], "prep": [model_elem(repo, AQ, "prep", (D1, H1)), model_elem(repo, AQ, "prep", (D2, H2))], "outputs": {DO}})
    paths = Interp(repo).explore(fi, args={"assignment": a})
    ctx.evals(len(paths))
    for p in paths:
        if p.exit[0] != "return":
            ctx.violation("C02.R5", fi.qual, loc(fi), "act completes", f"act() ends with {p.exit[0]} {vkey(p.exit[1])[:60]} on a well-formed assignment")
            continue
        tx = [e.data["args"] for e in p.effects if is_call(e, qual=f"{BR}.transmit")]
        ts = [e.data["args"] for e in p.effects if is_call(e, qual=f"{BR}.task_sequence")]
        if [list(map(vkey, x)) for x in tx] != [[vkey(D2), vkey(H2), vkey(H1)]]:
            ctx.violation("C02.R5", fi.qual, loc(fi), "transmit commands",
                          f"inputs (D1 at the worker's host H1, D2 at H2): transmit commands issued = {[list(map(vkey, x)) for x in tx]}, "
                          f"expected exactly one: (D2, H2 -> H1)")
        else:
            ctx.ok("C02.R5", loc(fi), "one transmit per remote input, none for local inputs, source/target as assigned")
        good = len(ts) == 1 and isinstance(ts[0][0], Obj) and ts[0][0].cls.endswith("TaskSequence") and \
            ts[0][0].fields.get("worker").name == W.name and ts[0][0].fields.get("tasks") == [T] and ts[0][0].fields.get("publish") == {DO}
        if not good:
            ctx.violation("C02.R5", fi.qual, loc(fi), "task sequence command",
                          f"expected exactly one task_sequence(TaskSequence(worker, tasks, publish=outputs)), got {[list(map(vkey, x)) for x in ts]}")
        else:
            ctx.ok("C02.R5", loc(fi), "exactly one TaskSequence with the assignment's worker, tasks and outputs")


def r6_worker_deferral(ctx):
    """C02.R6: the worker runs a task sequence only once every dataset it consumes (and does not produce itself)
    has been announced on its host."""
    repo = ctx.repo
    fi = repo.func("cascade.executor.runner.entrypoint.entrypoint")
    ctx.analysed(fi.qual)
    T = Atom("T")
    D1, D2 = ds("D1", "P1"), ds("D2", "P2")
    W = worker("H1")
    M = "cascade.executor.msg."
    ts = Obj(M + "TaskSequence", {"worker": W, "tasks": [T], "publish": set()})
    pub = lambda d: Obj(M + "DatasetPublished", {"origin": W, "ds": d, "transmit_idx": None})
    stop = Obj(M + "WorkerShutdown", {})
    rc = Obj("cascade.executor.runner.entrypoint.RunnerContext", {
        "workerId": W, "callback": "addr", "param_source": {T: {0: D1, "kw": D2}},
        "job": Obj("cascade.low.core.JobInstance", {"serdes": {}, "tasks": {T: Obj("cascade.low.core.TaskInstance", {
            "definition": Obj("cascade.low.core.TaskDefinition", {"output_schema": {"0": "Any"}})})}})})
    scripts = {
        "sequence first, inputs announced later": ([ts, pub(D1), pub(D2), stop], 3),
        "inputs announced first": ([pub(D1), pub(D2), ts, stop], 3),
        "one input never announced": ([ts, pub(D1), stop], None),
        "unrelated dataset announced": ([ts, pub(ds("DX", "PX")), pub(D1), stop], None),
    }
    for name, (msgs, expect_after) in scripts.items():
        marks = []

        def model(run, args, kwargs, node, fr, _m=msgs):
            marks.append(len(run.effects))
            if len(marks) > len(_m):
                return stop
            return _m[len(marks) - 1]
        ip = Interp(repo, call_models={"cascade.executor.serde.des_message": model}, max_while=len(msgs) + 1)
        paths = ip.explore(fi, args={"runnerContext": rc})
        ctx.evals(len(paths))
        if len(paths) != 1:
            ctx.undecided("C02.R6", loc(fi), f"worker loop not deterministic on script '{name}': {len(paths)} paths ({paths[0].cond_text()[:200]})")
            continue
        p = paths[0]
        ex = [e for e in p.effects if is_call(e, qual="cascade.executor.runner.entrypoint.execute_sequence")]
        if expect_after is None:
            if ex:
                ctx.violation("C02.R6", fi.qual, loc(fi, ex[0].node), "execute before inputs arrived",
                              f"script '{name}': the task sequence is executed although a consumed dataset was never announced")
            else:
                ctx.ok("C02.R6", loc(fi), f"script '{name}': sequence not executed")
        else:
            if len(ex) != 1:
                ctx.violation("C02.R6", fi.qual, loc(fi), "execute exactly once",
                              f"script '{name}': execute_sequence called {len(ex)} times, expected once")
                continue
            n_before = sum(1 for m in marks if m <= ex[0].seq)
            if n_before != expect_after:
                ctx.violation("C02.R6", fi.qual, loc(fi, ex[0].node), "execute at the wrong moment",
                              f"script '{name}': executed after message #{n_before}, expected after message #{expect_after} "
                              f"(all consumed datasets announced and the sequence received)")
            elif ex[0].data["args"][0].name != ts.name:
                ctx.violation("C02.R6", fi.qual, loc(fi, ex[0].node), "execute the deferred sequence", "another sequence object is executed")
            else:
                ctx.ok("C02.R6", loc(fi, ex[0].node), f"script '{name}': executed once, after message #{expect_after}")
    ctx.floor("C02.R6.scripts", len(scripts), 4)
    # a dataset that arrived while a sequence was waiting for it stays known: a later sequence consuming it starts at once
    T2 = Atom("T2")
    ts2 = Obj(M + "TaskSequence", {"worker": W, "tasks": [T2], "publish": set()}, name="TS2")
    tdef = Obj("cascade.low.core.TaskInstance", {"definition": Obj("cascade.low.core.TaskDefinition", {"output_schema": {"0": "Any"}})})
    rc2 = Obj("cascade.executor.runner.entrypoint.RunnerContext", {
        "workerId": W, "callback": "addr", "param_source": {T: {0: D1, "kw": D2}, T2: {0: D1}},
        "job": Obj("cascade.low.core.JobInstance", {"serdes": {}, "tasks": {T: tdef, T2: tdef}})})
    for name, msgs, want in (("second consumer of a dataset that arrived while the first was waiting", [ts, pub(D1), pub(D2), ts2, stop], [3, 4]),
                             ("second consumer of a dataset announced before any sequence", [pub(D1), pub(D2), ts, ts2, stop], [3, 4])):
        marks = []

        def model2(run, args, kwargs, node, fr, _m=msgs):
            marks.append(len(run.effects))
            return _m[len(marks) - 1] if len(marks) <= len(_m) else stop
        paths = Interp(repo, call_models={"cascade.executor.serde.des_message": model2}, max_while=len(msgs) + 1).explore(fi, args={"runnerContext": rc2})
        ctx.evals(len(paths))
        if len(paths) != 1:
            ctx.undecided("C02.R6", loc(fi), f"worker loop not deterministic on script '{name}': {len(paths)} paths")
            continue
        ex = [e for e in paths[0].effects if is_call(e, qual="cascade.executor.runner.entrypoint.execute_sequence")]
        when = [sum(1 for m_ in marks if m_ <= e.seq) for e in ex]
        if when != want or paths[0].exit[0] != "return":
            ctx.violation("C02.R6", fi.qual, loc(fi), "a later consumer of an arrived dataset runs",
                          f"script '{name}': sequences executed after messages {when} (loop ends {paths[0].exit[0]}); expected {want} — the second sequence needs only D1, "
                          f"which this worker has already received, and no further announcement of D1 will ever come")
        else:
            ctx.ok("C02.R6", loc(fi), f"script '{name}': both sequences executed, the second at once")


def r7_reidle(ctx):
    """C02.R7: a worker becomes idle again, and the ongoing/remaining counters drop, only when the last output of its
    task was published by the worker itself (not on a transfer confirmation) and nothing else is ongoing on it."""
    from .C04 import _event, _notify_state

    repo = ctx.repo
    fi = repo.func(f"{NOTIFY}.notify")
    ctx.analysed(fi.qual)
    T, T2 = Atom("T"), Atom("T2")
    W = worker("H1")
    for tx in (None, 7):
        for last in (True, False):
            for ongoing in ({T}, {T, T2}):
                used = []
                ip = Interp(repo, call_models={f"{NOTIFY}.is_last_output_of": lambda *a, _l=last: (used.append(1), _l)[1]},
                            inline={f"{NOTIFY}.consider_purge"})
                env = _notify_state(T, ds("D1", "P1"), ds("D2", "P2"), W,
                                    {"state.ongoing": ddict(set, {W: set(ongoing)}), "state.ongoing_total": 5, "state.remaining": 5})
                paths = ip.explore(fi, env=env, args={"events": [_event(tx, W, ds("DS", T))]})
                ctx.evals(len(paths))
                atoms = {"transmit_idx": tx, "is_last_output": last, "other_task_ongoing": len(ongoing) > 1}
                complete = tx is None and last
                for p in paths:
                    if p.exit[0] != "return":
                        ctx.violation("C02.R7", fi.qual, loc(fi), "notify completes on a legal event",
                                      f"under {atoms} (a legal publication event on a consistent state) notify ends with {p.exit[0]} {vkey(p.exit[1])[:80]}", row=atoms)
                        continue
                    idle = any(getattr(x, "name", "") == W.name for x in p.heap["state.idle_workers"])
                    tot, rem = p.heap["state.ongoing_total"], p.heap["state.remaining"]
                    want_idle = complete and len(ongoing) == 1
                    want_cnt = 4 if complete else 5
                    if idle != want_idle:
                        ctx.violation("C02.R7", fi.qual, loc(fi), "worker re-idled",
                                      f"under {atoms} the worker is {'marked idle' if idle else 'left busy'}; it must be "
                                      f"{'idle' if want_idle else 'busy'} (a busy worker would be given another task / an idle one never used)", row=atoms)
                    elif tot != want_cnt or rem != want_cnt:
                        ctx.violation("C02.R7", fi.qual, loc(fi), "ongoing/remaining counters",
                                      f"under {atoms}: ongoing_total={vkey(tot)} remaining={vkey(rem)}, expected {want_cnt}", row=atoms)
                    else:
                        ctx.ok("C02.R7", loc(fi), f"re-idle / counters | {atoms}")
                if not used and tx is None:
                    ctx.undecided("C02.R7", loc(fi), "is_last_output_of not consulted: completion guard undecidable")


def r8_publication_fanout(ctx):
    """C02.R8: a DatasetPublished reaching the executor is forwarded to every worker of the host (so a deferred
    sequence is released) and to the controller."""
    repo = ctx.repo
    fi = repo.func("cascade.executor.executor.Executor.recv_loop")
    ctx.analysed(fi.qual)
    W1, W2 = worker("H1", "w0"), worker("H1", "w1")
    m = Obj("cascade.executor.msg.DatasetPublished", {"origin": W1, "ds": ds("D", "T"), "transmit_idx": None})
    sent = []
    ip = Interp(repo, call_models={"cascade.executor.comms.Listener.recv_messages": lambda run, a, k, n, f: [m] if not getattr(run, 'model_sent', False) and not setattr(run, 'model_sent', True) else []},
                max_while=1, inline={"cascade.executor.runner.entrypoint.worker_address"})
    env = {"self.workers": {W1: Obj("P", {"exitcode": None}), W2: Obj("P", {"exitcode": None})}, "self.terminating": False,
           "self.datasets": set()}
    paths = ip.explore(fi, env=env)
    ctx.evals(len(paths))
    okp = 0
    for p in paths:
        cbs = [e for e in p.effects if is_call(e, qual="cascade.executor.comms.callback") and len(e.data["args"]) > 1 and e.data["args"][1] is not None
               and getattr(e.data["args"][1], "name", None) == m.name]
        tc = [e for e in p.effects if is_call(e, qual="cascade.executor.executor.Executor.to_controller") and getattr(e.data["args"][0], "name", None) == m.name]
        targets = {vkey(e.data["args"][0]) for e in cbs}
        if len(cbs) < 2 or len(targets) < 2:
            ctx.violation("C02.R8", fi.qual, loc(fi), "publication forwarded to every worker",
                          f"a DatasetPublished is forwarded to {len(targets)} of the host's 2 workers ({sorted(targets)})")
        elif not tc:
            ctx.violation("C02.R8", fi.qual, loc(fi), "publication forwarded to controller", "a DatasetPublished is not forwarded to the controller")
        else:
            okp += 1
            ctx.ok("C02.R8", loc(fi), "publication forwarded to both workers and the controller")
    ctx.floor("C02.R8.paths", okp + len(ctx.violations), 1)


from .sched import r_no_downgrade  # noqa: E402

RULES = [r_no_downgrade, r1_pairing_after_yield, r2_gpu_cpu_lists, r_transfer_source, r4_consider_computable, r5_act, r6_worker_deferral,
         r7_reidle, r8_publication_fanout, r_last_output_order]


def r9_executor_routing(ctx):
    """C02.R9: the executor hands a TaskSequence to the addressed worker (and refuses it when that worker process is gone), remembers
    published datasets, forwards a purge of a known dataset to every worker and its data server, and answers ExecutorShutdown with
    ExecutorExit + terminate."""
    repo = ctx.repo
    fi = repo.func("cascade.executor.executor.Executor.recv_loop")
    ctx.analysed(fi.qual)
    M = "cascade.executor.msg."
    W1, W2 = worker("H1", "w0"), worker("H1", "w1")
    D = ds("D", "T")

    def explore(msg, workers, datasets=()):
        ip = Interp(repo, max_while=1, inline={"cascade.executor.runner.entrypoint.worker_address"}, call_models={
            "cascade.executor.comms.Listener.recv_messages": lambda run, a, k, n, f: [msg] if not getattr(run, "model_sent", False) and not setattr(run, "model_sent", True) else []})
        env = {"self.workers": workers, "self.terminating": False, "self.datasets": set(datasets), "self.daddress": "my-daddr", "self.host": "H1"}
        return ip.explore(fi, env=env)

    alive = lambda: {W1: Obj("P", {"exitcode": None}, name="p1"), W2: Obj("P", {"exitcode": None}, name="p2")}
    wa = repo.func("cascade.executor.runner.entrypoint.worker_address")
    addr = {}
    for w_ in (W1, W2):
        ps_ = [q for q in Interp(repo).explore(wa, args={"workerId": w_}) if q.exit[0] == "return"]
        addr[w_.name] = vkey(ps_[0].exit[1]) if len(ps_) == 1 else None
    if None in addr.values() or addr[W1.name] == addr[W2.name]:
        ctx.violation("C02.R9", wa.qual, loc(wa), "worker addresses distinct", f"worker_address maps the two workers of a host to {addr}: each worker needs its own address")
        return
    ts = Obj(M + "TaskSequence", {"worker": W2, "tasks": ["t"], "publish": set()}, name="TS")
    for state, workers in (("alive", alive()), ("exited", {W1: Obj("P", {"exitcode": None}, name="p1"), W2: Obj("P", {"exitcode": 1}, name="p2")}),
                           ("never started", {W1: Obj("P", {"exitcode": None}, name="p1"), W2: None})):
        paths = explore(ts, workers)
        ctx.evals(len(paths))
        for p in paths:
            fw = [e for e in p.effects if is_call(e, qual="cascade.executor.comms.callback") and len(e.data["args"]) > 1 and getattr(e.data["args"][1], "name", "") == "TS"]
            rep = [e for e in p.effects if is_call(e, qual="cascade.executor.executor.Executor.to_controller") and isinstance(e.data["args"][0], Obj)
                   and e.data["args"][0].cls == M + "ExecutorFailure"]
            if state == "alive":
                good = len(fw) == 1 and vkey(fw[0].data["args"][0]) == addr[W2.name] and not rep
                exp = "handed to exactly that worker"
            else:
                good = not fw and len(rep) == 1
                exp = "refused and reported as ExecutorFailure (the task would never run and the run would wait for ever)"
            if not good:
                ctx.violation("C02.R9", fi.qual, loc(fi), f"task sequence for a worker that is {state}",
                              f"a TaskSequence addressed to worker w1 ({state}): forwarded to {[vkey(e.data['args'][0])[:50] for e in fw]}, failure reports {len(rep)}; expected: {exp}")
            else:
                ctx.ok("C02.R9", loc(fi), f"TaskSequence for a worker that is {state}: {exp}")
    pub = Obj(M + "DatasetPublished", {"origin": W1, "ds": D, "transmit_idx": None}, name="PUB")
    for p in explore(pub, alive()):
        if D not in p.heap["self.datasets"]:
            ctx.violation("C02.R9", fi.qual, loc(fi), "published dataset remembered", "a published dataset is not recorded by the executor: a later purge of it is ignored as 'unexpected'")
        else:
            ctx.ok("C02.R9", loc(fi), "published dataset remembered by the executor")
    pg = Obj(M + "DatasetPurge", {"ds": D}, name="PG")
    for known in (True, False):
        for p in explore(pg, alive(), [D] if known else []):
            cbs = [vkey(e.data["args"][0]) for e in p.effects if is_call(e, qual="cascade.executor.comms.callback") and len(e.data["args"]) > 1 and getattr(e.data["args"][1], "name", "") == "PG"]
            want = 3 if known else 0
            if len(cbs) != want or (known and ("'my-daddr'" not in cbs or D in p.heap["self.datasets"])):
                ctx.violation("C02.R9", fi.qual, loc(fi), f"purge of a {'known' if known else 'unknown'} dataset",
                              f"DatasetPurge of a {'known' if known else 'unknown'} dataset is forwarded to {cbs} (expected {'both workers and the data server, and the dataset forgotten' if known else 'nobody'})")
            else:
                ctx.ok("C02.R9", loc(fi), f"purge of a {'known' if known else 'unknown'} dataset: forwarded to {want} recipients")
    sd = Obj(M + "ExecutorShutdown", {}, name="SD")
    for p in explore(sd, alive()):
        ex = [e for e in p.effects if is_call(e, qual="cascade.executor.executor.Executor.to_controller") and isinstance(e.data["args"][0], Obj) and e.data["args"][0].cls == M + "ExecutorExit"]
        tm = [e for e in p.effects if is_call(e, qual="cascade.executor.executor.Executor.terminate")]
        if len(ex) != 1 or not tm or tm[0].seq < ex[0].seq:
            ctx.violation("C02.R9", fi.qual, loc(fi), "shutdown command", f"ExecutorShutdown: ExecutorExit reports {len(ex)}, terminate calls {len(tm)} (expected ExecutorExit then terminate)")
        else:
            ctx.ok("C02.R9", loc(fi), "ExecutorShutdown -> ExecutorExit reported, then terminate")


RULES.append(r9_executor_routing)

def r_store_before_announce(ctx):
    """a dataset is announced on a host only once it is stored there (rule C07.R2, imported lazily)"""
    from .C07 import r2_store_payload

    r2_store_payload(ctx)


RULES.append(r_store_before_announce)


def r_message_dedup(ctx):
    """a TaskSequence re-sent by the acknowledged-send layer reaches the worker once: listener duplicate detection (rules C06.R4/R5/R7, lazy import)"""
    from .C06 import r4_r5_listener, r3_retry_and_ack, r7b_acked_container_never_forgets

    r4_r5_listener(ctx)
    r3_retry_and_ack(ctx)
    r7b_acked_container_never_forgets(ctx)


RULES.append(r_message_dedup)


def r10_one_round_exactly_once(ctx):
    """C02.R10: within one call of the assignment heuristic (concrete model components, both phases): no task and no worker appears in
    two assignments, every assigned task leaves the computable set, unassigned tasks stay, the idle set loses exactly the assigned
    workers, counters drop by the number of assignments, and the function completes."""
    repo = ctx.repo
    fi = repo.func(f"{ASSIGN}._assignment_heuristic")
    ctx.analysed(fi.qual)
    from .common import model_coll
    T1, T2 = Atom("T1"), Atom("T2")
    W1, W2 = worker("H1", "w0"), worker("H1", "w1")
    CS = "cascade.scheduler.core.ComponentSchedule"
    cases = [
        ("one task, two workers, none at optimum distance (greedy phase only)", [T1], [W1, W2], {W1: {T1: 5}, W2: {T1: 5}}, 1),
        ("two tasks, one worker at optimum distance for the first", [T1, T2], [W1], {W1: {T1: 0, T2: 5}}, 1),
        ("two tasks, two workers, greedy phase for both", [T1, T2], [W1, W2], {W1: {T1: 5, T2: 5}, W2: {T1: 5, T2: 5}}, 2),
        ("first task optimal at w0, second only greedy", [T1, T2], [W1, W2], {W1: {T1: 0, T2: 5}, W2: {T1: 5, T2: 5}}, 2),
        ("both tasks optimal at the same worker", [T1, T2], [W1, W2], {W1: {T1: 0, T2: 0}, W2: {T1: 5, T2: 5}}, 2),
    ]
    for label, tasks, workers, dist, want_n in cases:
        comp = Obj(CS, {"computable": {t: 0 for t in tasks}, "worker2task_distance": {w: dict(d) for w, d in dist.items()},
                        "worker2task_values": model_coll(repo, CS, "worker2task_values", list(tasks)), "weight": len(tasks),
                        "core": Obj("cascade.scheduler.core.ComponentCore", {"value": {T1: 1, T2: 2}})}, name="comp")
        env = {"state.components": [comp], "state.idle_workers": set(workers), "state.computable": len(tasks),
               "state.worker2task_overhead": {w: {T1: 1, T2: 2} for w in workers}}
        # entered through assign_within_component (CPU-only tasks and workers: its GPU pass is empty, its CPU pass is the heuristic on all of them), so
        # that the helper's own signature — component id or component object, extra options — is the code's business
        ent = repo.func(f"{ASSIGN}.assign_within_component")
        job = Obj("cascade.low.core.JobInstance", {"tasks": {t: Obj("cascade.low.core.TaskInstance", {"definition": Obj("cascade.low.core.TaskDefinition", {"needs_gpu": False})})
                                                             for t in (T1, T2)}}, name="JOB")
        envm = Obj("cascade.low.core.Environment", {"workers": {w: Obj("cascade.low.core.Worker", {"cpu": 1, "gpu": 0, "memory_mb": 1}) for w in workers}}, name="ENV")
        ip = Interp(repo, call_models={"cascade.scheduler.assign.build_assignment": lambda run, a, k, n, f: ("ASSIGN", a[0], a[1])}, inline={fi.qual})
        paths = ip.explore(ent, env=env, args={"workers": list(workers), "component_id": 0, "job": job, "env": envm})
        ctx.evals(len(paths))
        row = {"case": label}
        if len(paths) != 1:
            ctx.undecided("C02.R10", loc(fi), f"{label}: {len(paths)} paths on a concrete model ({[(d.key) for p in paths[:2] for d in p.decisions[:3]]})")
            continue
        p = paths[0]
        from ..stmts import _ConcreteIter as _CI
        if p.exit[0] == "return" and isinstance(p.exit[1], _CI):
            ys = list(p.exit[1].items)
        else:
            ys = [e.data.get("value") for e in p.effects if e.kind == "yield"]
        ys = [y for y in ys if isinstance(y, tuple) and len(y) == 3 and y[0] == "ASSIGN"]
        ws, ts = [y[1].name for y in ys], [y[2].name for y in ys]
        c2 = p.heap["state.components"][0]
        left = sorted(t.name for t in c2.fields["computable"])
        idle = sorted(w.name for w in p.heap["state.idle_workers"])
        exp_left = sorted(t.name for t in tasks if t.name not in ts)
        exp_idle = sorted(w.name for w in workers if w.name not in ws)
        problems = []
        if p.exit[0] != "return":
            problems.append(f"the heuristic ends with {p.exit[0]} {vkey(p.exit[1])[:60]} (after yielding {list(zip(ws, ts))})")
        if len(set(ws)) != len(ws) or len(set(ts)) != len(ts):
            problems.append(f"assignments {list(zip(ws, ts))}: a {'worker' if len(set(ws)) != len(ws) else 'task'} appears twice")
        if len(ys) != want_n:
            problems.append(f"{len(ys)} assignment(s) {list(zip(ws, ts))}, expected {want_n}")
        if not problems and (left != exp_left or idle != exp_idle or p.heap["state.computable"] != len(tasks) - len(ys) or c2.fields["weight"] != len(tasks) - len(ys)):
            problems.append(f"after {list(zip(ws, ts))}: computable tasks {left} (expected {exp_left}), idle workers {idle} (expected {exp_idle}), "
                            f"state.computable {vkey(p.heap['state.computable'])}, component.weight {vkey(c2.fields['weight'])} (expected {len(tasks) - len(ys)})")
        if problems:
            ctx.violation("C02.R10", fi.qual, loc(fi), f"exactly once within a round: {label}", f"{label}: " + "; ".join(problems), row=row)
        else:
            ctx.ok("C02.R10", loc(fi), f"one round | {label} -> {list(zip(ws, ts))}")


RULES.append(r10_one_round_exactly_once)

from .common import lazy  # noqa: E402
RULES.append(lazy("sched", "r_assignment_outputs", "completion of a task is inferred from the publication of its last output: every output must be published"))
RULES.append(lazy("C03", "r6_loop_wiring", "the assignment generator is run to exhaustion, so the bookkeeping of every dispatched assignment is done before the next round"))


def r12_one_transfer_per_host(ctx):
    """C02.R12 / C04: two consumers of a remote dataset assigned in one round to two workers of the same host command ONE transfer:
    the second assignment sees the host already `preparing` the dataset (build_assignment records that itself) and plans a local load —
    a second transfer would still be unanswered when the source is purged after the first arrival."""
    repo = ctx.repo
    fi = repo.func(f"{ASSIGN}._assignment_heuristic")
    ctx.analysed(fi.qual)
    ctx.analysed(f"{ASSIGN}.build_assignment")
    from .common import model_coll, st
    T1, T2 = Atom("T1"), Atom("T2")
    H1, H2 = Atom("H1"), Atom("H2")
    W1, W2 = worker(H1, "w0"), worker(H1, "w1")
    D = ds("D", "P")
    CS = "cascade.scheduler.core.ComponentSchedule"
    comp = Obj(CS, {"computable": {T1: 0, T2: 0}, "worker2task_distance": {W1: {T1: 5, T2: 5}, W2: {T1: 5, T2: 5}},
                    "worker2task_values": model_coll(repo, CS, "worker2task_values", [T1, T2]), "weight": 2,
                    "core": Obj("cascade.scheduler.core.ComponentCore", {"value": {T1: 1, T2: 2}})}, name="comp")
    env = {"state.components": [comp], "state.idle_workers": {W1, W2}, "state.computable": 2,
           "state.worker2task_overhead": {W1: {T1: 1, T2: 2}, W2: {T1: 1, T2: 2}},
           "state.edge_i": {T1: {D}, T2: {D}}, "state.task_o": {T1: set(), T2: set()}, "state.edge_o": {}, "state.outputs": {},
           "state.worker2ds": ddict(dict, {W1: {}, W2: {}}), "state.host2ds": ddict(dict, {H1: {}, H2: {D: st("available")}}),
           "state.ds2host": ddict(dict, {D: {H2: st("available")}})}
    # entered through assign_within_component with CPU-only tasks and workers (see R10)
    ent = repo.func(f"{ASSIGN}.assign_within_component")
    job = Obj("cascade.low.core.JobInstance", {"tasks": {t: Obj("cascade.low.core.TaskInstance", {"definition": Obj("cascade.low.core.TaskDefinition", {"needs_gpu": False})})
                                                         for t in (T1, T2)}}, name="JOB")
    envm = Obj("cascade.low.core.Environment", {"workers": {w: Obj("cascade.low.core.Worker", {"cpu": 1, "gpu": 0, "memory_mb": 1}) for w in (W1, W2)}}, name="ENV")
    ip = Interp(repo, inline={f"{ASSIGN}.build_assignment", fi.qual})
    paths = ip.explore(ent, env=env, args={"workers": [W1, W2], "component_id": 0, "job": job, "env": envm})
    ctx.evals(len(paths))
    if len(paths) != 1 or paths[0].exit[0] != "return":
        ctx.undecided("C02.R12", loc(fi), f"two consumers / two workers of one host: {[(p.exit[0], vkey(p.exit[1])[:60]) for p in paths][:3]}")
        return
    from ..stmts import _ConcreteIter as _CI
    ys = list(paths[0].exit[1].items) if isinstance(paths[0].exit[1], _CI) else [e.data.get("value") for e in paths[0].effects if e.kind == "yield"]
    preps = [list(y.fields.get("prep", y.kwargs.get("prep", []))) for y in ys if isinstance(y, Obj)]
    srcs = [[getattr(x[1], "name", vkey(x[1])) for x in pr] for pr in preps]
    remote = sum(1 for pr in srcs for h in pr if h == "H2")
    if len(preps) != 2 or remote != 1 or any(len(pr) != 1 for pr in srcs):
        ctx.violation("C02.R12", fi.qual, loc(fi), "one transfer per dataset and host in a round",
                      f"tasks T1, T2 both consume D (available at H2 only) and are assigned to the two workers of H1 in one round: input preparations {srcs}; expected one "
                      f"transfer from H2 and one local load at H1 — two transfers of the same dataset to one host leave one of them unanswered when the source is purged")
    else:
        ctx.ok("C02.R12", loc(fi), f"one round, two consumers on one remote host: preparations {srcs}")


RULES.append(r12_one_transfer_per_host)
