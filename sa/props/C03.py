"""C03 — a feasible job completes: no deadlock / livelock / bookkeeping crash (structural clauses)."""
from __future__ import annotations

import ast

from ..interp import Interp
from ..lib import is_call, loc
from ..repo import walk_scope
from ..terms import Atom, Obj, vkey
from .common import callers_of, ddict, ds, scan, st, worker
from .sched import r_no_downgrade
from .C02 import r1_pairing_after_yield, r2_gpu_cpu_lists, r4_consider_computable, r7_reidle, r10_one_round_exactly_once

IMPL = "cascade.controller.impl"
CORE = "cascade.scheduler.core"
API = "cascade.scheduler.api"
BR = "cascade.executor.bridge.Bridge"
META = {
    "explanation": "Static structural analysis of the controller loop and scheduler bookkeeping: shutdown post-dominates the loop "
                   "on normal and exceptional exits, the controller waits only when something is outstanding (evaluated after the "
                   "flush), loop/await predicates as truth tables, counters paired with the collections they mirror, mirror maps "
                   "written together, host migration only to components with remaining weight, a holder's `available` record "
                   "never downgraded, no busy worker offered a second task. Later rules: histories over the real functions (publish -> plan -> flush commands the queued fetch; precompute -> notify for a task reading one dataset twice), the assignment generator is neither left early nor wrapped in a truncating adaptor, initial state is a private copy of the preschedule. Not decided: termination on every fair schedule, "
                   "absence of KeyError over migration histories.",
    "assumptions": ["scheduler helpers are modelled as opaque calls where stated; loops bounded"],
}
PRED = {f"{CORE}.has_computable", f"{CORE}.has_awaitable"}


def r1_shutdown_postdominates(ctx):
    """C03.R1 / C05.R8: once the loop is entered, bridge.shutdown() is reached on every exit — normal return and an
    exception raised by any scheduler / bridge call inside the loop."""
    repo = ctx.repo
    fi = repo.func(f"{IMPL}.run")
    ctx.analysed(fi.qual)
    risky = ("assign", "act", "plan", "flush_queues", "recv_events", "notify")
    ip = Interp(repo, inline=PRED, max_while=1,
                raising=lambda d: d["name"].rsplit(".", 1)[-1] in risky and not d["name"].startswith("cascade.low.tracing"))
    paths = ip.explore(fi)
    ctx.evals(len(paths))
    n_exc = 0
    for p in paths:
        entered = any(e.kind in ("loop_iter", "loop_exit") and isinstance(e.node, ast.While) for e in p.effects)
        if not entered:
            continue
        sh = [e for e in p.effects if is_call(e, qual=f"{BR}.shutdown")]
        src = [e for e in p.effects if e.kind == "raise" and e.data.get("from_call")]
        if src:
            n_exc += 1
            if p.exit[0] != "raise":
                ctx.violation("C03.R1", fi.qual, loc(fi), "controller failure propagates",
                              f"an exception raised by {src[0].data['from_call'].rsplit('.', 1)[-1]} inside the controller loop is swallowed: run() returns normally, "
                              f"so a failed run looks like a successful one")
                return
        if not sh:
            ctx.violation("C03.R1", fi.qual, loc(fi), "shutdown on every exit",
                          f"there is a path through the controller loop that ends ({p.exit[0]}) without bridge.shutdown(): {p.cond_text()[:300]}")
            return
    ctx.ok("C03.R1", loc(fi), f"bridge.shutdown() reached on all {len(paths)} explored exits ({n_exc} exceptional)")
    ctx.floor("C03.R1.exceptional_paths", n_exc, 3)


def r2_wait_only_when_awaitable(ctx):
    """C03.R2: the controller blocks in recv_events only if, after flushing the queues, a task is ongoing or a requested
    output is still missing; and it does wait in that case (else it would spin)."""
    repo = ctx.repo
    fi = repo.func(f"{IMPL}.run")
    D = ds("D", "T")
    states = {"nothing outstanding": (0, {D: "V"}), "task ongoing": (1, {D: "V"}), "output pending": (0, {D: None}), "no outputs": (0, {})}
    for before_name, before in states.items():
        for after_name, after in states.items():
            def flush_model(run, args, kwargs, node, fr, _a=after):
                run.heap["state.ongoing_total"], run.heap["state.outputs"] = _a[0], dict(_a[1])
                return args[1]
            st0 = Obj(f"{CORE}.State", {}, name="state0")
            ip = Interp(repo, inline=PRED, max_while=1, call_models={
                "cascade.scheduler.api.initialize": lambda run, a, k, n, f: __import__("sa.terms", fromlist=["Sym"]).Sym("state"),
                "cascade.scheduler.api.assign": lambda run, a, k, n, f: [],
                "cascade.controller.act.flush_queues": flush_model})
            env = {"state.computable": 1, "state.ongoing_total": before[0], "state.outputs": dict(before[1])}
            paths = ip.explore(fi, env=env)
            ctx.evals(len(paths))
            want = after[0] > 0 or None in after[1].values()
            for p in paths:
                if p.exit[0] == "raise":
                    continue
                waited = any(is_call(e, qual=f"{BR}.recv_events") for e in p.effects)
                atoms = {"before_flush": before_name, "after_flush": after_name}
                if waited != want:
                    ctx.violation("C03.R2", fi.qual, loc(fi), "wait guard",
                                  f"{atoms}: the controller {'waits for events' if waited else 'does not wait'}; with the state after the flush "
                                  f"it must {'wait' if want else 'not wait (nothing is outstanding: it would block for ever)'}", row=atoms)
                else:
                    ctx.ok("C03.R2", loc(fi), f"wait guard | {atoms} -> waits={waited}")


def r_predicates(ctx):
    """C01.R1 / C03: has_computable ≡ computable > 0; has_awaitable ≡ ongoing_total > 0 or a requested output has no value;
    the loop continues iff one of them holds."""
    repo = ctx.repo
    D, D2 = ds("D", "T"), ds("D2", "T2")
    rid = f"{ctx.pid}.PRED"
    ha = repo.func(f"{CORE}.has_awaitable")
    hc = repo.func(f"{CORE}.has_computable")
    ctx.analysed(ha.qual)
    ctx.analysed(hc.qual)
    ip = Interp(repo)
    for tot in (0, 2):
        for outs in ({}, {D: None}, {D: "V"}, {D: "V", D2: None}, {D: 0}):
            paths = ip.explore(ha, env={"state.ongoing_total": tot, "state.outputs": dict(outs)})
            ctx.evals(len(paths))
            want = tot > 0 or any(v is None for v in outs.values())
            got = [p.exit[1] for p in paths]
            if len(got) != 1 or bool(got[0]) != want or not isinstance(got[0], bool):
                ctx.violation(rid, ha.qual, loc(ha), "has_awaitable table",
                              f"ongoing_total={tot}, outputs={vkey(outs)}: has_awaitable = {vkey(got)}, must be {want}")
            else:
                ctx.ok(rid, loc(ha), f"has_awaitable | ongoing_total={tot} outputs={vkey(outs)} -> {want}")
    for c in (0, 1, 3):
        paths = ip.explore(hc, env={"state.computable": c})
        got = [p.exit[1] for p in paths]
        if got != [c > 0]:
            ctx.violation(rid, hc.qual, loc(hc), "has_computable table", f"computable={c}: has_computable = {vkey(got)}, must be {c > 0}")
        else:
            ctx.ok(rid, loc(hc), f"has_computable | computable={c} -> {c > 0}")
    # loop test of run
    fi = repo.func(f"{IMPL}.run")
    for c in (0, 1):
        for tot in (0, 1):
            for outs in ({D: "V"}, {D: None}):
                ip2 = Interp(repo, inline=PRED, max_while=1, call_models={
                    "cascade.scheduler.api.initialize": lambda run, a, k, n, f: __import__("sa.terms", fromlist=["Sym"]).Sym("state"),
                    "cascade.scheduler.api.assign": lambda run, a, k, n, f: []})
                paths = ip2.explore(fi, env={"state.computable": c, "state.ongoing_total": tot, "state.outputs": dict(outs)})
                ctx.evals(len(paths))
                want = c > 0 or tot > 0 or None in outs.values()
                entered = {any(e.kind == "loop_iter" and e.func == fi.qual and isinstance(e.node, ast.While) for e in p.effects) for p in paths}
                if entered != {want}:
                    ctx.violation(rid, fi.qual, loc(fi), "controller loop condition",
                                  f"computable={c} ongoing_total={tot} outputs={vkey(outs)}: loop entered={sorted(entered)}, must be {want}")
                else:
                    ctx.ok(rid, loc(fi), f"loop condition | computable={c} ongoing={tot} outputs={vkey(outs)} -> {want}")


def r3_counter_sites(ctx):
    """C03.R3: every += / -= on State.computable, ongoing_total, remaining and ComponentSchedule.weight sits in a function
    whose pairing with the mirrored collection is decided by a model-state rule (C02.R1, C02.R4, C02.R7, plan)."""
    covered = {"cascade.scheduler.assign._assignment_heuristic", "cascade.controller.notify.consider_computable",
               "cascade.controller.notify.notify", f"{API}.plan"}
    n = 0
    for attr in ("computable", "ongoing_total", "remaining", "weight"):
        for fi, node, kind, det in scan().attr_sites(attr, ("cascade",)):
            if kind != "aug" or not fi.module.name.startswith(("cascade.scheduler", "cascade.controller")):
                continue
            n += 1
            helper_of = None
            if fi.qual not in covered:
                from .common import helper_of as _helper_of
                if _helper_of(ctx.repo, fi.qual, covered):
                    helper_of = "a covered function"
            if fi.qual in covered or helper_of:
                ctx.ok("C03.R3", loc(fi, node), f"counter update {attr} {det} in a function with a pairing rule" + (f" (private helper of {helper_of})" if helper_of else ""))
            else:
                ctx.undecided("C03.R3", loc(fi, node), f"new counter update site {attr} in {fi.qual}: no pairing rule covers it")
    ctx.floor("C03.R3.sites", n, 8)
    # plan: ongoing[worker].add(task) <-> ongoing_total += 1, double add is an error
    repo = ctx.repo
    fi = repo.func(f"{API}.plan")
    ctx.analysed(fi.qual)
    W, T = worker("H1"), Atom("T")
    a = Obj(f"{CORE}.Assignment", {"worker": W, "tasks": [T], "prep": [], "outputs": set()})
    for already in (False, True):
        env = {"state.ongoing": ddict(set, {W: {T} if already else set()}), "state.ongoing_total": 1 if already else 0,
               "state.worker2ts": ddict(dict), "state.ts2worker": ddict(dict)}
        paths = Interp(repo).explore(fi, env=env, args={"assignments": [a]})
        ctx.evals(len(paths))
        for p in paths:
            if already:
                if p.exit[0] != "raise":
                    ctx.violation("C03.R3", fi.qual, loc(fi), "double add", "planning a task already ongoing on the worker is not rejected")
                else:
                    ctx.ok("C03.R3", loc(fi), "double add of an ongoing task is an error")
            else:
                og = p.heap["state.ongoing"]
                tot = p.heap["state.ongoing_total"]
                has = any(T in v for v in og.values())
                if p.exit[0] != "return" or not has or tot != 1:
                    ctx.violation("C03.R3", fi.qual, loc(fi), "ongoing pairing",
                                  f"after planning one task: in ongoing={has}, ongoing_total={vkey(tot)} (expected True, 1)")
                else:
                    ctx.ok("C03.R3", loc(fi), "plan: ongoing[worker] gains the task and ongoing_total is incremented once")


MIRRORS = [("host2ds", "ds2host"), ("worker2ds", "ds2worker"), ("ts2worker", "worker2ts")]


def r4_mirror_maps(ctx):
    """C03.R4: a function that writes one of a pair of mirror maps writes the other too."""
    written = {}
    for a, b in MIRRORS:
        for attr in (a, b):
            for fi, node, kind, det in scan().attr_sites(attr, ("cascade.scheduler", "cascade.controller")):
                written.setdefault(fi.qual, {}).setdefault(attr, (fi, node))
    # a helper that is not part of the confirmed baseline (extracted by a later change) is judged together with its callers:
    # its writes count as theirs (transitively), and it is not judged on its own while it has callers
    from ..repo import KNOWN_FUNCS
    folded = set()
    for _ in range(4):
        for q in [q for q in written if q not in KNOWN_FUNCS and q not in folded]:
            cs = [cfi for cfi, _n in callers_of(ctx.repo, q) if cfi.qual != q]
            if not cs:
                continue
            folded.add(q)
            for cfi in cs:
                for attr, site in written[q].items():
                    written.setdefault(cfi.qual, {}).setdefault(attr, site)
    n = 0
    for q, attrs in written.items():
        if q in folded:
            continue
        for a, b in MIRRORS:
            if (a in attrs) != (b in attrs):
                have, miss = (a, b) if a in attrs else (b, a)
                fi, node = attrs[have]
                ctx.violation("C03.R4", q, loc(fi, node), f"mirror {have}/{miss}",
                              f"{q} updates {have} but not its mirror {miss}: the two views of the same relation diverge")
            elif a in attrs:
                n += 1
                ctx.ok("C03.R4", loc(*attrs[a]), f"{a} and {b} updated together in {q.rsplit('.', 1)[-1]}")
    ctx.floor("C03.R4.pairs", n, 7)


def r5_migration(ctx):
    """C03.R5: idle hosts without a component (or whose component is exhausted) migrate to a component with remaining
    weight; hosts whose component still has work stay; with no weight left nothing is indexed."""
    repo = ctx.repo
    fi = repo.func(f"{API}.assign")
    ctx.analysed(fi.qual)
    H1, H2, H3 = Atom("H1"), Atom("H2"), Atom("H3")
    W1, W2, W3 = worker(H1), worker(H2), worker(H3)
    comp = lambda w: Obj(f"{CORE}.ComponentSchedule", {"weight": w})
    cases = {
        "two components, one exhausted": ([comp(0), comp(2)], {H1: 0, H2: None, H3: 1}, {"H1": 1, "H2": 1}),
        "all exhausted": ([comp(0), comp(0)], {H1: 0, H2: None, H3: 1}, {}),
        "two live components": ([comp(3), comp(2), comp(0)], {H1: 2, H2: None, H3: 0}, {"H1": {0, 1}, "H2": {0, 1}}),
    }
    for name, (comps, h2c, expect) in cases.items():
        migs = []

        def mig(run, args, kwargs, node, fr):
            migs.append((vkey(args[0]).strip("`"), args[1]))
            return args[2]
        awc = []

        def awc_model(run, a, k, n, f):
            awc.append((sorted(getattr(w, "name", vkey(w)) for w in a[1]) if isinstance(a[1], list) else vkey(a[1]), a[2]))
            return []
        ip = Interp(repo, call_models={"cascade.scheduler.assign.migrate_to_component": mig,
                                       "cascade.scheduler.assign.assign_within_component": awc_model})
        env = {"state.components": comps, "state.host2component": dict(h2c), "state.idle_workers": {W1, W2, W3}}
        paths = ip.explore(fi, env=env)
        ctx.evals(len(paths))
        if len(paths) != 1 or paths[0].exit[0] != "return":
            ctx.violation("C03.R5", fi.qual, loc(fi), f"migration: {name}",
                          f"scheduler.assign does not complete on the model state '{name}': {[(p.exit[0], vkey(p.exit[1])) for p in paths][:3]}")
            continue
        got = dict(migs)
        good = set(got) == set(expect) and all((got[h] in e) if isinstance(e, set) else got[h] == e for h, e in expect.items())
        if good and isinstance(next(iter(expect.values()), None), set):
            good = len(set(got.values())) == 2  # round robin over the live components
        live = {vkey(h).strip("`"): c for h, c in h2c.items() if c is not None and comps[c].fields["weight"] > 0}
        step1 = [(ws, c) for ws, c in awc if any(f"W_`{h}`_w0" in ws for h in live)]
        if good and sorted((ws[0], c) for ws, c in step1 if isinstance(ws, list)) != sorted((f"W_`{h}`_w0", c) for h, c in live.items()):
            ctx.violation("C03.R5", fi.qual, loc(fi), f"assignment within live components: {name}",
                          f"model '{name}': idle workers of hosts whose component still has work {live} must be offered to assign_within_component for that component; observed calls {awc}")
            continue
        if not good:
            ctx.violation("C03.R5", fi.qual, loc(fi), f"migration: {name}",
                          f"model '{name}': hosts migrated {got}, expected {expect} (only hosts without live component move, only to components with weight > 0)")
        else:
            ctx.ok("C03.R5", loc(fi), f"migration | {name} -> {got}")


RULES = [r1_shutdown_postdominates, r2_wait_only_when_awaitable, r_predicates, r3_counter_sites, r4_mirror_maps, r5_migration,
         r_no_downgrade, r2_gpu_cpu_lists, r1_pairing_after_yield, r4_consider_computable, r7_reidle]


def r6_loop_wiring(ctx):
    """C03.R6: one round of the controller loop wires its phases together: every assignment produced by assign() is acted upon (in order)
    and handed to plan(); the queues are flushed; the events returned by recv_events are the ones given to notify."""
    repo = ctx.repo
    fi = repo.func(f"{IMPL}.run")
    ctx.analysed(fi.qual)
    from ..terms import Sym
    A1, A2 = Atom("A1"), Atom("A2")
    EV = [Atom("E1"), Atom("E2")]
    D = ds("D", "T")
    models = {
        "cascade.scheduler.api.initialize": lambda run, a, k, n, f: Sym("state"),
        "cascade.scheduler.api.assign": lambda run, a, k, n, f: [A1, A2],
        f"{BR}.recv_events": lambda run, a, k, n, f: list(EV),
        f"{BR}.get_environment": lambda run, a, k, n, f: Sym("ENV"),
    }
    ip = Interp(repo, inline=PRED, max_while=1, call_models=models)
    paths = ip.explore(fi, env={"state.computable": 1, "state.ongoing_total": 1, "state.outputs": {D: None}})
    ctx.evals(len(paths))
    n = 0
    for p in paths:
        if p.exit[0] == "raise":
            continue
        n += 1
        calls = [(e.data["qual"], e.data["args"]) for e in p.effects if e.kind == "call" and e.data.get("qual")]
        acts = [a for q, a in calls if q == "cascade.controller.act.act"]
        plans = [a for q, a in calls if q == "cascade.scheduler.api.plan"]
        fl = [a for q, a in calls if q == "cascade.controller.act.flush_queues"]
        nt = [a for q, a in calls if q == "cascade.controller.notify.notify"]
        asg = [a for q, a in calls if q == "cascade.scheduler.api.assign"]
        order = [q.rsplit(".", 1)[-1] for q, a in calls if q.rsplit(".", 1)[-1] in ("act", "plan", "flush_queues", "recv_events", "notify")]
        checks = {
            "assign(state, job, env)": len(asg) == 1 and [vkey(x) for x in asg[0]] == ["state", "job", "ENV"],
            "act(bridge, state, assignment) for every assignment, in order": [[vkey(x) for x in a] for a in acts] == [["bridge", "state", "`A1`"], ["bridge", "state", "`A2`"]],
            "plan(state, all assignments of the round)": len(plans) == 1 and vkey(plans[0][0]) == "state" and plans[0][1] == [A1, A2],
            "flush_queues(bridge, state)": len(fl) == 1 and [vkey(x) for x in fl[0]] == ["bridge", "state"],
            "notify(state, job, the received events, reporter)": len(nt) == 1 and vkey(nt[0][0]) == "state" and vkey(nt[0][1]) == "job" and nt[0][2] == EV,
            "phase order act* < plan < flush < wait < notify": order == ["act", "act", "plan", "flush_queues", "recv_events", "notify"],
        }
        for what, good in checks.items():
            if good:
                ctx.ok("C03.R6", loc(fi), what)
            else:
                ctx.violation("C03.R6", fi.qual, loc(fi), what.split("(")[0].strip(),
                              f"one controller round with two assignments and two events: violated — {what}; observed act{[[vkey(x) for x in a] for a in acts]} "
                              f"plan{[[vkey(x)[:40] for x in a] for a in plans]} notify{[[vkey(x)[:30] for x in a] for a in nt]} order {order}")
    ctx.floor("C03.R6.paths", n, 1)
    # the scheduler is initialised with exactly the outputs the job asks for
    seen = {}
    job = Obj("cascade.low.core.JobInstance", {"ext_outputs": [ds("MID", "T1"), ds("END", "T2")], "tasks": {}, "edges": [], "serdes": {}}, name="JOB")

    def init(run, a, k, n, f):
        seen["args"] = (list(a), dict(k))
        return Sym("state")
    ip = Interp(repo, inline=PRED, max_while=0, call_models={**models, "cascade.scheduler.api.initialize": init,
                                                           "cascade.low.views.sinks": lambda run, a, k, n, f: {ds("END", "T2")}})
    ip.explore(fi, env={"state.computable": 0, "state.ongoing_total": 0, "state.outputs": {}}, args={"job": job})
    got = None
    if "args" in seen:
        a_, k_ = seen["args"]
        got = k_.get("outputs", a_[2] if len(a_) > 2 else None)
    if not isinstance(got, (set, frozenset, list, tuple)) or {getattr(x, "name", vkey(x)) for x in got} != {"MID", "END"}:
        ctx.violation("C03.R6", fi.qual, loc(fi), "requested outputs handed to the scheduler",
                      f"job.ext_outputs = [MID (has consumers), END (a sink)]: initialize is given outputs {vkey(got)[:100]}; expected both — a requested dataset that is "
                      f"dropped here is never fetched and is purged once its last consumer completed")
    else:
        ctx.ok("C03.R6", loc(fi), "initialize receives every dataset of job.ext_outputs")
    # the assignment generator is run to exhaustion: it updates its bookkeeping for an assignment only when it is resumed after the yield
    import ast as _ast
    n_loops = 0
    sites = [(f2, node) for f2 in repo.all_funcs() if f2.module.name.startswith("cascade.controller") for node in walk_scope(f2.node)
             if isinstance(node, _ast.For) and isinstance(node.iter, _ast.Call) and (repo.resolve_expr(f2.module, node.iter.func) or "").endswith("scheduler.api.assign")]
    for f2, node in sites:
        if True:
            n_loops += 1
            esc = [x for x in _own_loop_body(node) if isinstance(x, (_ast.Break, _ast.Return))]
            if esc:
                ctx.violation("C03.R6", f2.qual, loc(f2, esc[0]), "assignment generator exhausted",
                              f"the loop over assign(...) can be left early (line {esc[0].lineno}): the generator pops the task / worker of an assignment only when it is "
                              f"resumed after the yield, so the last assignment taken is acted upon while its task stays computable and its worker idle — dispatched again next round")
            else:
                ctx.ok("C03.R6", loc(f2, node), "the loop over assign(...) always runs the generator to exhaustion")
    ctx.floor("C03.R6.assign_loops", n_loops, 1)
    # ... and nobody between the generator and that loop truncates it: an adaptor that stops pulling (islice, takewhile, zip with a shorter
    # partner, a bare next()) leaves the generator suspended at its last yield, with that assignment's bookkeeping undone
    TRUNC = {"islice", "takewhile", "next", "zip"}
    gens = {f2.qual for f2 in repo.all_funcs() if f2.module.name.startswith("cascade.scheduler") and getattr(f2, "is_generator", False)}
    gens.add("cascade.scheduler.api.assign")
    n_g = 0
    for f2 in repo.all_funcs():
        if not f2.module.name.startswith(("cascade.scheduler", "cascade.controller")) or isinstance(f2.node, _ast.Lambda):
            continue
        genvars = set()
        for node in walk_scope(f2.node):
            if isinstance(node, _ast.Assign) and isinstance(node.value, _ast.Call) and (repo.resolve_expr(f2.module, node.value.func) or "") in gens:
                genvars |= {t.id for t in node.targets if isinstance(t, _ast.Name)}
        for node in walk_scope(f2.node):
            if isinstance(node, _ast.Call) and _ast.unparse(node.func).rsplit(".", 1)[-1] in TRUNC:
                for a in node.args:
                    is_gen = (isinstance(a, _ast.Name) and a.id in genvars) or (isinstance(a, _ast.Call) and (repo.resolve_expr(f2.module, a.func) or "") in gens)
                    if is_gen:
                        n_g += 1
                        ctx.violation("C03.R6", f2.qual, loc(f2, node), "assignment generator not truncated",
                                      f"{f2.qual} wraps the assignment generator in {_ast.unparse(node.func)}(...): when the adaptor stops pulling, the generator stays suspended "
                                      f"at its last yield and never pops that assignment's task from `computable` nor its worker from the idle set — the assignment was "
                                      f"already sent, so the next round dispatches the same task again, to a worker that is busy")
    if not n_g:
        ctx.ok("C03.R6", loc(fi), f"no truncating adaptor around the {len(gens)} assignment generators")


def _own_loop_body(loop):
    """statements of a loop body that belong to this loop (not to nested loops / functions)"""
    import ast as _ast
    out = []
    todo = list(loop.body)
    while todo:
        x = todo.pop()
        out.append(x)
        for ch in _ast.iter_child_nodes(x):
            if isinstance(ch, (_ast.For, _ast.While, _ast.FunctionDef, _ast.AsyncFunctionDef, _ast.Lambda, _ast.ClassDef)):
                if isinstance(ch, (_ast.For, _ast.While)):
                    # a return inside a nested loop still leaves the outer loop
                    out.extend(y for y in _ast.walk(ch) if isinstance(y, _ast.Return))
                continue
            todo.append(ch)
    return out


RULES.append(r6_loop_wiring)


def r7_migration_rows(ctx):
    """C03.R7: migrating a host to a component gives every worker of the host (idle or busy) a distance row in that component —
    a worker that becomes idle later is looked up there."""
    repo = ctx.repo
    fi = repo.func("cascade.scheduler.assign.migrate_to_component")
    ctx.analysed(fi.qual)
    H = Atom("H1")
    W1, W2 = worker(H, "w0"), worker(H, "w1")
    comp = Obj(f"{CORE}.ComponentSchedule", {"worker2task_distance": {}, "worker2task_values": set(), "core": Obj(f"{CORE}.ComponentCore", {"depth": 3})}, name="comp1")
    env = {"state.components": [Obj(f"{CORE}.ComponentSchedule", {}, name="comp0"), comp], "state.host2component": {H: 0},
           "state.host2workers": {H: [W1, W2]}, "state.idle_workers": {W1}}
    paths = Interp(repo).explore(fi, env=env, args={"host": H, "component_id": 1})
    ctx.evals(len(paths))
    for p in paths:
        if p.exit[0] != "return":
            ctx.violation("C03.R7", fi.qual, loc(fi), "migration completes", f"migrate_to_component ends with {p.exit[0]} {vkey(p.exit[1])[:60]}")
            continue
        c = p.heap["state.components"][1]
        rows = sorted(getattr(w, "name", vkey(w)) for w in c.fields["worker2task_distance"].keys())
        h2c = p.heap["state.host2component"].get(H)
        if rows != sorted([W1.name, W2.name]) or h2c != 1:
            ctx.violation("C03.R7", fi.qual, loc(fi), "distance rows for every worker of the migrated host",
                          f"host with an idle and a busy worker migrates to component 1: distance rows for {rows}, host2component={vkey(h2c)}; every worker of the host needs a row "
                          f"(the busy one is looked up there when it becomes idle: KeyError in the controller otherwise)")
        else:
            ctx.ok("C03.R7", loc(fi), "every worker of the migrated host (idle or busy) gets a distance row; host2component updated")


from .C04 import r6_fetch_queue, r7_available_writers  # noqa: E402  (a requested output that is never fetched keeps the controller waiting for ever)

RULES += [r7_migration_rows, r6_fetch_queue, r7_available_writers, r10_one_round_exactly_once]  # an unrecorded publication never becomes a transfer source: remote consumers starve

from .common import lazy  # noqa: E402
RULES.append(lazy("C16", "r1_projections", "the preschedule's edge maps: a consumer missing from them lands in no component / is never made computable"))
RULES.append(lazy("sched", "r_assignment_outputs", "completion of a task is inferred from the publication of its last output: every output must be published"))
RULES.append(lazy("C02", "r6_worker_deferral", "a worker that forgets an arrived dataset leaves a later task sequence waiting for ever"))


def r8_initial_state_owned(ctx):
    """C03.R8: the run-time state that the controller *consumes* (purging_tracker, the per-component missing-input sets) is a private copy:
    it shares no set object with the Preschedule it was built from (a Preschedule is computed once and may serve several runs; the
    second run would start with every consumer already 'removed' and nothing beyond the sources ever becomes computable)."""
    repo = ctx.repo
    fi = repo.func("cascade.scheduler.api.initialize")
    ctx.analysed(fi.qual)
    from .common import dsid
    T1, T2 = "t1", "t2"
    D = dsid(T1, "0")
    eo_set, ei_set = {T2}, {D}
    core = Obj("cascade.scheduler.core.ComponentCore", {"nodes": [T1, T2], "sources": [T1], "distance_matrix": {}, "value": {}, "depth": 2}, name="CORE")
    pre = Obj("cascade.scheduler.core.Preschedule", {"components": [core], "edge_o": {D: eo_set}, "edge_i": {T1: set(), T2: ei_set}, "task_o": {T1: {D}, T2: set()}}, name="PRE")
    envm = Obj("cascade.low.core.Environment", {"workers": {}}, name="ENVM")
    paths = Interp(repo, max_iter=2, inline={"cascade.scheduler.core.ComponentCore.weight"}).explore(fi, env={"preschedule": pre}, args={"environment": envm, "outputs": set()})
    ctx.evals(len(paths))
    n = 0
    for p in paths:
        if p.exit[0] != "return" or not isinstance(p.exit[1], Obj):
            continue
        n += 1
        st_ = p.exit[1]
        pre2 = p.heap.get("preschedule") if isinstance(p.heap.get("preschedule"), Obj) else None
        fields = {**st_.kwargs, **st_.fields}
        pt = fields.get("purging_tracker")
        src = pre2.fields["edge_o"] if pre2 is not None else None
        if not isinstance(pt, dict) or not isinstance(src, dict):
            ctx.undecided("C03.R8", loc(fi), f"cannot read purging_tracker / edge_o of the initial state: {vkey(pt)[:80]}")
            continue
        shared = [k for k, v in pt.items() if any(v is sv for sv in src.values())]
        eo_state = fields.get("edge_o")
        if isinstance(eo_state, dict):
            shared += [k for k, v in pt.items() if any(v is sv for sv in eo_state.values())]
        if shared or {k: set(v) for k, v in pt.items()} != {k: set(v) for k, v in src.items()}:
            ctx.violation("C03.R8", fi.qual, loc(fi), "purging tracker is a private copy",
                          f"State.purging_tracker = {vkey(pt)[:100]} built from Preschedule.edge_o = {vkey(src)[:100]}: "
                          f"{'the consumer sets are the very same objects (' + vkey(shared) + ')' if shared else 'contents differ'} — notify() removes consumers from the tracker "
                          f"as tasks complete, which would also empty the preschedule's (and the state's own) consumer map")
        else:
            ctx.ok("C03.R8", loc(fi), "purging_tracker: equal to edge_o in content, sharing no set object with it")
        comps = fields.get("components")
        ei_src = pre2.fields["edge_i"]
        if isinstance(comps, list) and comps and isinstance(comps[0], Obj) and isinstance(comps[0].fields.get("is_computable_tracker"), dict):
            trk = comps[0].fields["is_computable_tracker"]
            sh = [k for k, v in trk.items() if any(v is sv for sv in ei_src.values())]
            if sh or {k: set(v) for k, v in trk.items()} != {k: set(v) for k, v in ei_src.items()}:
                ctx.violation("C03.R8", fi.qual, loc(fi), "missing-input tracker is a private copy",
                              f"is_computable_tracker = {vkey(trk)[:100]} built from Preschedule.edge_i = {vkey(ei_src)[:100]}: "
                              f"{'shares the input sets of ' + vkey(sh) if sh else 'contents differ'} — consider_computable removes inputs from it as datasets are published")
            else:
                ctx.ok("C03.R8", loc(fi), "is_computable_tracker: equal to edge_i in content, sharing no set object with it")
        else:
            ctx.undecided("C03.R8", loc(fi), f"cannot read the component's is_computable_tracker: {vkey(comps)[:100]}")
    ctx.floor("C03.R8.paths", n, 1)


RULES.append(r8_initial_state_owned)
RULES.append(lazy("common", "r_last_output_order", "completion is inferred from the last output in the order the runner publishes them: a wrong order ends the run with tasks never dispatched"))


def r11_queued_fetch_survives_planning(ctx):
    """C03.R11: a requested output that was queued for fetching when it was published is fetched by the next flush, whatever the planning
    step in between did to the bookkeeping of the producing host.  History, each step run on the state the previous one left: the
    output D (requested, one consumer c) is published on H1 and queued; c is assigned to a sibling worker of H1 with D as local
    preparation; plan(); flush_queues().  The fetch of D from H1 must be commanded and the queue must be empty — otherwise nothing
    is outstanding for D and the controller waits for ever (or ends without the value)."""
    repo = ctx.repo
    fp = repo.func("cascade.scheduler.api.plan")
    ff = repo.func("cascade.controller.act.flush_queues")
    ctx.analysed(fp.qual)
    ctx.analysed(ff.qual)
    from collections import defaultdict
    D, Dc = ds("D", "p"), ds("Dc", "c")
    H1 = Atom("H1")
    Wa, Wb = worker(H1, "w0"), worker(H1, "w1")
    from .common import model_elem
    prep = [model_elem(repo, "cascade.scheduler.core.Assignment", "prep", (D, H1))]
    _ci, _ann = repo.field_ann("cascade.scheduler.core.Assignment", "prep")
    if _ann is not None and ast.unparse(_ann).startswith(("dict", "Dict")):
        prep = {D: H1}
    asg = Obj("cascade.scheduler.core.Assignment", {"worker": Wb, "tasks": ["c"], "prep": prep, "outputs": {Dc}}, name="ASSIGNMENT")
    env = {
        "state.fetching_queue": {D: H1},
        "state.outputs": {D: None},
        "state.purging_tracker": {D: {"c"}, Dc: set()},
        "state.purging_queue": [],
        "state.edge_o": ddict(set, {D: {"c"}}),
        "state.ds2host": ddict(dict, {D: {H1: st("available")}}),
        "state.host2ds": ddict(dict, {H1: {D: st("available")}}),
        "state.host2workers": {H1: [Wa, Wb]},
        "state.worker2ds": ddict(dict, {Wa: {D: st("available")}}),
        "state.ds2worker": ddict(dict, {D: {Wa: st("available")}}),
        "state.worker2ts": ddict(dict), "state.ts2worker": ddict(dict), "state.ongoing": ddict(set), "state.ongoing_total": 0,
        "state.ts2component": ddict(lambda: 0),
    }
    ip = Interp(repo, call_models={"cascade.scheduler.assign.update_worker2task_distance": lambda run, a, k, n, f: a[3] if len(a) > 3 else k.get("state")})
    ps = ip.explore(fp, env=env, args={"assignments": [asg]})
    ctx.evals(len(ps))
    done = [p for p in ps if p.exit[0] == "return"]
    if len(ps) != 1 or not done:
        ctx.undecided("C03.R11", loc(fp), f"plan on the model state: {[(p.exit[0], vkey(p.exit[1])[:80]) for p in ps]}")
        return
    heap = {k: v for k, v in done[0].heap.items() if k.startswith("state.")}
    status = vkey(heap["state.host2ds"][H1].get(D))
    ps2 = Interp(repo, inline={"cascade.controller.notify.consider_purge"}).explore(ff, env=heap)
    ctx.evals(len(ps2))
    n = 0
    for p in ps2:
        n += 1
        fetches = [e for e in p.effects if is_call(e, qual="cascade.executor.bridge.Bridge.fetch")]
        fq = p.heap.get("state.fetching_queue")
        if p.exit[0] != "return" or len(fetches) != 1 or fetches[0].data["args"][:2] != [D, H1] or fq != {}:
            ctx.violation("C03.R11", ff.qual, loc(ff), "queued fetch commanded after planning",
                          f"D published on H1 and queued for fetching; its consumer assigned to H1.w1, plan() (host record of D on H1 afterwards: {status}); flush_queues "
                          f"then ends with {p.exit[0]}, fetch commands {[x.brief()[:80] for x in fetches]}, queue left {vkey(fq)[:80]} — nothing is outstanding for the "
                          f"requested output any more: the controller waits for ever or returns without it")
        else:
            ctx.ok("C03.R11", loc(ff), f"publish -> plan (host record: {status}) -> flush: the queued fetch is commanded, queue empty")
    ctx.floor("C03.R11.paths", n, 1)


RULES.append(r11_queued_fetch_survives_planning)


def r12_same_dataset_twice(ctx):
    """C03.R12: a task may read one dataset through two of its parameters (`sq(a=x, b=x)`).  History on the real code: `precompute` of the
    two-task job x -> sq (two keyword edges from x.0) gives the input record of sq; with that very record in the State, `notify` of sq's
    completion must go through — the bookkeeping removes sq from the consumers of each of its inputs, which fails the second time if the
    record lists x.0 twice and the consumer set holds sq once."""
    repo = ctx.repo
    fp = repo.func("cascade.scheduler.graph.precompute")
    fn = repo.func("cascade.controller.notify.notify")
    ctx.analysed(fp.qual)
    ctx.analysed(fn.qual)
    from ..stmts import _ConcreteIter
    X, SQ = "x", "sq"
    from .common import dsid
    DX, DSQ_ = dsid(X), dsid(SQ)
    E = "cascade.low.core.Task2TaskEdge"
    edges = [Obj(E, {"source": DX, "sink_task": SQ, "sink_input_kw": "a", "sink_input_ps": None}), Obj(E, {"source": DX, "sink_task": SQ, "sink_input_kw": "b", "sink_input_ps": None})]
    tdef = lambda: Obj("cascade.low.core.TaskInstance", {"definition": Obj("cascade.low.core.TaskDefinition", {"output_schema": {"0": "Any"}})})
    job = Obj("cascade.low.core.JobInstance", {"tasks": {X: tdef(), SQ: tdef()}, "edges": edges, "ext_outputs": [], "serdes": {}}, name="JOB")
    GR, VW = "cascade.scheduler.graph", "cascade.low.views"
    models = {f"{GR}.decompose": lambda run, a, k, n, f: _ConcreteIter([([X, SQ], [X])]),
              f"{GR}.enrich": lambda run, a, k, n, f: Obj("cascade.scheduler.core.ComponentCore", {"nodes": [X, SQ], "sources": [X], "distance_matrix": {}, "value": {}, "depth": 2}),
              ("method", "map"): lambda run, a, k, n, f: [run.call_value(a[0], None, [item], {}, n, f) for item in (a[1].items if isinstance(a[1], _ConcreteIter) else list(a[1]))]}
    ps = [p for p in Interp(repo, call_models=models, inline={"cascade.low.core.JobInstance.outputs_of", f"{VW}.dependants", f"{VW}.param_source", "cascade.scheduler.core.ComponentCore.weight"}).explore(
        fp, args={"job_instance": job}) if p.exit[0] == "return"]
    ctx.evals(len(ps))
    if len(ps) != 1 or not isinstance(ps[0].exit[1], Obj):
        ctx.undecided("C03.R12", loc(fp), f"precompute on the two-task model job: {len(ps)} returning paths")
        return
    pre = ps[0].exit[1].fields
    ei, eo = pre.get("edge_i"), pre.get("edge_o")
    if not isinstance(ei, dict) or not isinstance(eo, dict) or SQ not in ei:
        ctx.undecided("C03.R12", loc(fp), f"unexpected preschedule maps: edge_i={vkey(ei)[:80]} edge_o={vkey(eo)[:80]}")
        return
    W = worker("H1")
    env = {
        "state.host2ds": ddict(dict), "state.ds2host": ddict(dict), "state.outputs": {}, "state.fetching_queue": {},
        "state.purging_tracker": {k: set(v) for k, v in eo.items()}, "state.purging_queue": [],
        "state.edge_i": ei, "state.worker2ts": ddict(dict), "state.ts2worker": ddict(dict),
        "state.ongoing": ddict(set, {W: {SQ}}), "state.idle_workers": set(), "state.ongoing_total": 1, "state.remaining": 1,
    }
    ev = Obj("cascade.executor.msg.DatasetPublished", {"origin": W, "ds": DSQ_, "transmit_idx": None})
    ip = Interp(repo, call_models={"cascade.controller.notify.consider_computable": lambda run, a, k, n, f: a[0], "cascade.controller.notify.is_last_output_of": lambda *a: True},
                inline={"cascade.controller.notify.consider_purge"})
    n = 0
    for p in ip.explore(fn, env=env, args={"events": [ev], "job": job}):
        n += 1
        if p.exit[0] != "return":
            ctx.violation("C03.R12", fn.qual, loc(fn), "completion of a task reading one dataset twice",
                          f"job x -> sq(a=x.0, b=x.0): precompute records the inputs of sq as {vkey(ei.get(SQ))[:80]}; when sq completes, notify ends with {p.exit[0]} "
                          f"{vkey(p.exit[1])[:80]} — the controller crashes from its own bookkeeping on a perfectly feasible job")
        elif SQ in (p.heap.get("state.purging_tracker", {}).get(DX) or set()):
            ctx.violation("C03.R12", fn.qual, loc(fn), "consumer removed", "sq completed but is still recorded as a pending consumer of x.0")
        else:
            ctx.ok("C03.R12", loc(fn), f"sq(a=x.0, b=x.0): inputs recorded as {vkey(ei.get(SQ))[:60]}, completion processed")
    ctx.floor("C03.R12.paths", n, 1)


RULES.append(r12_same_dataset_twice)
