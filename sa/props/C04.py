"""C04 — data is never purged, transferred or fetched while missing or still needed (structural clauses)."""
from __future__ import annotations

import ast

from ..evalx import AnyKeyDict
from ..interp import Interp
from ..lib import gtt, is_call, is_store, loc, unparse
from ..repo import AnalysisError, walk_scope
from ..terms import Atom, Obj, Sym, vkey
from .common import base_name, callers_of, ddict, ds, r_last_output_order, scan, st, worker

NOTIFY = "cascade.controller.notify"
ACT = "cascade.controller.act"
META = {
    "explanation": "Static structural analysis (path-sensitive abstract interpretation of the controller's purge/fetch "
                   "code over a finite abstract domain). Decides: the purge-enqueue guard truth table at every writer of "
                   "State.purging_queue, consumer removal only on task completion and for every input, fetch-before-purge "
                   "and purge-every-holder in flush_queues, writers of fetching_queue / ds2host, transfer sources. "
                   "Later rules: a requested output is fetched once (history publish -> fetch -> transfer confirmation #0 / #7 -> flush), transfers are commanded only for an assignment's preparation list and fetches only from the fetch queue, an undecodable payload is not a delivered output. Not decided: the temporal claim over all event interleavings.",
    "assumptions": ["AnyKeyDict abstraction: the guard is evaluated for 'the dataset in question'; a guard that looks up a "
                    "different key of the same mapping is not distinguished",
                    "bridge methods are opaque effects"],
}


def _purge_rows():
    rows = []
    for tname, tr in (("absent", None), ("empty", set()), ("nonempty", {Atom("T9")})):
        for oname, out in (("not_requested", "absent"), ("pending", None), ("fetched", "VALUE")):
            rows.append({"tracker": tname, "output": oname, "_tr": tr, "_out": out})
    return rows


def _purge_spec(row):
    return row["tracker"] in ("absent", "empty") and row["output"] in ("not_requested", "fetched")


def r1_purge_guard(ctx):
    """C04.R1 GTT + EFFECT-SITES: every append to State.purging_queue obeys
    (no consumer left) and (not requested or value present)."""
    repo = ctx.repo
    sites = list(scan().attr_sites("purging_queue", owner="cascade.scheduler.core.State"))
    appenders = {}
    for fi, n, kind, det in sites:
        if kind == "mutcall" and det in ("append", "extend", "insert", "appendleft"):
            appenders.setdefault(fi.qual, (fi, []))[1].append(n)
        elif kind == "store":
            # only resets to an empty list are accepted without a guard
            asg = next((a for a in walk_scope(fi.node) if isinstance(a, ast.Assign) and n in a.targets), None)
            v = asg.value if asg is not None else None
            def _shrinks(e):
                """the stored value holds nothing that was not queued already: [], list(), a slice / filter of the queue itself, or a choice of those"""
                if isinstance(e, ast.List) and not e.elts:
                    return True
                if isinstance(e, ast.Call) and isinstance(e.func, ast.Name) and e.func.id == "list" and not e.args and not e.keywords:
                    return True
                if isinstance(e, ast.Subscript) and isinstance(e.slice, ast.Slice) and isinstance(e.value, ast.Attribute) and e.value.attr == "purging_queue":
                    return True
                if isinstance(e, ast.IfExp):
                    return _shrinks(e.body) and _shrinks(e.orelse)
                if isinstance(e, ast.ListComp) and len(e.generators) == 1 and isinstance(e.generators[0].iter, ast.Attribute) and e.generators[0].iter.attr == "purging_queue" \
                        and isinstance(e.elt, ast.Name) and isinstance(e.generators[0].target, ast.Name) and e.elt.id == e.generators[0].target.id:
                    return True
                return False
            if v is not None and _shrinks(v):
                ctx.ok("C04.R1", loc(fi, n), "store to purging_queue only drops entries (reset / slice / filter of the queue itself)", nontrivial=False)
            else:
                ctx.undecided("C04.R1", loc(fi, n), f"store to purging_queue of a non-literal value: {unparse(asg) if asg else '?'}")
        elif kind in ("aug", "substore", "submutcall"):
            ctx.undecided("C04.R1", loc(fi, n), f"unsupported writer form of purging_queue ({kind})")
    primary = f"{NOTIFY}.consider_purge"
    if primary not in appenders:
        pf = repo.func(primary)
        appenders[primary] = (pf, [])
    from .common import helper_of as _helper_of, users_of
    known = {primary, f"{NOTIFY}.notify", f"{ACT}.flush_queues"}
    for q in list(appenders):
        if q != primary and _helper_of(repo, q, known | set(appenders) - {q}):
            # a helper split off a guarded function: its guard lives in its users, which are analysed with the helper inlined
            for u in users_of(repo, q):
                if u in repo.funcs and u not in appenders and not u.endswith("<module>"):
                    uf = repo.funcs[u]
                    if uf.params:
                        appenders[u] = (uf, [])
            del appenders[q]
    for q, (fi, nodes) in appenders.items():
        bases = {base_name(n) for n in nodes} if nodes else {fi.params[0] if fi.params else None}
        if len(bases) != 1 or None in bases:
            ctx.undecided("C04.R1", loc(fi), "cannot name the State object the queue belongs to")
            continue
        b = bases.pop()
        rows = []
        for r in _purge_rows():
            env = {f"{b}.purging_tracker": AnyKeyDict(r["_tr"] is not None, r["_tr"], "purging_tracker"),
                   f"{b}.outputs": AnyKeyDict(r["_out"] != "absent", None if r["_out"] is None else r["_out"], "outputs")}
            rows.append({"tracker": r["tracker"], "output": r["output"], "env": env})
        ip = Interp(repo, max_iter=1)
        eff = lambda e: is_call(e, field="State.purging_queue") and e.method in ("append", "extend", "insert")
        mode = "exact" if q == primary else "allowed"
        gtt(ctx, "C04.R1", fi, ip, rows, eff, _purge_spec, mode=mode,
            what="enqueue for purge iff no consumer is left and a requested output has reached the caller",
            construct="purging_queue.append guard")


def _event(transmit_idx, origin=None, dsv=None):
    return Obj("cascade.executor.msg.DatasetPublished",
               {"origin": origin or worker("H1"), "ds": dsv or ds("DS", "T"), "transmit_idx": transmit_idx})


def _notify_state(T, D1, D2, W, extra=None):
    env = {
        "state.host2ds": ddict(dict), "state.ds2host": ddict(dict),
        "state.outputs": {}, "state.fetching_queue": {},
        "state.purging_tracker": {D1: {T}, D2: {T, Atom("Tother")}},
        "state.purging_queue": [],
        "state.edge_i": {T: {D1, D2}},
        "state.worker2ts": ddict(dict), "state.ts2worker": ddict(dict),
        "state.ongoing": ddict(set, {W: {T}}), "state.idle_workers": set(),
        "state.ongoing_total": 1, "state.remaining": 1,
    }
    env.update(extra or {})
    return env


def r2_tracker_removal(ctx):
    """C04.R2: a consumer is removed from purging_tracker only when that consumer's task completed
    (event is a worker publication, not a transfer confirmation, of the task's last output), for every
    input of the task, each followed by consider_purge of that input."""
    repo = ctx.repo
    fi = repo.func(f"{NOTIFY}.notify")
    ctx.analysed(fi.qual)
    T = Atom("T")
    D1, D2 = ds("D1", "P1"), ds("D2", "P2")
    W = worker("H1")
    rows = []
    for tx in (None, 7):
        for last in (True, False):
            ev = _event(tx, W, ds("DS", T))
            rows.append({"transmit_idx": tx, "is_last_output": last,
                         "env": _notify_state(T, D1, D2, W), "args": {"events": [ev]}, "_last": last})
    seen_model = []

    def mk_ip(last):
        def model(run, args, kwargs, node, fr):
            seen_model.append(1)
            return last
        return Interp(repo, call_models={f"{NOTIFY}.is_last_output_of": model}, inline={f"{NOTIFY}.consider_purge"})

    removal = lambda e: is_call(e, field="State.purging_tracker") and e.method in ("remove", "discard", "pop", "clear", "difference_update")
    table = []
    for row in rows:
        ip = mk_ip(row["_last"])
        paths = ip.explore(fi, env=row["env"], args=row["args"])
        ctx.evals(len(paths))
        hits = [e for p in paths for e in p.effects if removal(e)]
        want = row["transmit_idx"] is None and row["is_last_output"]
        atoms = {"transmit_idx": row["transmit_idx"], "is_last_output": row["is_last_output"]}
        table.append({**atoms, "reachable": bool(hits), "spec": want})
        if bool(hits) != want:
            ctx.violation("C04.R2", fi.qual, loc(fi, hits[0].node) if hits else loc(fi), "purging_tracker removal guard",
                          f"consumer removal from purging_tracker is {'reachable' if hits else 'unreachable'} under {atoms}; "
                          f"it must happen exactly when the consuming task completed", row=atoms)
        else:
            ctx.ok("C04.R2", loc(fi), f"tracker removal guard | {atoms}")
        if want:
            # totality, decided on the final model state: D1 lost its only consumer (must be queued for purge),
            # D2 keeps another consumer (must have lost T but must not be queued)
            for p in paths:
                if p.exit[0] != "return":
                    continue
                tr = p.heap.get("state.purging_tracker", {})
                pq = p.heap.get("state.purging_queue", [])
                if T in tr.get(D1, set()) or T in tr.get(D2, set()):
                    ctx.violation("C04.R2", fi.qual, loc(fi), "tracker removal totality",
                                  f"an input of the completed task keeps the task in its consumer set: {vkey(tr)}")
                elif D1 not in pq:
                    ctx.violation("C04.R2", fi.qual, loc(fi), "purge considered after last consumer",
                                  f"input {D1} lost its last consumer but is not queued for purge (queue {vkey(pq)})")
                elif D2 in pq:
                    ctx.violation("C04.R2", fi.qual, loc(fi), "purge with consumer left",
                                  f"input {D2} still has a consumer but was queued for purge")
                else:
                    ctx.ok("C04.R2", loc(fi), "every input lost the completed consumer; only the consumer-free one is queued for purge")
    if not seen_model:
        ctx.undecided("C04.R2", loc(fi), "is_last_output_of is no longer consulted by notify: completion guard undecidable")
    ctx.table("C04.R2", table)


def _flush_env(bridge="bridge"):
    D, D2 = ds("DF", "TF"), ds("DP", "TP")
    H1, H2 = Atom("H1"), Atom("H2")
    W1, W2 = worker(H1), worker(H2)
    env = {
        "state.fetching_queue": {D: H1},
        "state.outputs": {D: None},
        "state.purging_tracker": {},
        "state.purging_queue": [D2],
        # the dataset to fetch is held by H1 (where it was published) and is *on its way* to H2 (a transfer was commanded, not confirmed)
        "state.ds2host": {D2: {H1: st("available"), H2: st("available")}, D: {H1: st("available"), H2: st("preparing")}},
        "state.host2ds": {H1: {D2: st("available"), D: st("available")}, H2: {D2: st("available"), D: st("preparing")}},
        "state.host2workers": {H1: [W1], H2: [W2]},
        "state.worker2ds": {W1: {D2: st("available")}, W2: {}},
        "state.ds2worker": {D2: {W1: st("available")}},
    }
    return env, D, D2, H1, H2


def r3_r4_flush(ctx):
    """C04.R3/R4: in flush_queues every fetch command precedes every purge command; a dataset whose fetch was just
    commanded (value not yet received) is not purged; every holder of a purged dataset gets the purge command."""
    repo = ctx.repo
    fi = repo.func(f"{ACT}.flush_queues")
    ctx.analysed(fi.qual)
    env, D, D2, H1, H2 = _flush_env()
    ip = Interp(repo, inline={f"{NOTIFY}.consider_purge"})
    paths = ip.explore(fi, env=env)
    ctx.evals(len(paths))
    BR = "cascade.executor.bridge.Bridge"
    n_ok = 0
    for p in paths:
        if p.exit[0] != "return":
            ctx.violation("C04.R3", fi.qual, loc(fi), "flush completes on a consistent state",
                          f"flush_queues ends with {p.exit[0]} {vkey(p.exit[1])[:60]} on a consistent model state (one queued fetch, one dataset to purge held by two hosts)")
            n_ok += 1
            continue
        fetches = [e for e in p.effects if is_call(e, qual=f"{BR}.fetch")]
        purges = [e for e in p.effects if is_call(e, qual=f"{BR}.purge")]
        if not fetches or (fetches[0].data["args"][:2] != [D, H1]):
            ctx.violation("C04.R3", fi.qual, loc(fi), "fetch of queued dataset",
                          f"queued fetch ({D} from {H1}, which holds it; H2 is only *preparing* it) is not commanded as such: {[x.brief() for x in fetches]} — "
                          f"a fetch from a host that does not hold the dataset yet fails or never answers")
            continue
        if purges and min(x.seq for x in purges) < max(x.seq for x in fetches):
            ctx.violation("C04.R3", fi.qual, loc(fi, purges[0].node), "purge before fetch",
                          "a purge command is issued before all queued fetches were commanded")
        else:
            ctx.ok("C04.R3", loc(fi), "all fetch commands precede all purge commands")
        if any(D in x.data["args"] for x in purges):
            ctx.violation("C04.R3", fi.qual, loc(fi), "purge of dataset being fetched",
                          f"{D} is purged in the same flush that commanded its fetch (value not yet received)")
        else:
            ctx.ok("C04.R3", loc(fi), "a dataset whose fetch is unanswered is not purged")
        got = sorted(vkey(x.data["args"][0]) for x in purges if D2 in x.data["args"])
        if got != sorted([vkey(H1), vkey(H2)]):
            ctx.violation("C04.R4", fi.qual, loc(fi), "purge every holder",
                          f"dataset {D2} is held by H1 and H2 but purge is commanded for {got}")
        else:
            ctx.ok("C04.R4", loc(fi), "purge commanded at every host holding the dataset")
        h = p.heap
        left = [k for k in ("state.ds2host",) if D2 in h[k]] + [f"host2ds[{vkey(x)}]" for x, m in h["state.host2ds"].items() if D2 in m] \
            + [f"worker2ds[{vkey(x)}]" for x, m in h["state.worker2ds"].items() if D2 in m] + (["ds2worker"] if h["state.ds2worker"].get(D2) else [])
        if h["state.purging_queue"] != [] or h["state.fetching_queue"] != {}:
            ctx.violation("C04.R4", fi.qual, loc(fi), "queues drained",
                          f"after the flush the queues are purging={vkey(h['state.purging_queue'])} fetching={vkey(h['state.fetching_queue'])}; a command left in a queue is re-issued "
                          f"on the next flush for a dataset that is gone")
        elif left:
            ctx.violation("C04.R4", fi.qual, loc(fi), "purged dataset forgotten", f"the purged dataset is still recorded in {left}: it could be chosen as a transfer source although it was dropped")
        else:
            ctx.ok("C04.R4", loc(fi), "queues drained; the purged dataset is forgotten in every view")
        n_ok += 1
    ctx.floor("C04.R3.paths", n_ok, 1)


def r6_fetch_queue(ctx):
    """C04.R6: fetching_queue is written only under 'requested, no value yet, not already queued' and the recorded
    source is the publishing host of the event."""
    repo = ctx.repo
    writers = {}
    for fi, n, kind, det in scan().attr_sites("fetching_queue", owner="cascade.scheduler.core.State"):
        if kind in ("substore", "store", "aug") or (kind == "mutcall" and det in ("update", "setdefault", "__setitem__")):
            writers.setdefault(fi.qual, (fi, []))[1].append(n)
    if f"{NOTIFY}.consider_fetch" not in writers:
        cf = repo.func(f"{NOTIFY}.consider_fetch")
        writers[cf.qual] = (cf, [])
    for q, (fi, nodes) in writers.items():
        b = base_name(nodes[0]) if nodes else (fi.params[0] if fi.params else None)
        if b is None:
            ctx.undecided("C04.R6", loc(fi), "cannot name the State object")
            continue
        rows = []
        # reachable rows only: consider_fetch is reached from the *original* publication of a dataset (R10 decides that a transfer confirmation
        # queues nothing), when the value cannot be there yet and nothing was queued for it — the other combinations are not decided
        for req in ("not_requested", "pending"):
            for queued in (False,):
                env = {f"{b}.outputs": AnyKeyDict(req != "not_requested", None if req == "pending" else "VALUE", "outputs"),
                       f"{b}.fetching_queue": AnyKeyDict(queued, Atom("Hq"), "fetching_queue")}
                rows.append({"output": req, "already_queued": queued, "env": env})
        eff = lambda e: e.kind == "store" and (e.data.get("field") or "").endswith("State.fetching_queue")
        gtt(ctx, "C04.R6", fi, Interp(repo), rows, eff,
            lambda r: r["output"] == "pending" and not r["already_queued"],
            mode="exact" if q == f"{NOTIFY}.consider_fetch" else "allowed",
            what="queue a fetch iff the dataset is a requested output without value and not queued yet",
            construct="fetching_queue store guard")
    # provenance of the source host at the call in notify: the original publication (by the producing worker) queues the fetch from its own host
    fi = repo.func(f"{NOTIFY}.notify")
    T = Atom("T")
    W = worker("H1")
    for origin, hostname in ((W, "H1"),):
        ev = _event(None, origin, ds("DS", T))
        env = _notify_state(T, ds("D1", "P1"), ds("D2", "P2"), W)
        ip = Interp(repo, call_models={f"{NOTIFY}.is_last_output_of": lambda *a: False},
                    type_facts={})
        paths = ip.explore(fi, env=env, args={"events": [ev]})
        ctx.evals(len(paths))
        calls = [e for p in paths for e in p.effects if is_call(e, qual=f"{NOTIFY}.consider_fetch")]
        if not calls:
            ctx.violation("C04.R6", fi.qual, loc(fi), "consider_fetch on publication",
                          f"a DatasetPublished from {hostname} does not lead to consider_fetch")
            continue
        for c in calls:
            a = c.data["args"]
            okk = len(a) >= 3 and a[1] is ev.fields["ds"] and vkey(a[2]) == f"`{hostname}`"
            if not okk:
                ctx.violation("C04.R6", fi.qual, loc(fi, c.node), "fetch source provenance",
                              f"consider_fetch is called with {[vkey(x) for x in a[1:]]}, expected the event's dataset and its publishing host {hostname}")
            else:
                ctx.ok("C04.R6", loc(fi, c.node), f"fetch source = publishing host ({hostname})")


def r10_single_fetch(ctx):
    """C04.R10: a requested output is fetched once.  History on the real notify / flush_queues, each step on the state the previous one
    left: output D (requested, consumer c on H2) published on H1 and queued -> flush_queues commands the fetch from H1 -> the confirmation
    that the copy for c arrived on H2 is processed *before* the fetch is answered -> flush_queues.  No second fetch may be commanded: the
    purge guard releases D as soon as the first value arrived and c completed, so a second fetch (from H2) would still be unanswered when
    D is dropped on H2 — and a data server asked for a dataset it no longer holds reports a failure that ends a healthy run."""
    repo = ctx.repo
    fn = repo.func(f"{NOTIFY}.notify")
    ff = repo.func(f"{ACT}.flush_queues")
    ctx.analysed(fn.qual)
    ctx.analysed(ff.qual)
    D = ds("D", "T")
    H1, H2 = Atom("H1"), Atom("H2")
    W1, W2 = worker(H1), worker(H2)
    Tc = Atom("c")
    env = {
        "state.host2ds": ddict(dict, {H1: {D: st("available")}, H2: {D: st("preparing")}}),
        "state.ds2host": ddict(dict, {D: {H1: st("available"), H2: st("preparing")}}),
        "state.outputs": {D: None}, "state.fetching_queue": {D: H1},
        "state.purging_tracker": {D: {Tc}}, "state.purging_queue": [],
        "state.edge_i": {Tc: {D}}, "state.edge_o": ddict(set, {D: {Tc}}),
        "state.worker2ts": ddict(dict), "state.ts2worker": ddict(dict),
        "state.ongoing": ddict(set, {W2: {Tc}}), "state.idle_workers": set(),
        "state.ongoing_total": 1, "state.remaining": 1,
        "state.host2workers": {H1: [W1], H2: [W2]},
        "state.worker2ds": ddict(dict, {W1: {D: st("available")}}), "state.ds2worker": ddict(dict, {D: {W1: st("available")}}),
    }
    INL = {f"{NOTIFY}.consider_purge", f"{NOTIFY}.consider_fetch"}

    def step(fi, env_, args, models=None):
        ps = [p for p in Interp(repo, call_models=models or {}, inline=INL).explore(fi, env=env_, args=args) if p.exit[0] == "return"]
        if len(ps) != 1:
            raise AnalysisError(f"{fi.name} on the model state has {len(ps)} returning paths")
        return ps[0], {k: v for k, v in ps[0].heap.items() if k.startswith("state.")}
    # transfer commands are numbered from 0 (Bridge.transmit_idx_counter): the confirmation of the very first command carries index 0
    for tix in (0, 7):
        fetched = []
        p, heap = step(ff, env, {})
        fetched += [tuple(vkey(x) for x in e.data["args"][:2]) for e in p.effects if is_call(e, qual="cascade.executor.bridge.Bridge.fetch")]
        ev = _event(tix, Atom("H2", cls="builtins.str"), D)
        p, heap = step(fn, heap, {"events": [ev]}, models={f"{NOTIFY}.consider_computable": lambda run, a, k, n, f: a[0]})
        requeued = vkey(heap.get("state.fetching_queue"))
        p, heap = step(ff, heap, {})
        fetched += [tuple(vkey(x) for x in e.data["args"][:2]) for e in p.effects if is_call(e, qual="cascade.executor.bridge.Bridge.fetch")]
        ctx.evals(3)
        if len(fetched) != 1:
            ctx.violation("C04.R10", fn.qual, loc(fn), "a requested output is fetched once",
                          f"D requested, published on H1, copy for its consumer on its way to H2: flush commands the fetch from H1; the confirmation of transfer command #{tix} from H2 "
                          f"arrives before the value (fetch queue afterwards: {requeued}); the next flush commands {fetched[1:] or 'nothing'} — fetch commands in total {fetched}. The "
                          f"purge guard waits for one value only: the extra fetch is still unanswered when D is dropped on its source host", row={"transmit_idx": tix})
        else:
            ctx.ok("C04.R10", loc(fn), f"publish -> fetch from H1 -> confirmation of transfer #{tix} from H2 -> flush: one fetch in total {fetched}")


def r7_available_writers(ctx):
    """C04.R7: `available` is recorded for a (dataset, host) only while handling a DatasetPublished event from that host."""
    repo = ctx.repo
    n_sites = 0
    for attr in ("ds2host", "host2ds"):
        for fi, n, kind, det in scan().attr_sites(attr, owner="cascade.scheduler.core.State"):
            if kind != "substore":
                continue
            asg = next((a for a in walk_scope(fi.node) if isinstance(a, ast.Assign) and n in a.targets), None)
            if asg is None or not (isinstance(asg.value, ast.Attribute) and asg.value.attr == "available"):
                continue
            n_sites += 1
            allowed = fi.qual == f"{NOTIFY}.notify"
            if not allowed:
                from .common import helper_of as _helper_of
                allowed = _helper_of(repo, fi.qual, {f"{NOTIFY}.notify"})
            if not allowed:
                ctx.violation("C04.R7", fi.qual, loc(fi, n), f"{attr}[..][..] = available",
                              "a dataset is marked available outside the handling of a DatasetPublished event")
            else:
                ctx.ok("C04.R7", loc(fi, n), f"{attr} marked available only in notify")
    # and in notify the key/host come from the event, and both views record it
    fi = repo.func(f"{NOTIFY}.notify")
    T = Atom("T")
    W = worker("H1")
    ev = _event(None, W, ds("DS", T))
    ip = Interp(repo, call_models={f"{NOTIFY}.is_last_output_of": lambda *a: False})
    paths = ip.explore(fi, env=_notify_state(T, ds("D1", "P1"), ds("D2", "P2"), W), args={"events": [ev]})
    for p in paths:
        if p.exit[0] == "return":
            h2d = p.heap["state.host2ds"]
            d2h = p.heap["state.ds2host"]
            got_h = [v for h, m in h2d.items() if vkey(h) == "`H1`" for k, v in m.items() if vkey(k) == "`DS`"]
            got_d = [v for k, m in d2h.items() if vkey(k) == "`DS`" for h, v in m.items() if vkey(h) == "`H1`"]
            if got_h != [st("available")] or got_d != [st("available")]:
                ctx.violation("C04.R7", fi.qual, loc(fi), "publication recorded in both views",
                              f"after DatasetPublished(DS) from a worker of H1: host2ds[H1][DS]={vkey(got_h)} ds2host[DS][H1]={vkey(got_d)}; both must be `available` "
                              f"(transfer sources are chosen from ds2host, local availability from host2ds)")
            else:
                ctx.ok("C04.R7", loc(fi), "a publication is recorded as available in host2ds and ds2host")
        for e in p.effects:
            if e.kind == "store" and e.data.get("value") is st("available"):
                tgt = e.data["target"]
                if "`DS`" in tgt and "`H1`" in tgt:
                    ctx.ok("C04.R7", loc(fi, e.node), f"available recorded for the event's dataset and host: {tgt}")
                else:
                    ctx.violation("C04.R7", fi.qual, loc(fi, e.node), "available key provenance",
                                  f"`available` stored at {tgt}, not at the event's (dataset, host)")


from .sched import r_transfer_source  # noqa: E402

from .sched import r_no_downgrade  # noqa: E402

RULES = [r_no_downgrade, r1_purge_guard, r2_tracker_removal, r3_r4_flush, r_transfer_source, r6_fetch_queue, r7_available_writers,
         r_last_output_order]

from .common import lazy  # noqa: E402
RULES.append(lazy("C16", "r1_projections", "the purge tracker is initialised from the preschedule's consumer map: a consumer missing there lets its input be purged early"))
RULES.append(lazy("C03", "r6_loop_wiring", "every requested output is known to the scheduler (else it is purged as unneeded)"))
RULES.append(lazy("C02", "r12_one_transfer_per_host", "a duplicate transfer is still unanswered when its source is purged after the first copy arrived"))


def r8_undecodable_output(ctx):
    """C04.R8 / C01: a requested output counts as delivered — `State.outputs[ds]` non-None, which is what the purge guard and the end of the
    run look at — only when its payload was decoded.  If decoding the fetched payload fails, notify either fails (the run ends with an
    error) or leaves the output undelivered; recording a placeholder object in its place makes the dataset purgeable and lets the run
    return something that is not the value the task produced."""
    repo = ctx.repo
    fi = repo.func(f"{NOTIFY}.notify")
    ctx.analysed(fi.qual)
    D = ds("D", "T")
    hdr = Obj("cascade.executor.msg.DatasetTransmitPayloadHeader", {"ds": D, "deser_fun": "my.deser", "confirm_idx": 3, "confirm_address": "a"})
    ev = Obj("cascade.executor.msg.DatasetTransmitPayload", {"header": hdr, "value": b"BYTES"})
    env = _notify_state(Atom("T"), ds("D1", "P1"), ds("D9", "P9"), worker("H1"), {"state.outputs": {D: None}})
    rid = f"{ctx.pid}.R8" if ctx.pid == "C04" else f"{ctx.pid}.UNDECODABLE"
    n = 0
    ip = Interp(repo, raising=lambda d: d["name"].rsplit(".", 1)[-1] == "des_output")
    for p in ip.explore(fi, env=env, args={"events": [ev]}):
        if not any(e.kind == "raise" and e.data.get("from_call") for e in p.effects):
            continue
        n += 1
        v = p.heap.get("state.outputs", {}).get(D) if isinstance(p.heap.get("state.outputs"), dict) else None
        if p.exit[0] == "return" and v is not None:
            ctx.violation(rid, fi.qual, loc(fi), "an undecodable payload is not a delivered output",
                          f"decoding the fetched payload of the requested output D fails, yet notify returns with outputs[D] = {vkey(v)[:100]}: the purge guard and the "
                          f"end-of-run check take any non-None entry for the delivered value, so D is dropped on its hosts and the caller receives a placeholder "
                          f"instead of the value the task produced")
        else:
            ctx.ok(rid, loc(fi), f"decoding failure -> notify {p.exit[0]}s, output still undelivered")
    ctx.floor(rid + ".paths", n, 1)


RULES.append(r8_undecodable_output)


def r9_transfer_on_behalf_of_consumer(ctx):
    """C04.R9: the purge guard knows two reasons to keep a dataset: a consumer that has not completed, and a requested value that has not
    arrived.  A transfer is safe from a concurrent purge of its source only because it is commanded on behalf of such a consumer (the
    preparation list of an assignment: the consumer cannot complete before the copy arrived), a fetch only because it is commanded for a
    queued requested output.  Therefore: every `Bridge.transmit` call site of the controller / scheduler lies in `act` (or a helper split off
    it) and ships a dataset of the assignment's preparation list; every `Bridge.fetch` site lies in `flush_queues` (or a helper of it).  A
    transfer commanded for any other reason is still unanswered when its source copy is dropped."""
    from .common import helper_of
    repo = ctx.repo
    ACTQ, FLQ = f"{ACT}.act", f"{ACT}.flush_queues"
    n = 0
    for fi in repo.all_funcs():
        if not fi.module.name.startswith(("cascade.controller", "cascade.scheduler")) or isinstance(fi.node, ast.Lambda):
            continue
        for node in walk_scope(fi.node):
            if isinstance(node, ast.Call) and isinstance(node.func, ast.Attribute) and node.func.attr in ("transmit", "fetch") \
                    and not (isinstance(node.func.value, ast.Name) and node.func.value.id in ("self", "cls")):
                recv = ast.unparse(node.func.value)
                if "bridge" not in recv.lower():
                    continue
                n += 1
                home = ACTQ if node.func.attr == "transmit" else FLQ
                if fi.qual == home or helper_of(repo, fi.qual, {home}):
                    ctx.ok("C04.R9", loc(fi, node), f"{node.func.attr} commanded in {home.rsplit('.', 1)[-1]}")
                else:
                    ctx.violation("C04.R9", fi.qual, loc(fi, node), f"{node.func.attr} commanded on behalf of a pending consumer / queued output",
                                  f"{fi.qual} commands a {node.func.attr} outside {home.rsplit('.', 1)[-1]}: it is tied neither to an assignment's consumer nor to a queued requested "
                                  f"output, the only two things the purge guard waits for — when the dataset's consumers finish first, the source copy is dropped while this "
                                  f"{node.func.attr} is still unanswered")
    ctx.floor("C04.R9.sites", n, 2)
    # provenance in act: what is shipped is the assignment's preparation list, to the assignment's host
    fa = repo.func(ACTQ)
    ctx.analysed(fa.qual)
    D, D2 = ds("D", "P"), ds("D2", "P2")
    H1, H2 = Atom("H1"), Atom("H2")
    W = worker(H1)
    from .common import model_elem
    prep = [model_elem(repo, "cascade.scheduler.core.Assignment", "prep", (D, H2)), model_elem(repo, "cascade.scheduler.core.Assignment", "prep", (D2, H1))]
    _ci, _ann = repo.field_ann("cascade.scheduler.core.Assignment", "prep")
    if _ann is not None and ast.unparse(_ann).startswith(("dict", "Dict")):
        prep = {D: H2, D2: H1}
    asg = Obj("cascade.scheduler.core.Assignment", {"worker": W, "tasks": ["t"], "prep": prep, "outputs": set()}, name="ASSIGNMENT")
    for p in Interp(repo).explore(fa, args={"assignment": asg}):
        if p.exit[0] != "return":
            continue
        tr = [e for e in p.effects if e.kind == "call" and e.data.get("method") == "transmit"]
        got = [(vkey(e.data["args"][0]), vkey(e.data["args"][1]), vkey(e.data["args"][2])) for e in tr if len(e.data["args"]) >= 3]
        if got != [(vkey(D), vkey(H2), vkey(H1))]:
            ctx.violation("C04.R9", fa.qual, loc(fa), "act ships the assignment's preparation list",
                          f"assignment on H1 with preparation [(D from H2), (D2 from H1 itself)]: act commands transfers {got}; expected exactly (D, H2 -> H1)")
        else:
            ctx.ok("C04.R9", loc(fa), "act: one transfer per remote preparation entry, from its recorded source to the assignment's host")


RULES.append(r9_transfer_on_behalf_of_consumer)
RULES.append(r10_single_fetch)
RULES.append(lazy("C03", "r8_initial_state_owned", "the purge tracker must be a private copy: consumers removed during one run would be missing when the same preschedule is used again, and their inputs purged while they are still to run"))
