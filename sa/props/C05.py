"""C05 — a failing task or dying worker-side process fails the run, never hangs it; nothing left behind (structural clauses)."""
from __future__ import annotations

import ast

from ..interp import Interp
from ..lib import is_call, loc, unparse
from ..repo import walk_scope
from ..terms import App, Atom, Obj, Sym, vkey
from .common import ds, worker
from .C03 import r1_shutdown_postdominates
from .shm import r_purge

EX = "cascade.executor.executor.Executor"
BR = "cascade.executor.bridge.Bridge"
MSG = "cascade.executor.msg."
META = {
    "explanation": "Static structural analysis of the failure-reporting chain: no exception object is built and dropped; the executor's health "
                   "check raises for every exited child (any exit code, killed, or missing handle) and for none that is alive; every exception in "
                   "the executor loop is reported as ExecutorFailure and followed by terminate(); every failure message class shuts the controller "
                   "down with an error; a task exception of any kind becomes a TaskFailure; failure messages from children are forwarded; "
                   "terminate() stops workers, shm server and data server even if an earlier step fails and is idempotent; the shm server purges "
                   "all segments at exit (also those with a registered reader); controller shutdown in finally. "
                   "Later rules: the bridge forgets a host only on that executor's own exit / failure, the shm server's shutdown command ends its loop whatever the store holds, atexit continues after a vanished segment, a generator task with a count mismatch fails. Not decided: bounded-time termination, process table and /dev/shm after a crash at an arbitrary instant.",
    "assumptions": ["process handles, sockets and shm client are opaque; one exception source per explored path"],
}


def r1_raise_not_discard(ctx):
    repo = ctx.repo
    n = 0
    for fi in repo.all_funcs():
        if isinstance(fi.node, ast.Lambda):
            continue
        for node in walk_scope(fi.node):
            if isinstance(node, ast.Expr) and isinstance(node.value, ast.Call) and isinstance(node.value.func, ast.Name):
                nm = node.value.func.id
                q = repo.resolve_name(fi.module, nm)
                is_exc = (q is None and nm.endswith(("Error", "Exception")) and hasattr(__import__("builtins"), nm)) or \
                         (q in repo.classes and any(b.endswith(("Error", "Exception")) for b in repo.class_mro(q)[1:]))
                n += 1
                if is_exc:
                    ctx.violation("C05.R1", fi.qual, loc(fi, node), f"discarded {unparse(node.value)[:60]}",
                                  f"{fi.qual} builds {nm}(...) and drops it (missing `raise`): the failure it describes is never reported")
    ctx.evals(n)
    ctx.ok("C05.R1", "src/", f"no exception object is built and discarded ({n} call statements scanned)")


def _proc(code, name):
    return Obj("multiprocessing.process.BaseProcess", {"exitcode": code, "pid": 1}, name=name)


def r2_healthcheck(ctx):
    repo = ctx.repo
    fi = repo.func(f"{EX}.healthcheck")
    ctx.analysed(fi.qual)
    W1, W2 = worker("H1", "w0"), worker("H1", "w1")
    table = []
    for child in ("worker", "shm server", "data server"):
        for code in ("alive", 0, 1, -9, "no handle"):
            if code == "no handle" and child != "worker":
                continue
            c = None if code == "alive" else code
            ws = {W1: _proc(None, "p1"), W2: (None if code == "no handle" else _proc(c if child == "worker" else None, "p2"))}
            env = {"self.workers": ws, "self.shm_process": _proc(c if child == "shm server" else None, "shm"),
                   "self.data_server": _proc(c if child == "data server" else None, "dsrv")}
            paths = Interp(repo).explore(fi, env=env)
            ctx.evals(len(paths))
            raised = {p.exit[0] == "raise" for p in paths}
            want = code != "alive"
            atoms = {"child": child, "exitcode": code}
            table.append({**atoms, "raises": sorted(raised), "spec": want})
            if raised != {want}:
                ctx.violation("C05.R2", fi.qual, loc(fi), "dead child detected",
                              f"{atoms}: healthcheck {'raises' if True in raised else 'does not raise'}"
                              f"{' on some paths only' if len(raised) > 1 else ''}; it must {'raise (the check only runs while the executor is not terminating, so an exited child — whatever its exit code — is a lost child and the run would hang)' if want else 'stay silent for a live child'}", row=atoms)
            else:
                ctx.ok("C05.R2", loc(fi), f"healthcheck | {atoms} -> raises={want}")
    ctx.table("C05.R2", table)


def r3_r6_executor_loop(ctx):
    repo = ctx.repo
    fi = repo.func(f"{EX}.recv_loop")
    ctx.analysed(fi.qual)
    # (a) exception anywhere in an iteration -> ExecutorFailure + terminate
    risky = ("healthcheck", "recv_messages", "maybe_retry")
    ip = Interp(repo, max_while=1, call_models={}, raising=lambda d: d["name"].rsplit(".", 1)[-1] in risky)
    paths = ip.explore(fi, env={"self.terminating": False, "self.workers": {}})
    ctx.evals(len(paths))
    nexc = 0
    for p in paths:
        src = [e for e in p.effects if e.kind == "raise" and e.data.get("from_call")]
        if not src:
            hc = [e for e in p.effects if is_call(e, qual=f"{EX}.healthcheck")]
            entered = any(e.kind == "loop_iter" and isinstance(e.node, ast.While) for e in p.effects)
            if entered and not hc and not any(e.kind == "raise" for e in p.effects):
                ctx.violation("C05.R3", fi.qual, loc(fi), "health check every iteration", "a loop iteration of a non-terminating executor completes without healthcheck()")
            continue
        nexc += 1
        tc = [e for e in p.effects if is_call(e, qual=f"{EX}.to_controller") and e.seq > src[0].seq and e.data["args"]
              and isinstance(e.data["args"][0], Obj) and e.data["args"][0].cls == MSG + "ExecutorFailure"]
        tm = [e for e in p.effects if is_call(e, qual=f"{EX}.terminate") and e.seq > src[0].seq]
        if not tc or not tm or tm[0].seq < tc[0].seq:
            ctx.violation("C05.R3", fi.qual, loc(fi), "failure reported then terminate",
                          f"an exception raised by {src[0].data['from_call'].rsplit('.', 1)[-1]} inside the executor loop is not followed by "
                          f"to_controller(ExecutorFailure) and then terminate() (found report x{len(tc)}, terminate x{len(tm)}): the controller waits for ever")
        else:
            ctx.ok("C05.R3", loc(fi), f"exception from {src[0].data['from_call'].rsplit('.', 1)[-1]} -> ExecutorFailure reported, then terminate")
    ctx.floor("C05.R3.exception_paths", nexc, 2)
    # (b) failure messages from children are forwarded
    for cls, fields in (("TaskFailure", {"worker": worker("H1"), "task": "t", "detail": "x"}), ("DatasetTransmitFailure", {"host": "H1", "detail": "x"})):
        m = Obj(MSG + cls, fields, name=f"m-{cls}")
        sent = []
        ip = Interp(repo, max_while=1, call_models={"cascade.executor.comms.Listener.recv_messages": lambda run, a, k, n, f, _m=m: [_m] if not getattr(run, 'model_sent', False) and not setattr(run, 'model_sent', True) else []})
        paths = ip.explore(fi, env={"self.terminating": False, "self.workers": {}, "self.datasets": set()})
        ctx.evals(len(paths))
        fw = any(is_call(e, qual=f"{EX}.to_controller") and e.data["args"] and getattr(e.data["args"][0], "name", "") == m.name for p in paths for e in p.effects)
        if not fw:
            ctx.violation("C05.R6", fi.qual, loc(fi), f"{cls} forwarded", f"a {cls} arriving at the executor is not forwarded to the controller: the run would not fail")
        else:
            ctx.ok("C05.R6", loc(fi), f"{cls} forwarded to the controller")


def r4_bridge_failures(ctx):
    repo = ctx.repo
    fi = repo.func(f"{BR}.recv_events")
    ctx.analysed(fi.qual)
    m = repo.module("cascade.executor.bridge")
    # the messages that must end the run: every failure class of the protocol (behavioural check below; no reliance on how the bridge
    # groups them — alias, tuple, match statement)
    members = set()
    fail_classes = [q for q, ci in repo.classes.items() if ci.module.name == "cascade.executor.msg" and (ci.name.endswith("Failure") or ci.name == "ExecutorExit")]
    ctx.floor("C05.R4.failure_classes", len(fail_classes), 4)
    for q in sorted(members | set(fail_classes)):
        nm = q.rsplit(".", 1)[-1]
        msg = Obj(q, {"host": "H1", "worker": worker("H1"), "detail": "d", "task": "t"}, name=f"m-{nm}")
        sent = []
        ip = Interp(repo, max_while=3, max_iter=0, call_models={
            "cascade.executor.comms.Listener.recv_messages": lambda run, a, k, n, f, _m=msg: [_m] if not getattr(run, 'model_sent', False) and not setattr(run, 'model_sent', True) else []})
        from ..evalx import AnyKeyDict
        from .common import host_entry as _he
        env = {"self.heartbeat_checker": AnyKeyDict(True, Obj("cascade.executor.comms.GraceWatcher", {}, name="gw"), "heartbeat_checker"),
               "self.sender.hosts": {"H1": _he(repo, "s", "a"), "data.H1": _he(repo, "s", "a"), "H10": _he(repo, "s", "b"), "data.H10": _he(repo, "s", "b")}}
        paths = ip.explore(fi, env=env)
        ctx.evals(len(paths))
        for p in paths:
            sh = [e for e in p.effects if is_call(e, qual=f"{BR}.shutdown")]
            left = sorted(p.heap.get("self.sender.hosts", {}).keys()) if isinstance(p.heap.get("self.sender.hosts"), dict) else None
            if nm in ("ExecutorExit", "ExecutorFailure") and left is not None and left != ["H10", "data.H10"]:
                ctx.violation("C05.R4", fi.qual, loc(fi), f"{nm} forgets exactly that host",
                              f"hosts H1 and H10 registered, {nm} of H1 received: channels still known afterwards {left}; expected ['H10', 'data.H10'] — a host that is "
                              f"forgotten by mistake never gets the shutdown command and stays behind with its workers and segments; a host that is not forgotten is waited for")
                continue
            if nm not in ("ExecutorExit", "ExecutorFailure") and left is not None and left != ["H1", "H10", "data.H1", "data.H10"]:
                ctx.violation("C05.R4", fi.qual, loc(fi), f"{nm} forgets no host",
                              f"hosts H1 and H10 registered, {nm} (reported from H1, whose executor is alive) received: channels still known afterwards {left}; "
                              f"only an executor's own exit / failure may drop it — a live executor that is forgotten never gets the shutdown command and stays "
                              f"behind with its workers, shm server and segments")
                continue
            spin = [e for e in p.effects if e.kind == "loop_exit" and e.data.get("bound")]
            if spin or p.exit[0] == "trunc":
                ctx.violation("C05.R4", fi.qual, loc(fi), f"{nm} ends the wait",
                              f"after a {nm} message (and nothing else to receive) recv_events keeps waiting: its receive loop is still running after "
                              f"{ip.opts.max_while} further empty polls — the failure is never turned into a shutdown and the run hangs")
            elif p.exit[0] != "raise" or not sh:
                ctx.violation("C05.R4", fi.qual, loc(fi), f"{nm} fails the run",
                              f"a {nm} message ends recv_events with {p.exit[0]} and {len(sh)} shutdown call(s); it must shut the executors down and raise")
            else:
                ctx.ok("C05.R4", loc(fi), f"{nm} -> shutdown + raise")
    # a failure arriving in the same batch as an event must still fail the run
    from ..evalx import AnyKeyDict as _AKD
    pub = Obj(MSG + "DatasetPublished", {"origin": worker("H1"), "ds": ds("D", "T"), "transmit_idx": None}, name="PUB")
    tf = Obj(MSG + "TaskFailure", {"worker": worker("H1"), "task": "t", "detail": "d"}, name="TF")
    for batch in ([pub, tf], [tf, pub]):
        ip = Interp(repo, max_while=2, max_iter=0, call_models={
            "cascade.executor.comms.Listener.recv_messages": lambda run, a, k, n, f, _b=batch: list(_b) if not getattr(run, 'model_sent', False) and not setattr(run, 'model_sent', True) else []})
        env = {"self.heartbeat_checker": _AKD(True, Obj("cascade.executor.comms.GraceWatcher", {}, name="gw"), "heartbeat_checker"), "self.sender.hosts": {}}
        for p in ip.explore(fi, env=env):
            sh = [e for e in p.effects if is_call(e, qual=f"{BR}.shutdown")]
            if p.exit[0] != "raise" or not sh or any(e.kind == "loop_exit" and e.data.get("bound") for e in p.effects):
                ctx.violation("C05.R4", fi.qual, loc(fi), "failure in the same batch as an event",
                              f"messages {[m.name for m in batch]} drained in one batch: recv_events ends with {p.exit[0]} and {len(sh)} shutdown call(s); the failure was acknowledged "
                              f"to its sender and is forgotten here, so the controller waits for ever for a task that failed")
            else:
                ctx.ok("C05.R4", loc(fi), f"batch {[m.name for m in batch]} -> shutdown + raise")
    # exception inside the loop -> same
    ip = Interp(repo, max_while=1, raising=lambda d: d["name"].endswith("recv_messages"))
    for p in ip.explore(fi):
        if any(e.kind == "raise" and e.data.get("from_call") for e in p.effects):
            sh = [e for e in p.effects if is_call(e, qual=f"{BR}.shutdown")]
            if p.exit[0] != "raise" or not sh:
                ctx.violation("C05.R4", fi.qual, loc(fi), "exception in receive loop", "an exception while receiving does not lead to shutdown + raise")
            else:
                ctx.ok("C05.R4", loc(fi), "exception in the receive loop -> shutdown + raise")


def r5_task_failure(ctx):
    repo = ctx.repo
    fi = repo.func("cascade.executor.runner.entrypoint.execute_sequence")
    ctx.analysed(fi.qual)
    risky = ("project", "extend", "run", "flush")
    ip = Interp(repo, max_iter=1, raising=lambda d: d["name"].rsplit(".", 1)[-1] in risky)
    paths = ip.explore(fi)
    ctx.evals(len(paths))
    seen = set()
    for p in paths:
        src = [e for e in p.effects if e.kind == "raise" and e.data.get("from_call")]
        if not src:
            continue
        who = src[0].data["from_call"].rsplit(".", 1)[-1]
        seen.add(who)
        cb = [e for e in p.effects if is_call(e, qual="cascade.executor.comms.callback") and e.seq > src[0].seq and len(e.data["args"]) > 1
              and isinstance(e.data["args"][1], Obj) and e.data["args"][1].cls == MSG + "TaskFailure"]
        if p.exit[0] != "return" or len(cb) != 1:
            ctx.violation("C05.R5", fi.qual, loc(fi), f"exception in {who} reported",
                          f"an exception (of any class) raised by {who}() leaves execute_sequence with {p.exit[0]} and {len(cb)} TaskFailure report(s): "
                          f"it must be caught and reported as TaskFailure, else the worker dies silently / the controller is never told")
        else:
            tf = cb[0].data["args"][1]
            if vkey(tf.fields.get("worker")) != "taskSequence.worker" or vkey(cb[0].data["args"][0]) != "runnerContext.callback":
                ctx.violation("C05.R5", fi.qual, loc(fi), "TaskFailure content", f"TaskFailure names worker {vkey(tf.fields.get('worker'))}, sent to {vkey(cb[0].data['args'][0])}")
            else:
                ctx.ok("C05.R5", loc(fi), f"exception in {who}() -> TaskFailure(worker of the sequence) to the executor")
    ctx.floor("C05.R5.sources", len(seen), 4)


def r7_teardown(ctx):
    repo = ctx.repo
    fi = repo.func(f"{EX}.terminate")
    ctx.analysed(fi.qual)
    W1, W2 = worker("H1", "w0"), worker("H1", "w1")
    P1 = _proc(None, "p1")
    base = {"self.workers": {W1: P1, W2: None}, "self.shm_process": _proc(None, "shm"), "self.data_server": _proc(None, "dsrv")}
    paths = Interp(repo).explore(fi, env={**base, "self.terminating": True})
    if any(e.kind == "call" and e.data.get("method") in ("join", "kill") for p in paths for e in p.effects):
        ctx.violation("C05.R7", fi.qual, loc(fi), "terminate idempotent", "a second terminate() repeats the teardown")
    else:
        ctx.ok("C05.R7", loc(fi), "terminate() is a no-op once terminating")
    risky = ("callback", "join", "shutdown")
    ip = Interp(repo, raising=lambda d: d["name"].rsplit(".", 1)[-1] in risky, inline={"cascade.executor.runner.entrypoint.worker_address"},
                call_models={("method", "is_alive"): lambda *a: True})
    for shm_alive in (True, False):
        for ds_alive in (True, False):
            def alive(run, a, k, n, f, _s=shm_alive, _d=ds_alive):
                who = vkey(run.cur_call.get("recv")) + run.cur_call.get("name", "")
                return _s if "shm" in who else _d
            ip2 = Interp(repo, call_models={("method", "is_alive"): alive})
            for p in ip2.explore(fi, env={**base, "self.terminating": False}):
                sd = [e for e in p.effects if is_call(e, qual="cascade.shm.client.shutdown")]
                kl = [e for e in p.effects if e.kind == "call" and e.data.get("method") == "kill"]
                row = {"shm_server_alive": shm_alive, "data_server_alive": ds_alive}
                if p.exit[0] != "return" or bool(sd) != shm_alive or bool(kl) != ds_alive:
                    ctx.violation("C05.R7", fi.qual, loc(fi), "each helper stopped iff it is alive",
                                  f"{row}: shm shutdown x{len(sd)}, data-server kill x{len(kl)}; each helper process must be stopped exactly when it is still alive, "
                                  f"independently of the other (a data server left running after the shm server died keeps the executor from exiting)", row=row)
                else:
                    ctx.ok("C05.R7", loc(fi), f"teardown | {row}")
    paths = ip.explore(fi, env={**base, "self.terminating": False})
    ctx.evals(len(paths))
    wa = repo.func("cascade.executor.runner.entrypoint.worker_address")
    wps = [q for q in Interp(repo).explore(wa, args={"workerId": W1}) if q.exit[0] == "return"]
    w1_addr = vkey(wps[0].exit[1]) if len(wps) == 1 else "?"
    n = 0
    for p in paths:
        n += 1
        ws = [e for e in p.effects if is_call(e, qual="cascade.executor.comms.callback") and len(e.data["args"]) > 1 and isinstance(e.data["args"][1], Obj)
              and e.data["args"][1].cls == MSG + "WorkerShutdown"]
        shm_sd = [e for e in p.effects if is_call(e, qual="cascade.shm.client.shutdown")]
        kill = [e for e in p.effects if e.kind == "call" and e.data.get("method") == "kill"]
        raised = [e.data["from_call"].rsplit(".", 1)[-1] for e in p.effects if e.kind == "raise" and e.data.get("from_call")]
        if p.exit[0] != "return":
            ctx.violation("C05.R7", fi.qual, loc(fi), "terminate never raises", f"terminate() propagates an exception from {raised}: later teardown steps are skipped")
        elif not raised and (p.heap.get("self.terminating") is not True):
            ctx.violation("C05.R7", fi.qual, loc(fi), "terminate marks itself done",
                          f"after a complete teardown self.terminating is {vkey(p.heap.get('self.terminating'))}: the atexit-registered second call repeats the teardown "
                          f"(and the guard against re-entry from a failing step is gone)")
        elif not raised and (sorted(vkey(e.data["args"][0]) for e in ws) != [w1_addr] or
                             [vkey(e.data.get("recv_value")) for e in p.effects if e.kind == "call" and e.data.get("method") == "join"
                              and getattr(e.data.get("recv_value"), "name", "") in ("p1",)] != ["`p1`"]):
            ctx.violation("C05.R7", fi.qual, loc(fi), "each started worker stopped and joined",
                          f"workers {{w0: started process p1, w1: never started}}: WorkerShutdown sent to {[vkey(e.data['args'][0])[:60] for e in ws]} (expected exactly "
                          f"w0's address {w1_addr[:60]}), joins on {[vkey(e.data.get('recv_value')) for e in p.effects if e.kind == 'call' and e.data.get('method') == 'join']} — a started "
                          f"worker that is not told to stop and joined stays behind as a child process")
        elif not ws or not shm_sd or not kill:
            ctx.violation("C05.R7", fi.qual, loc(fi), "every helper process stopped",
                          f"teardown path (exceptions from {raised or 'none'}): WorkerShutdown x{len(ws)}, shm shutdown x{len(shm_sd)}, data-server kill x{len(kill)} — "
                          f"a failing step must not skip the later ones, else child processes / shm segments are left behind")
        else:
            ctx.ok("C05.R7", loc(fi), f"teardown complete (exceptions from {raised or 'none'})")
    ctx.floor("C05.R7.paths", n, 3)
    init = repo.func(f"{EX}.__init__")
    reg = [c for c in walk_scope(init.node) if isinstance(c, ast.Call) and unparse(c.func) == "atexit.register" and c.args and unparse(c.args[0]) == "self.terminate"]
    if not reg:
        ctx.violation("C05.R7", init.qual, loc(init), "terminate registered at exit", "Executor.__init__ no longer registers terminate with atexit")
    else:
        ctx.ok("C05.R7", loc(init, reg[0]), "terminate registered with atexit before children are started")
    # shm server: atexit after start(), also on exception
    ep = repo.func("cascade.shm.server.entrypoint")
    ctx.analysed(ep.qual)
    paths = Interp(repo, raising=lambda d: d["name"].endswith("LocalServer.start")).explore(ep)
    for p in paths:
        st_ = [e for e in p.effects if is_call(e, qual="cascade.shm.server.LocalServer.start")]
        ax = [e for e in p.effects if is_call(e, qual="cascade.shm.server.LocalServer.atexit")]
        if st_ and (not ax or ax[-1].seq < st_[0].seq):
            ctx.violation("C05.R7", ep.qual, loc(ep), "shm server cleanup", f"the shm server can leave its loop ({p.exit[0]}) without running atexit(): segments stay in /dev/shm")
        elif st_:
            ctx.ok("C05.R7", loc(ep), f"shm server: atexit after the loop ({'exception' if any(e.kind == 'raise' for e in p.effects) else 'normal'} exit)")
    sa = repo.func("cascade.shm.server.LocalServer.atexit")
    if not any(is_call(e, qual="cascade.shm.dataset.Manager.atexit") for p in Interp(repo).explore(sa) for e in p.effects):
        ctx.violation("C05.R7", sa.qual, loc(sa), "manager cleanup", "LocalServer.atexit does not call manager.atexit()")
    else:
        ctx.ok("C05.R7", loc(sa), "LocalServer.atexit -> manager.atexit()")


def r_dead_worker_refused(ctx):
    """a TaskSequence for a worker whose process is gone is refused and reported as ExecutorFailure (rule C02.R9, imported lazily)"""
    from .C02 import r9_executor_routing
    r9_executor_routing(ctx)


RULES = [r1_raise_not_discard, r2_healthcheck, r3_r6_executor_loop, r4_bridge_failures, r5_task_failure, r7_teardown, r_purge,
         r1_shutdown_postdominates, r_dead_worker_refused]

from .common import lazy  # noqa: E402
RULES.append(lazy("C02", "r_message_dedup", "a failure message whose first transmission was lost must still be delivered when it is retried"))

from .shm import r_client_failures  # noqa: E402
RULES.append(r_client_failures)
from .shm import r_server_shutdown  # noqa: E402
RULES.append(r_server_shutdown)
RULES.append(lazy("C10", "r4_r6_outputs", "a generator task yielding fewer or more values than it declares must fail (TaskFailure): its last output is never published otherwise and the controller waits for ever"))


def r8_shutdown_after_a_host_was_forgotten(ctx):
    """C05.R8: `recv_events` forgets an executor that reported its own exit / failure (it is gone from the sender's table) and then calls
    `shutdown`.  History on the real shutdown: hosts H1 and H10 registered, H1 already forgotten by the sender (its heartbeat record may well
    still exist).  The shutdown command must go to exactly the executors the sender still knows — H10 — and the wait must end when H10 has
    confirmed; addressing H1 fails inside the sender (KeyError) before H10 is told anything, and H10 keeps running with its workers and
    segments after the controller is gone."""
    from ..evalx import AnyKeyDict  # noqa: F401
    from .common import host_entry as _he
    repo = ctx.repo
    fi = repo.func(f"{BR}.shutdown")
    ctx.analysed(fi.qual)
    gw = lambda n: Obj("cascade.executor.comms.GraceWatcher", {}, name=n)
    env = {"self.sender.hosts": {"H10": _he(repo, "s", "b"), "data.H10": _he(repo, "s", "b")},
           "self.heartbeat_checker": {"H1": gw("gw1"), "H10": gw("gw10")}}
    ex = Obj(MSG + "ExecutorExit", {"host": "H10"}, name="exit-H10")
    ip = Interp(repo, max_while=3, max_concrete_iter=8, call_models={
        "cascade.executor.comms.Listener.recv_messages": lambda run, a, k, n, f: [ex] if not getattr(run, "model_sent", False) and not setattr(run, "model_sent", True) else [],
        "time.time_ns": lambda run, a, k, n, f: 1})
    n = 0
    for p in ip.explore(fi, env=env):
        n += 1
        sends = [e for e in p.effects if (is_call(e, qual=f"{BR}._send") or (e.kind == "call" and e.data.get("method") == "send" and "sender" in vkey(e.data.get("recv"))))
                 and e.data["args"] and isinstance(e.data["args"][-1], Obj) and e.data["args"][-1].cls == MSG + "ExecutorShutdown"]
        to = sorted({vkey(e.data["args"][0]).strip("'") for e in sends})
        spin = any(e.kind == "loop_exit" and e.data.get("bound") for e in p.effects) or p.exit[0] == "trunc"
        if p.exit[0] != "return" or to != ["H10"] or spin:
            ctx.violation("C05.R8", fi.qual, loc(fi), "shutdown reaches exactly the executors still known",
                          f"H1 reported its failure and was forgotten by the sender, H10 is alive: shutdown addresses {to} and ends with {p.exit[0]}"
                          f"{' (still waiting after H10 confirmed)' if spin else ''}; expected the command to H10 only and a normal return — a command addressed to a host the "
                          f"sender no longer knows fails before the live executors are told to stop")
        else:
            ctx.ok("C05.R8", loc(fi), "shutdown after H1 was forgotten: command to H10 only, wait ends on its confirmation")
    ctx.floor("C05.R8.paths", n, 1)


RULES.append(r8_shutdown_after_a_host_was_forgotten)
