"""C06 — acknowledged messaging delivers each message exactly once despite loss or duplication (structural clauses)."""
from __future__ import annotations

import ast

from ..interp import Interp
from ..lib import is_call, loc
from ..repo import walk_scope
from ..terms import App, Atom, Obj, Sym, vkey
from .common import scan, worker

CM = "cascade.executor.comms"
MSG = "cascade.executor.msg."
BR = "cascade.executor.bridge.Bridge"
EX = "cascade.executor.executor.Executor"
NOW = 10 ** 12
META = {
    "explanation": "Static structural analysis of the acknowledged-send layer on model senders/listeners: send() records the in-flight message "
                   "under the Syn's index with the full retry budget before emitting (syn, raw) and advances the index; ack() removes exactly the "
                   "acknowledged index; maybe_retry() resends exactly the stale records, refreshes and decrements them and raises when the budget "
                   "is exhausted; the listener acknowledges every Syn, drops only an exact (index, sender) repeat, delivers older indices arriving "
                   "late, and accepts exactly the four legal frame sequences; both owners of a ReliableSender route Acks to it and drive retries "
                   "from their receive loops. Not decided: exactly-once over all loss/duplication patterns and timer interleavings.",
    "assumptions": ["zmq sockets and the clock are opaque; message bodies are opaque tokens"],
}


def _syn(idx, addr):
    return Obj(MSG + "Syn", {"idx": idx, "addr": addr}, frozen=True)


def r2_send(ctx):
    repo = ctx.repo
    fi = repo.func(f"{CM}.ReliableSender.send")
    ctx.analysed(fi.qual)
    from .common import host_entry as he
    env = {"self.idx": 5, "self.address": "me", "self.inflight": {}, "self.hosts": {"H": he(repo, Sym("sockH"), "addrH")}}
    ip = Interp(repo, call_models={"time.time_ns": lambda *a: NOW})
    paths = ip.explore(fi, env=env, args={"host": "H", "m": Atom("M")})
    ctx.evals(len(paths))
    for p in paths:
        if p.exit[0] != "return":
            ctx.undecided("C06.R2", loc(fi), f"send raises on the model: {vkey(p.exit[1])[:80]}")
            continue
        infl = p.heap["self.inflight"]
        sm = [e for e in p.effects if e.kind == "call" and e.data.get("method") == "send_multipart"]
        st_ = [e for e in p.effects if e.kind == "store" and (e.data.get("field") or "").endswith("ReliableSender.inflight")]
        sers = [e for e in p.effects if is_call(e, qual="cascade.executor.serde.ser_message")]
        rec = infl.get(5)
        budget = repo.consts.get(f"{CM}.max_retries_per_message")
        budget = ast.literal_eval(budget[1]) if budget else None
        problems = []
        if list(infl.keys()) != [5] or not isinstance(rec, Obj):
            problems.append(f"in-flight table after send(idx 5) = {vkey(infl)[:120]}")
        else:
            f = rec.fields
            if f.get("host") != "H" or f.get("remaining") != budget or f.get("at") != NOW:
                problems.append(f"in-flight record {vkey(f)[:160]} (expected host H, remaining {budget}, at now)")
            if len(sm) != 1 or sm[0].data["args"][:1] != [f.get("message")] or vkey(sm[0].data["recv_ref"] if sm[0].data.get("recv_ref") is not None else sm[0].data["recv"]) .find("sockH") < 0 and "sockH" not in sm[0].data["name"]:
                problems.append("the frames put on the wire are not the recorded (syn, raw) pair on the destination host's socket")
            if st_ and sm and st_[0].seq > sm[0].seq:
                problems.append("the message is emitted before it is recorded as in flight (an immediate Ack would find nothing)")
            msg = f.get("message")
            if not (isinstance(msg, tuple) and len(msg) == 2 and isinstance(msg[0], App) and msg[0].args and isinstance(msg[0].args[0], Obj)
                    and msg[0].args[0].fields == {"idx": 5, "addr": "me"} and isinstance(msg[1], App) and msg[1].args and msg[1].args[0] == Atom and False) and \
               not (isinstance(msg, tuple) and len(msg) == 2 and isinstance(msg[0], App) and msg[0].args and isinstance(msg[0].args[0], Obj)
                    and msg[0].args[0].cls == MSG + "Syn" and msg[0].args[0].fields == {"idx": 5, "addr": "me"} and vkey(msg[1].args[0] if isinstance(msg[1], App) and msg[1].args else None) == "`M`"):
                problems.append(f"frames are {vkey(msg)[:160]}, expected (ser(Syn(idx=5, addr=own address)), ser(message))")
        if p.heap["self.idx"] != 6:
            problems.append(f"sender index after send = {vkey(p.heap['self.idx'])} (expected 6: indices must never be reused)")
        if problems:
            for pr in problems:
                ctx.violation("C06.R2", fi.qual, loc(fi), pr.split(" (")[0][:60], f"ReliableSender.send: {pr}")
        else:
            ctx.ok("C06.R2", loc(fi), "send: recorded under the Syn's index with full budget, then (syn, raw) emitted, index advanced")


def _rec(at, remaining, host="H"):
    return Obj(f"{CM}._InFlightRecord", {"host": host, "message": (b"syn", b"raw"), "clazz": "X", "at": at, "remaining": remaining})


def r2b_index_never_reused(ctx):
    """C06.R2 (index arithmetic): the sender's index grows by exactly one per message at every magnitude — 2**8, 2**16, 2**31, 2**32,
    2**63 boundaries included: the listener remembers every acknowledged (index, sender) for ever, so an index that wraps around is
    acknowledged and dropped as a duplicate although it is a new message."""
    repo = ctx.repo
    fi = repo.func(f"{CM}.ReliableSender.send")
    from .common import host_entry as he
    bad = None
    for idx in (0, 254, 255, 65534, 65535, 2 ** 31 - 1, 2 ** 32 - 1, 2 ** 63 - 1):
        env = {"self.idx": idx, "self.address": "me", "self.inflight": {}, "self.hosts": {"H": he(repo, Sym("sockH"), "addrH")}}
        for p in Interp(repo, call_models={"time.time_ns": lambda *a: NOW}).explore(fi, env=env, args={"host": "H", "m": Atom("M")}):
            ctx.evals(1)
            if p.exit[0] == "return" and (p.heap.get("self.idx") != idx + 1 or list(p.heap.get("self.inflight", {}).keys()) != [idx]):
                bad = (idx, p.heap.get("self.idx"), list(p.heap.get("self.inflight", {}).keys()))
    if bad:
        ctx.violation("C06.R2", fi.qual, loc(fi), "index grows by one at every magnitude",
                      f"send with index {bad[0]}: recorded under {bad[2]}, next index {vkey(bad[1])} (expected {bad[0] + 1}) — a wrapped index collides with one the "
                      f"receiver has already acknowledged; the new message is acknowledged, dropped, and never delivered")
    else:
        ctx.ok("C06.R2", loc(fi), "sender index: +1 per message at every magnitude (no wrap-around)")


def r3_retry_and_ack(ctx):
    repo = ctx.repo
    fi = repo.func(f"{CM}.ReliableSender.maybe_retry")
    ctx.analysed(fi.qual)
    ip = Interp(repo, call_models={"time.time_ns": lambda *a: NOW})
    for remaining in (3, 1):
        for host_known in (True, False):
            env = {"self.resend_grace": 100, "self.inflight": {1: _rec(NOW - 1000, remaining), 2: _rec(NOW - 10, 7)},
                   "self.hosts": {"H": __import__("sa.props.common", fromlist=["host_entry"]).host_entry(repo, Sym("sockH"), "a")} if host_known else {}}
            paths = ip.explore(fi, env=env)
            ctx.evals(len(paths))
            atoms = {"stale_record_remaining": remaining, "host_known": host_known}
            for p in paths:
                infl = p.heap["self.inflight"]
                sm = [e for e in p.effects if e.kind == "call" and e.data.get("method") == "send_multipart"]
                r1, r2 = infl.get(1), infl.get(2)
                if r2 is None or r2.fields["remaining"] != 7 or r2.fields["at"] != NOW - 10:
                    ctx.violation("C06.R3", fi.qual, loc(fi), "fresh record untouched", f"{atoms}: a message still within its grace period was touched/resent", row=atoms)
                    continue
                if not host_known:
                    okk = not sm and p.exit[0] == "return"
                    what = "unknown host (shutdown): nothing sent, no error"
                elif sm and any(vkey(e.data.get("recv_value")) != "sockH" for e in sm):
                    okk = False
                    what = f"the retry goes out on the recorded host's own socket (it is sent on {[vkey(e.data.get('recv_value'))[:40] for e in sm]})"
                elif remaining == 1:
                    okk = len(sm) == 1 and p.exit[0] == "raise"
                    what = "budget exhausted: raise (never drop silently)"
                else:
                    okk = len(sm) == 1 and p.exit[0] == "return" and r1 is not None and r1.fields["remaining"] == remaining - 1 and r1.fields["at"] == NOW \
                        and sm[0].data["args"][:1] == [(b"syn", b"raw")]
                    what = "stale record resent once (same frames), budget decremented, timer refreshed"
                if not okk:
                    ctx.violation("C06.R3", fi.qual, loc(fi), "retry decision",
                                  f"{atoms}: resends={len(sm)}, exit={p.exit[0]}, record afterwards={vkey(r1.fields) if r1 else None}; expected: {what}", row=atoms)
                else:
                    ctx.ok("C06.R3", loc(fi), f"maybe_retry | {atoms} -> {what}")
    ack = repo.func(f"{CM}.ReliableSender.ack")
    ctx.analysed(ack.qual)
    for idx, want in ((4, [3, 5]), (9, [3, 4, 5])):
        paths = Interp(repo).explore(ack, env={"self.inflight": {3: _rec(1, 2), 4: _rec(1, 5), 5: _rec(7, 1, host="H2")}}, args={"idx": idx})
        for p in paths:
            left = sorted(p.heap["self.inflight"].keys())
            others = {k: (r.fields.get("remaining"), r.fields.get("at"), r.fields.get("host")) for k, r in p.heap["self.inflight"].items() if isinstance(r, Obj)}
            touched = {k: v for k, v in others.items() if v != {3: (2, 1, "H"), 4: (5, 1, "H"), 5: (1, 7, "H2")}[k]}
            if p.exit[0] == "return" and left == want and touched:
                ctx.violation("C06.R7", ack.qual, loc(ack), "ack leaves the other in-flight records alone",
                              f"in flight 3 (2 retries left), 4, 5; Ack({idx}) changes the retry budget / timestamp of {touched} (remaining, at, host): the budget is what "
                              f"bounds the retries of a message whose every copy is lost — refilled by unrelated traffic it never runs out, and the sender never raises")
                continue
            if p.exit[0] != "return" or left != want:
                ctx.violation("C06.R7", ack.qual, loc(ack), "ack removes exactly its index",
                              f"in flight {{3,4,5}}, Ack({idx}) leaves {left} (expected {want}): an acknowledgement of one message must not discharge another — "
                              f"the other one was possibly lost and would never be retried nor reported")
            else:
                ctx.ok("C06.R7", loc(ack), f"Ack({idx}) leaves {left}")
    n = 0
    for fi2, node, kind, det in scan().attr_sites("inflight", ("cascade.executor",), owner="cascade.executor.comms.ReliableSender"):
        if kind in ("mutcall", "subdel", "del") and det in ("pop", "clear", "popitem", None):
            n += 1
            if fi2.qual != ack.qual:
                ctx.violation("C06.R7", fi2.qual, loc(fi2, node), "writer of inflight", f"{fi2.qual} removes in-flight records outside ack()")
    ctx.floor("C06.R7.pops", n, 1)
    for fi2, node, kind, det in scan().attr_sites("acked", ("cascade.executor",), owner="cascade.executor.comms.Listener"):
        if kind in ("mutcall", "subdel", "del", "aug") and det not in ("add", "update", "setdefault", None) or kind == "store" and fi2.name != "__init__":
            ctx.violation("C06.R7", fi2.qual, loc(fi2, node), "acked shrinks", f"{fi2.qual} removes/replaces entries of Listener.acked ({kind} {det}): a retry would be delivered twice")


def r7b_acked_container_never_forgets(ctx):
    """C06.R7 (container side): if Listener keeps its acknowledged Syns in a class of the repository (a bounded / LRU / watermark
    structure), no method of that class may remove entries from its own storage: a Syn that was forgotten is delivered again when its
    retry arrives (capacity constants only decide how much traffic it takes)."""
    from ..calls import MUTATORS
    repo = ctx.repo
    a0 = _initial_acked(repo)
    if not (isinstance(a0, Obj) and a0.cls in repo.classes):
        ctx.ok("C06.R7", loc(repo.func(f"{CM}.Listener.__init__")), f"Listener.acked is a plain {type(a0).__name__}: the writer scan covers it")
        return
    ci = repo.classes[a0.cls]
    shrink = {"pop", "popitem", "remove", "discard", "clear", "popleft", "difference_update", "intersection_update"}
    bad = None
    for mname, mfi in ci.methods.items():
        ctx.analysed(mfi.qual)
        for node in walk_scope(mfi.node):
            if isinstance(node, ast.Call) and isinstance(node.func, ast.Attribute) and node.func.attr in shrink and isinstance(node.func.value, ast.Attribute) \
                    and isinstance(node.func.value.value, ast.Name) and node.func.value.value.id == "self":
                bad = (mfi, node, f"self.{node.func.value.attr}.{node.func.attr}(...)")
            elif isinstance(node, ast.Delete) and any(isinstance(t, ast.Subscript) for t in node.targets):
                bad = (mfi, node, "del self.<storage>[...]")
            elif isinstance(node, ast.Assign) and mname != "__init__" and any(isinstance(t, ast.Attribute) and isinstance(t.value, ast.Name) and t.value.id == "self"
                                                                              for t in node.targets):
                bad = bad or None  # re-binding a field is judged by the history test
        if bad:
            break
    if bad:
        ctx.violation("C06.R7", bad[0].qual, loc(bad[0], bad[1]), "acknowledged Syns are never forgotten",
                      f"Listener.acked is a {ci.name}; {bad[0].qual} removes entries from its storage ({bad[2]}): once a Syn has been evicted its retry is acknowledged "
                      f"and delivered to the application a second time")
    else:
        ctx.ok("C06.R7", f"{ci.module.path}:{ci.node.lineno}", f"Listener.acked is a {ci.name} whose methods never remove entries")


def _listener_models(frames_by_call, msgs, now=0):
    calls = {"n": 0}

    def poll(run, a, k, n, f):
        return [(Sym("sock"), 1)]

    def recv(run, a, k, n, f):
        calls["n"] += 1
        return list(frames_by_call)

    def des(run, a, k, n, f):
        return msgs.get(a[0], Atom(f"other:{a[0]}"))
    clock = {k: (lambda run, a, kw, n, f, _t=now: _t) for k in ("time.time_ns", "time.monotonic_ns")}
    clock.update({k: (lambda run, a, kw, n, f, _t=now: _t / 1e9) for k in ("time.time", "time.monotonic")})
    return {"self.poller.poll": poll, "sock.recv_multipart": recv, "cascade.executor.serde.des_message": des, **clock}


def _initial_acked(repo):
    init = repo.func(f"{CM}.Listener.__init__")
    ps = Interp(repo).explore(init)
    for p in ps:
        if "self.acked" in p.heap:
            return p.heap["self.acked"]
    return None


def _initial_listener_state(repo):
    """The listener's own bookkeeping as `Listener.__init__` leaves it: every `self.*` entry holding a concrete container or a repository
    object (whatever it is called and however many there are) — the duplicate detection is observed through deliveries, not through it."""
    init = repo.func(f"{CM}.Listener.__init__")
    for p in Interp(repo).explore(init):
        if p.exit[0] != "return":
            continue
        st0 = {k: v for k, v in p.heap.items() if k.startswith("self.") and
               (isinstance(v, (set, dict, list)) or (isinstance(v, Obj) and v.cls in repo.classes))}
        if st0:
            return st0
    return None


def r4_r5_listener(ctx):
    repo = ctx.repo
    fi = repo.func(f"{CM}.Listener._recv_one")
    ctx.analysed(fi.qual)
    state0 = _initial_listener_state(repo)
    if state0 is None:
        ctx.undecided("C06.R4", loc(fi), "cannot evaluate the bookkeeping Listener.__init__ sets up")
        return
    A, B = "addrA", "addrB"
    hdr = Obj(MSG + "DatasetTransmitPayloadHeader", {"confirm_address": "c", "confirm_idx": 1, "ds": Atom("D"), "deser_fun": "f"}, frozen=True)
    other = Obj(MSG + "DatasetPurge", {"ds": Atom("D")}, frozen=True)
    msgs = {b"S": _syn(5, A), b"S2": _syn(6, A), b"H": hdr, b"O": other, b"X": Obj(MSG + "Ack", {"idx": 1}, frozen=True)}
    grammar = [([], "raise"), ([b"O"], "msg"), ([b"O", b"X"], "raise"), ([b"H", b"V"], "payload1"), ([b"H"], "raise"), ([b"H", b"V", b"X"], "raise"),
               ([b"S"], "raise"), ([b"S", b"O"], "msg"), ([b"S", b"O", b"X"], "raise"), ([b"S", b"H", b"V"], "payload2"), ([b"S", b"H"], "raise"),
               ([b"S", b"H", b"V", b"X"], "raise"), ([b"S", b"S2"], "raise"),
               # a dataset whose serialised form is empty is a legitimate payload: an empty frame is a value, not a delimiter
               ([b"H", b""], "payload1"), ([b"S", b"H", b""], "payload2")]
    table = []
    for frames, want in grammar:
        ip = Interp(repo, call_models=_listener_models(frames, msgs))
        paths = ip.explore(fi, env=dict(state0), args={"timeout_ms": 10})
        ctx.evals(len(paths))
        if len(paths) != 1:
            ctx.undecided("C06.R5", loc(fi), f"frame sequence {frames}: {len(paths)} paths ({paths[0].cond_text()[:120]})")
            continue
        p = paths[0]
        rv = p.exit[1] if p.exit[0] == "return" else None
        if p.exit[0] == "raise":
            got = "raise"
        elif isinstance(rv, Obj) and rv.cls == MSG + "DatasetTransmitPayload":
            k = 1 if frames[0] == b"H" else 2
            got = f"payload{k}" if rv.fields.get("header") == hdr and rv.fields.get("value") == frames[-1] else f"bad-payload {vkey(rv.fields)[:80]}"
        elif rv == other:
            got = "msg"
        else:
            got = f"{p.exit[0]}:{vkey(rv)[:60]}"
        table.append({"frames": [f.decode() for f in frames], "outcome": got, "spec": want})
        acks = [e for e in p.effects if is_call(e, qual=f"{CM}.callback") and len(e.data["args"]) > 1 and isinstance(e.data["args"][1], Obj) and e.data["args"][1].cls == MSG + "Ack"]
        if got != want:
            ctx.violation("C06.R5", fi.qual, loc(fi), "frame grammar",
                          f"frames {[f.decode() for f in frames]} (S=Syn, H=payload header, V=value, O/X=other message): outcome {got}, must be {want} — "
                          f"a malformed sequence must be rejected, a well-formed one delivered as exactly that message")
        elif frames and frames[0] == b"S" and not (len(acks) == 1 and acks[0].data["args"][0] == A and acks[0].data["args"][1].fields == {"idx": 5}):
            ctx.violation("C06.R4", fi.qual, loc(fi), "every Syn acknowledged", f"frames {[f.decode() for f in frames]}: Ack(idx=5) to the Syn's return address sent {len(acks)} time(s)")
        elif frames and frames[0] != b"S" and acks:
            ctx.violation("C06.R4", fi.qual, loc(fi), "ack only for Syn", f"frames {[f.decode() for f in frames]}: an Ack is sent although no Syn was received")
        else:
            ctx.ok("C06.R5", loc(fi), f"frames {[f.decode() for f in frames]} -> {want}")
    ctx.table("C06.R5", table)
    # duplicate detection over a history (representation independent): 5/A, then the late 4/A, then 5/A again, then 5/B
    history = [((5, A), "deliver"), ((4, A), "deliver"), ((5, A), "drop"), ((5, B), "deliver"), ((4, A), "drop")]
    heap = dict(state0)
    for step, ((idx, addr), want) in enumerate(history):
        s = _syn(idx, addr)
        # messages arrive 20 s apart: a retry is a retry however late it comes (the sender retries for >= 16 s)
        ip = Interp(repo, call_models=_listener_models([b"S", b"O"], {b"S": s, b"O": other}, now=10 ** 12 + step * 20 * 10 ** 9))
        paths = ip.explore(fi, env=heap, args={"timeout_ms": 0})
        ctx.evals(len(paths))
        if len(paths) != 1:
            ctx.undecided("C06.R4", loc(fi), f"duplicate test not decidable for Syn({idx},{addr}): {len(paths)} paths: {paths[0].cond_text()[:160]}")
            return
        p = paths[0]
        acks = [e for e in p.effects if is_call(e, qual=f"{CM}.callback") and len(e.data["args"]) > 1 and isinstance(e.data["args"][1], Obj)
                and e.data["args"][1].cls == MSG + "Ack" and e.data["args"][1].fields == {"idx": idx} and e.data["args"][0] == addr]
        got = "deliver" if (p.exit[0] == "return" and p.exit[1] == other) else "drop" if (p.exit[0] == "return" and p.exit[1] is None) else p.exit[0]
        hist = f"history (20 s apart) 5/A, 4/A (late), 5/A (retry), 5/B (other sender), 4/A (retry); at Syn(idx={idx}, sender={addr})"
        if got != want:
            ctx.violation("C06.R4", fi.qual, loc(fi), "duplicate detection",
                          f"{hist}: message is {got}, must be {want} — only an exact repeat of (index, sender) is a retry; an older index arriving late "
                          f"(its first copy was lost) or the same index from another sender is a new message. It is acknowledged, so dropping it loses it for ever")
            return
        if len(acks) != 1:
            ctx.violation("C06.R4", fi.qual, loc(fi), "ack for retries too", f"{hist}: {len(acks)} Acks sent (every Syn, also a repeated one, must be acknowledged exactly once)")
            return
        ctx.ok("C06.R4", loc(fi), f"Syn(idx={idx}, sender={addr}) -> {want}, acknowledged")
        heap = {k: p.heap[k] for k in state0 if k in p.heap}


def r6_frames(ctx):
    repo = ctx.repo
    sd = repo.func(f"{CM}.send_data")
    ctx.analysed(sd.qual)
    for p in Interp(repo).explore(sd):
        sm = [e for e in p.effects if e.kind == "call" and e.data.get("method") == "send_multipart"]
        fr = sm[0].data["args"][0] if sm and sm[0].data["args"] else None
        good = isinstance(fr, tuple) and len(fr) == 3 and isinstance(fr[0], App) and fr[0].fname.endswith("ser_message") and vkey(fr[0].args[0]) == "syn" \
            and isinstance(fr[1], App) and fr[1].fname in ("pickle.dumps", "cascade.executor.serde.ser_message") and vkey(fr[1].args[0]) == "data.header" \
            and vkey(fr[2]) == "data.value"
        if not good:
            ctx.violation("C06.R6", sd.qual, loc(sd), "payload frames", f"send_data emits {vkey(fr)[:160]}; the listener decodes (message-pickled Syn, pickled header, raw value)")
        else:
            ctx.ok("C06.R6", loc(sd), "send_data frames = (ser(syn), pickle(header), raw value) as the listener decodes them")
    cb = repo.func(f"{CM}.callback")
    for p in Interp(repo).explore(cb):
        s = [e for e in p.effects if e.kind == "call" and e.data.get("method") == "send"]
        if not (s and isinstance(s[0].data["args"][0], App) and s[0].data["args"][0].fname.endswith("ser_message") and vkey(s[0].data["args"][0].args[0]) == "msg"):
            ctx.violation("C06.R6", cb.qual, loc(cb), "callback frame", "callback() does not send ser_message(msg) as a single frame")
        else:
            ctx.ok("C06.R6", loc(cb), "callback: single frame ser_message(msg)")


def _loop_check(ctx, repo, qual, env, what, known_ok=True, max_while=2):
    """the receive loop of a ReliableSender owner routes Acks to sender.ack and calls maybe_retry on every iteration"""
    fi = repo.func(qual)
    ctx.analysed(fi.qual)
    ack = Obj(MSG + "Ack", {"idx": 3}, frozen=True)
    exit_m = Obj(MSG + "ExecutorExit", {"host": "H1"}, frozen=True)
    script = [[ack], [exit_m], []]
    def recv(run, a, k, nd, f):
        run.model_i = getattr(run, "model_i", 0) + 1
        return list(script[min(run.model_i, len(script)) - 1])
    ip = Interp(repo, max_while=max_while, call_models={f"{CM}.Listener.recv_messages": recv, "time.time_ns": lambda *a: NOW})
    paths = ip.explore(fi, env=env)
    ctx.evals(len(paths))
    res = {"ack": True, "retry": True}
    for p in paths:
        iters = [e for e in p.effects if e.kind == "loop_iter" and isinstance(e.node, ast.While) and e.func == fi.qual]
        if not iters:
            continue
        acks = [e for e in p.effects if is_call(e, qual=f"{CM}.ReliableSender.ack") and e.data["args"][:1] == [3]]
        rt = [e for e in p.effects if is_call(e, qual=f"{CM}.ReliableSender.maybe_retry")]
        later = [e for e in p.effects if e.seq > iters[0].seq and e.kind in ("loop_iter", "loop_exit") and isinstance(e.node, ast.While) and e.func == fi.qual]
        completed = bool(later)  # the first iteration ran to its end (the loop test was evaluated again)
        first_end = later[0].seq if later else 10 ** 9
        if not acks:
            res["ack"] = False
        if completed and not any(iters[0].seq < e.seq < first_end for e in rt):
            res["retry"] = False
    return fi, res


def r1_receive_loops(ctx):
    repo = ctx.repo
    from ..evalx import AnyKeyDict
    hc = AnyKeyDict(True, Obj(f"{CM}.GraceWatcher", {}, name="gw"), "heartbeat_checker")
    from .common import host_entry as he
    hosts = {"H1": he(repo, Sym("s"), "a"), "data.H1": he(repo, Sym("s2"), "b")}
    for qual, env, label in (
        (f"{BR}.recv_events", {"self.heartbeat_checker": hc, "self.sender.hosts": dict(hosts)}, "controller receive loop"),
        (f"{EX}.recv_loop", {"self.terminating": False, "self.workers": {}, "self.datasets": set()}, "executor receive loop"),
        (f"{BR}.shutdown", {"self.sender.hosts": dict(hosts)}, "controller shutdown loop"),
    ):
        fi, res = _loop_check(ctx, repo, qual, env, label)
        if not res["ack"]:
            ctx.violation("C06.R1", fi.qual, loc(fi), "acks routed to the sender",
                          f"{label}: an Ack received here is not passed to sender.ack(idx): the message stays in flight and is resent until the retry budget raises")
        else:
            ctx.ok("C06.R1", loc(fi), f"{label}: Ack -> sender.ack(idx)")
        if not res["retry"]:
            ctx.violation("C06.R1", fi.qual, loc(fi), "retries driven by the loop",
                          f"{label}: an iteration completes without sender.maybe_retry(): a frame lost on the way is never resent and never reported")
        else:
            ctx.ok("C06.R1", loc(fi), f"{label}: maybe_retry() every iteration")
    # every class owning a ReliableSender is covered above
    owners = sorted(q for q, ci in repo.classes.items() if any(a is not None and "ReliableSender" in ast.unparse(a) for a in ci.fields.values()))
    ctx.floor("C06.R1.owners", len(owners), 2)
    for o in owners:
        if o not in (BR, EX):
            ctx.undecided("C06.R1", "-", f"new owner of a ReliableSender: {o} (its receive loop is not covered)")


RULES = [r1_receive_loops, r2_send, r2b_index_never_reused, r3_retry_and_ack, r7b_acked_container_never_forgets, r4_r5_listener, r6_frames]
