"""C07 — a transfer stores the dataset once, byte-identical, and announces it once (structural clauses)."""
from __future__ import annotations

import ast

from ..calls import MUTATORS
from ..interp import Interp, _Raise
from ..lib import is_call, loc, unparse
from ..repo import walk_scope
from ..terms import App, Atom, Attr, BoundMethod, Obj, Sub, Sym, Term, mentions, vkey
from .common import ds
from .C06 import r4_r5_listener, r6_frames
from .C19 import _root

DSV = "cascade.executor.data_server.DataServer"
MSG = "cascade.executor.msg."
SHM = "cascade.shm.client."
NOW = 10 ** 13
META = {
    "explanation": "Static structural analysis of the data server on model commands/payloads: the sender reads the dataset under the shared key "
                   "function, copies its decoder and the command's index into the header, sends the buffer's bytes and always closes the buffer; the "
                   "receiver allocates exactly len(bytes) under the same key with the header's decoder, writes the bytes, closes, then announces "
                   "once with the confirmation index — not at all on a conflict, with a failure report on any other error; payloads for purged datasets "
                   "are discarded; a purge waits for every running future, drops pending confirmations of that dataset, purges and invalidates; the "
                   "retry block resubmits only unconfirmed, unacknowledged, non-purged, idle transfers; pool functions write no server state; the "
                   "listener's duplicate detection (shared with C06). Not decided: exactly-once under loss/duplication, thread schedules, byte equality.",
    "assumptions": ["shm client, thread pool and zmq are opaque; one message per explored iteration"],
}


def _cmd(dsv, idx=7, source="H1", target="H2", name="cmd"):
    return Obj(MSG + "DatasetTransmitCommand", {"source": source, "target": target, "daddress": "dst-addr", "ds": dsv, "idx": idx}, frozen=True)


def _payload(dsv, idx=7):
    h = Obj(MSG + "DatasetTransmitPayloadHeader", {"confirm_address": "src-addr", "confirm_idx": idx, "ds": dsv, "deser_fun": "my.deser"}, frozen=True)
    return Obj(MSG + "DatasetTransmitPayload", {"header": h, "value": b"BYTES"}, frozen=True)


def r1_send_payload(ctx):
    repo = ctx.repo
    fi = repo.func(f"{DSV}.send_payload")
    ctx.analysed(fi.qual)
    D = ds("D", "T")
    env = {"self.host": "H1", "self.daddress": "my-daddr", "self.maddress": "my-maddr", "self.dlistener.address": "my-dl"}
    BUF = Obj(SHM + "AllocatedBuffer", {"deser_fun": Sym("the-buffer's-decoder")}, name="BUF")
    ip = Interp(repo, raising=lambda d: d["name"].endswith(("comms.send_data", "client.get")),
                call_models={"time.time_ns": lambda *a: NOW, SHM + "get": lambda run, a, k, n, f: run.__dict__.setdefault("model_buf", __import__("copy").deepcopy(BUF))})
    paths = ip.explore(fi, env=env, args={"command": _cmd(D)})
    ctx.evals(len(paths))
    nclean = 0
    for p in paths:
        gets = [e for e in p.effects if is_call(e, qual=SHM + "get")]
        sd = [e for e in p.effects if is_call(e, qual="cascade.executor.comms.send_data")]
        fail = [e for e in p.effects if is_call(e, qual="cascade.executor.comms.callback") and len(e.data["args"]) > 1 and isinstance(e.data["args"][1], Obj)
                and e.data["args"][1].cls == MSG + "DatasetTransmitFailure"]
        raised = [e.data["from_call"].rsplit(".", 1)[-1] for e in p.effects if e.kind == "raise" and e.data.get("from_call")]
        closes = [e for e in p.effects if is_call(e, qual=SHM + "AllocatedBuffer.close")]
        got_buf = gets and "get" not in raised
        if p.exit[0] != "return":
            ctx.violation("C07.R1", fi.qual, loc(fi), "send_payload never raises", f"send_payload propagates an exception from {raised} (the future's failure path)")
            continue
        if got_buf and not closes:
            ctx.violation("C07.R1", fi.qual, loc(fi), "buffer closed on every exit",
                          f"path (exceptions from {raised or 'none'}): the shared-memory buffer obtained for the transfer is never closed: the reader registration stays, the dataset can never be purged/evicted")
            continue
        if raised:
            if not fail:
                ctx.violation("C07.R1", fi.qual, loc(fi), "send failure reported", f"an exception from {raised} is not reported as DatasetTransmitFailure")
            else:
                ctx.ok("C07.R1", loc(fi), f"exception from {raised}: failure reported, buffer closed")
            continue
        nclean += 1
        okk = len(gets) == 1 and len(sd) == 1
        if okk:
            key = gets[0].data["kwargs"].get("key", gets[0].data["args"][0] if gets[0].data["args"] else None)
            buf = gets[0].data["result"]
            a = sd[0].data["args"]
            payload, syn = (a[1], a[2]) if len(a) >= 3 else (None, None)
            h = payload.fields.get("header") if isinstance(payload, Obj) else None
            checks = {
                "segment key = ds2shmid(command.ds)": isinstance(key, App) and key.fname.endswith("ds2shmid") and key.args and key.args[0] is D,
                "sent to the command's reply address": a[0] == "dst-addr",
                "header.ds = command.ds": isinstance(h, Obj) and h.fields.get("ds") is D,
                "header.deser_fun = the buffer's decoder": isinstance(h, Obj) and h.fields.get("deser_fun") == Sym("the-buffer's-decoder"),
                "header.confirm_idx = command.idx": isinstance(h, Obj) and h.fields.get("confirm_idx") == 7,
                "header.confirm_address = own data address": isinstance(h, Obj) and h.fields.get("confirm_address") == "my-daddr",
                "value = the buffer's bytes": isinstance(payload, Obj) and isinstance(payload.fields.get("value"), App) and payload.fields["value"].fname.endswith("AllocatedBuffer.view")
                    and isinstance(payload.fields["value"].args[0], Obj) and payload.fields["value"].args[0].name == "BUF",
                "Syn(command.idx, own data listener)": isinstance(syn, Obj) and syn.fields == {"idx": 7, "addr": "my-dl"},
            }
            for what, good in checks.items():
                if good:
                    ctx.ok("C07.R1", loc(fi), what)
                else:
                    ctx.violation("C07.R1", fi.qual, loc(fi, sd[0].node), what, f"send_payload: violated — {what}")
        else:
            ctx.violation("C07.R1", fi.qual, loc(fi), "one read, one send", f"clean path has {len(gets)} shm reads and {len(sd)} sends")
    ctx.floor("C07.R1.clean_paths", nclean, 1)
    # a command not addressed from this host is an error, not a transfer
    for src, tgt in (("H9", "H2"), ("H1", "H1")):
        ps = Interp(repo, call_models={"time.time_ns": lambda *a: NOW}).explore(fi, env=env, args={"command": _cmd(D, source=src, target=tgt)})
        if any(is_call(e, qual="cascade.executor.comms.send_data") for p in ps for e in p.effects):
            ctx.violation("C07.R1", fi.qual, loc(fi), "foreign command rejected", f"a command with source={src} target={tgt} on host H1 is executed")
        else:
            ctx.ok("C07.R1", loc(fi), f"command source={src} target={tgt} on H1 rejected")


def r2_store_payload(ctx):
    repo = ctx.repo
    fi = repo.func(f"{DSV}.store_payload")
    ctx.analysed(fi.qual)
    D = ds("D", "T")
    env = {"self.host": "H2", "self.maddress": "my-maddr"}
    for mode in ("ok", "conflict", "error"):
        def alloc(run, a, k, n, f, _m=mode):
            if _m == "conflict":
                raise _Raise(Obj(SHM + "ConflictError"), n)
            if _m == "error":
                raise _Raise(Obj("builtins.ValueError", args=("boom",)), n)
            return Sym("BUF")
        ip = Interp(repo, call_models={SHM + "allocate": alloc, "time.time_ns": lambda *a: NOW})
        paths = ip.explore(fi, env=env, args={"payload": _payload(D)})
        ctx.evals(len(paths))
        for p in paths:
            al = [e for e in p.effects if is_call(e, qual=SHM + "allocate")]
            pub = [e for e in p.effects if is_call(e, qual="cascade.executor.comms.callback") and len(e.data["args"]) > 1 and isinstance(e.data["args"][1], Obj)
                   and e.data["args"][1].cls == MSG + "DatasetPublished"]
            fail = [e for e in p.effects if is_call(e, qual="cascade.executor.comms.callback") and len(e.data["args"]) > 1 and isinstance(e.data["args"][1], Obj)
                    and e.data["args"][1].cls == MSG + "DatasetTransmitFailure"]
            wr = [e for e in p.effects if e.kind == "store" and e.data.get("subscript") and "BUF.view" in e.data.get("target", "")]
            cl = [e for e in p.effects if e.kind == "call" and e.data["name"] == "BUF.close"]
            if p.exit[0] != "return":
                ctx.violation("C07.R2", fi.qual, loc(fi), "store_payload never raises", f"allocate {mode}: store_payload propagates {vkey(p.exit[1])[:60]}")
            elif mode == "conflict":
                if pub or fail:
                    ctx.violation("C07.R2", fi.qual, loc(fi), "redundant transfer not announced",
                                  f"the dataset is already present (conflict): {len(pub)} DatasetPublished / {len(fail)} failure message(s) are sent; a redundant copy must be dropped silently (announce once)")
                else:
                    ctx.ok("C07.R2", loc(fi), "conflict: nothing announced")
            elif mode == "error":
                if pub or len(fail) != 1:
                    ctx.violation("C07.R2", fi.qual, loc(fi), "store failure reported", f"allocate fails: published x{len(pub)}, failure reports x{len(fail)} (expected 0 / 1)")
                else:
                    ctx.ok("C07.R2", loc(fi), "store error: DatasetTransmitFailure, nothing announced")
            else:
                a = al[0].data if al else None
                kw = {**dict(zip(("key", "l", "deser_fun"), a["args"])), **a["kwargs"]} if a else {}
                msg = pub[0].data["args"][1].fields if pub else {}
                checks = {
                    "allocated under ds2shmid(header.ds)": isinstance(kw.get("key"), App) and kw["key"].fname.endswith("ds2shmid") and kw["key"].args[0] is D,
                    "allocated length = len(payload bytes)": kw.get("l") == 5,
                    "decoder stored = header.deser_fun": kw.get("deser_fun") == "my.deser",
                    "payload bytes written": len(wr) == 1 and wr[0].data["value"] == b"BYTES" and wr[0].data["index"] == slice(None, 5, None),
                    "write < close < announce": len(wr) == 1 and len(cl) == 1 and len(pub) == 1 and wr[0].seq < cl[0].seq < pub[0].seq,
                    "announced exactly once as DatasetPublished(ds, origin=this host, transmit_idx=confirm_idx)":
                        len(pub) == 1 and msg.get("ds") is D and msg.get("origin") == "H2" and msg.get("transmit_idx") == 7 and pub[0].data["args"][0] == "my-maddr",
                    "no failure reported": not fail,
                }
                for what, good in checks.items():
                    if good:
                        ctx.ok("C07.R2", loc(fi), what)
                    else:
                        ctx.violation("C07.R2", fi.qual, loc(fi), what, f"store_payload (successful store): violated — {what}")


def _loop_env(**over):
    from ..repo import get_repo
    from .common import model_coll, model_elem
    repo = get_repo()
    env = {"self.terminating": False, "self.futs_in_progress": {}, "self.awaiting_confirmation": {}, "self.invalid": set(), "self.acks": set(),
           "self.cap": 2}
    env.update(over)
    for f in ("invalid", "acks"):
        env[f"self.{f}"] = model_coll(repo, DSV, f, env[f"self.{f}"])
    env["self.awaiting_confirmation"] = {k: (model_elem(repo, DSV, "awaiting_confirmation", tuple(v)) if isinstance(v, tuple) else v)
                                          for k, v in env["self.awaiting_confirmation"].items()}
    return env


def _run_loop(repo, msgs, env):
    def recv(run, a, k, n, f):
        run.model_i = getattr(run, "model_i", 0) + 1
        return list(msgs) if run.model_i == 1 else []
    ip = Interp(repo, max_while=1, call_models={"cascade.executor.comms.Listener.recv_messages": recv, "time.time_ns": lambda *a: NOW,
                                                f"{DSV}.maybe_clean": lambda run, a, k, n, f: run.effects and None})
    return ip.explore(repo.func(f"{DSV}.recv_loop"), env=env)


def _submits(p, which):
    out = []
    for e in p.effects:
        if e.kind == "call" and e.data.get("method") == "submit" and e.data["args"] and isinstance(e.data["args"][0], BoundMethod) and e.data["args"][0].name == which:
            out.append(e)
    return out


def r3_r5_recv_loop(ctx):
    repo = ctx.repo
    fi = repo.func(f"{DSV}.recv_loop")
    ctx.analysed(fi.qual)
    D, D9 = ds("D", "T"), ds("D9", "T9")
    # R3 payload for a purged dataset is discarded
    for purged in (False, True):
        paths = _run_loop(repo, [_payload(D)], _loop_env(**{"self.invalid": {D} if purged else set()}))
        ctx.evals(len(paths))
        for p in paths:
            sub = _submits(p, "store_payload")
            if sub and not purged and sub[0].data["result"] not in p.heap["self.futs_in_progress"].values():
                ctx.violation("C07.R3", fi.qual, loc(fi), "running store tracked",
                              "the future of a submitted store is not recorded in futs_in_progress: a purge of that dataset would not wait for it (the dataset is resurrected)")
                continue
            if bool(sub) == purged:
                ctx.violation("C07.R3", fi.qual, loc(fi), "payload after purge",
                              f"a payload for a dataset that was {'already purged' if purged else 'not purged'} is {'stored (the dataset is resurrected after its purge)' if sub else 'dropped'}")
            else:
                ctx.ok("C07.R3", loc(fi), f"payload for a {'purged' if purged else 'live'} dataset: {'discarded' if purged else 'store submitted'}")
    # a purge and a late payload of the same dataset read in ONE batch: the payload is still discarded (the purge has been handled by then)
    pg = Obj(MSG + "DatasetPurge", {"ds": D}, name="PURGE", frozen=False)
    paths = _run_loop(repo, [pg, _payload(D)], _loop_env())
    ctx.evals(len(paths))
    for p in paths:
        sub = _submits(p, "store_payload")
        if p.exit[0] == "raise":
            continue
        if sub:
            ctx.violation("C07.R3", fi.qual, loc(fi), "payload after purge in one batch",
                          "messages [DatasetPurge(D), DatasetTransmitPayload(D)] received in one batch: the payload is stored although D was purged a moment earlier in the "
                          "same batch — the dataset is resurrected and announced again (the 'already purged' test must see the effect of the purge handled before it)")
        else:
            ctx.ok("C07.R3", loc(fi), "purge and late payload of one dataset in one batch: payload discarded")
    # a transmit command: rejected for a purged dataset, recorded as awaiting confirmation and submitted otherwise
    paths = _run_loop(repo, [_cmd(D)], _loop_env())
    for p in paths:
        sub = _submits(p, "send_payload")
        aw = p.heap["self.awaiting_confirmation"]
        tracked = p.heap["self.futs_in_progress"]
        if p.exit[0] == "raise" or len(sub) != 1 or 7 not in aw:
            ctx.violation("C07.R3", fi.qual, loc(fi), "transmit command accepted", f"a transmit command leads to {len(sub)} submissions, awaiting={vkey(aw)[:80]}, exit={p.exit[0]}")
        elif len(tracked) != 1 or list(tracked.values())[0] != sub[0].data["result"]:
            ctx.violation("C07.R3", fi.qual, loc(fi), "running transfer tracked",
                          f"the future of a submitted send is not recorded in futs_in_progress ({vkey(tracked)[:80]}): a purge would not wait for it and its outcome is never reaped")
        else:
            ctx.ok("C07.R3", loc(fi), "transmit command: recorded as awaiting confirmation and submitted once")
    # R4 purge
    cmdD, payD, cmd9 = _cmd(D, 7), _payload(D, 8), _cmd(D9, 9)
    F1, F2, F3 = Atom("F-cmdD"), Atom("F-payD"), Atom("F-cmd9")
    env = _loop_env(**{"self.futs_in_progress": {cmdD: F1, payD: F2, cmd9: F3}, "self.awaiting_confirmation": {7: (cmdD, NOW - 5), 9: (cmd9, NOW - 5)}})
    paths = _run_loop(repo, [Obj(MSG + "DatasetPurge", {"ds": D}, frozen=True)], env)
    ctx.evals(len(paths))
    for p in paths:
        if p.exit[0] == "raise":
            ctx.violation("C07.R4", fi.qual, loc(fi), "purge handled", f"a DatasetPurge with transfers in progress makes the data server loop raise {vkey(p.exit[1])[:80]} (the data server dies)")
            continue
        w = [e for e in p.effects if e.kind == "call" and e.data["name"].endswith("futures.wait") or (e.kind == "call" and e.data["name"] == "wait")]
        pg = [e for e in p.effects if is_call(e, qual=SHM + "purge")]
        mc = [e for e in p.effects if is_call(e, qual=f"{DSV}.maybe_clean")]
        waited = set()
        for e in w:
            a0 = e.data["args"][0] if e.data["args"] else []
            items = a0 if isinstance(a0, (list, tuple, set)) else []
            waited |= {x for x in items if isinstance(x, Atom)}
        aw = p.heap["self.awaiting_confirmation"]
        checks = {
            "waits for every running future that touches the dataset (incoming stores and outgoing sends)": {F1, F2} <= waited,
            "running futures are reaped after the wait, before the purge": bool(w) and any(w[0].seq < m.seq < (pg[0].seq if pg else 10 ** 9) for m in mc),
            "pending confirmations of the purged dataset are dropped (others kept)": sorted(aw.keys()) == [9],
            "shm purge under ds2shmid(ds), after the wait": len(pg) == 1 and isinstance(pg[0].data["args"][0], App) and pg[0].data["args"][0].fname.endswith("ds2shmid")
                and pg[0].data["args"][0].args[0] is D and bool(w) and w[0].seq < pg[0].seq,
            "dataset marked invalid": D in p.heap["self.invalid"],
        }
        for what, good in checks.items():
            if good:
                ctx.ok("C07.R4", loc(fi), what)
            else:
                ctx.violation("C07.R4", fi.qual, loc(fi), what.split(" (")[0],
                              f"DatasetPurge(D) with a send of D, a store of D and a send of D9 in progress: violated — {what}; waited on {sorted(map(vkey, waited))}")
    # R5 retry block
    cmd = _cmd(D, 7)
    OLDT = NOW - 10 ** 10
    rows = [("unconfirmed, idle", {}, "resubmit"), ("future still running", {"self.futs_in_progress": {cmd: Atom("F")}}, "raise"),
            ("acknowledged", {"self.acks": {7}}, "forget"), ("dataset purged", {"self.invalid": {D}}, "forget")]
    for name, over, want in rows:
        for at, stale in ((OLDT, True), (NOW - 5, False), (-1, False)):
            env = _loop_env(**{"self.awaiting_confirmation": {7: (cmd, at)}, **over})
            paths = _run_loop(repo, [], env)
            ctx.evals(len(paths))
            for p in paths:
                sub = _submits(p, "send_payload")
                aw = p.heap["self.awaiting_confirmation"]
                exp = want if stale else "nothing"
                if exp == "resubmit":
                    good = p.exit[0] != "raise" and len(sub) == 1 and sub[0].data["args"][1] == cmd and aw.get(7, (None, 0))[1] == -1
                elif exp == "raise":
                    good = p.exit[0] == "raise" and not sub
                elif exp == "forget":
                    good = p.exit[0] != "raise" and not sub and 7 not in aw
                else:
                    good = p.exit[0] != "raise" and not sub and aw.get(7, (None, None))[1] == at
                atoms = {"transfer": name, "sent": "long ago" if stale else ("in flight" if at == -1 else "recently")}
                if not good:
                    ctx.violation("C07.R5", fi.qual, loc(fi), "retry decision",
                                  f"{atoms}: resubmissions={len(sub)}, exit={p.exit[0]}, awaiting={vkey(aw)[:80]}; expected: {exp}", row=atoms)
                else:
                    ctx.ok("C07.R5", loc(fi), f"retry | {atoms} -> {exp}")


def r5b_ack_recorded(ctx):
    """C07.R5 (history): an Ack for transfer 7 arriving while its confirmation is overdue is recorded before the retry pass: the
    transfer is forgotten, not re-sent (the receiver would otherwise be sent the same dataset again and again)."""
    repo = ctx.repo
    fi = repo.func(f"{DSV}.recv_loop")
    D = ds("D", "T")
    cmd = _cmd(D, 7)
    ack = Obj(MSG + "Ack", {"idx": 7}, name="ACK7")
    env = _loop_env(**{"self.awaiting_confirmation": {7: (cmd, NOW - 10 ** 10)}})
    paths = _run_loop(repo, [ack], env)
    ctx.evals(len(paths))
    for p in paths:
        sub = _submits(p, "send_payload")
        aw = p.heap["self.awaiting_confirmation"]
        if p.exit[0] == "raise" or sub or 7 in aw:
            ctx.violation("C07.R5", fi.qual, loc(fi), "acknowledged transfer not re-sent",
                          f"Ack(7) received for an overdue transfer 7: exit={p.exit[0]}, re-submissions={len(sub)}, still awaiting={sorted(aw)}; expected the confirmation to be "
                          f"recorded and the transfer forgotten")
        else:
            ctx.ok("C07.R5", loc(fi), "Ack(7) for an overdue transfer: recorded, transfer forgotten, nothing re-sent")


def r6_key_function(ctx):
    """C07.R6: producer, consumer, sender, receiver and purger all derive the segment key with ds2shmid."""
    repo = ctx.repo
    n = 0
    for fi in repo.all_funcs():
        if not fi.module.name.startswith("cascade.executor"):
            continue
        for c in walk_scope(fi.node):
            if isinstance(c, ast.Call) and isinstance(c.func, ast.Attribute) and c.func.attr in ("get", "allocate", "purge") \
                    and repo.resolve_expr(fi.module, c.func) in (SHM + "get", SHM + "allocate", SHM + "purge"):
                n += 1
                key = c.args[0] if c.args else next((k.value for k in c.keywords if k.arg == "key"), None)
                src = key
                if isinstance(key, ast.Name):
                    asg = [a for a in walk_scope(fi.node) if isinstance(a, ast.Assign) and any(isinstance(t, ast.Name) and t.id == key.id for t in a.targets)]
                    src = asg[0].value if len(asg) == 1 else None
                good = isinstance(src, ast.Call) and repo.resolve_expr(fi.module, src.func) == "cascade.executor.runner.memory.ds2shmid"
                if good:
                    ctx.ok("C07.R6", loc(fi, c), f"{unparse(c.func)} keyed by ds2shmid(...)")
                else:
                    ctx.violation("C07.R6", fi.qual, loc(fi, c), "shared key function", f"{unparse(c)[:80]}: the segment key is not derived with ds2shmid — the other side of the transfer would look under another name")
    ctx.floor("C07.R6.sites", n, 5)


def r7_thread_confinement(ctx):
    repo = ctx.repo
    for name in ("store_payload", "send_payload"):
        fi = repo.func(f"{DSV}.{name}")
        bad = None
        for p in Interp(repo, call_models={"time.time_ns": lambda *a: NOW}).explore(fi):
            for e in p.effects:
                ref = None
                if e.kind in ("store", "aug", "del") and not e.data.get("local"):
                    ref = e.data.get("ref")
                elif e.kind == "call" and e.data.get("method") in MUTATORS:
                    ref = e.data.get("recv_ref")
                if ref is not None and isinstance(_root(ref), Sym) and _root(ref).name == "self" and ref != _root(ref):
                    bad = (e, ref)
        if bad:
            ctx.violation("C07.R7", fi.qual, loc(fi, bad[0].node), "pool function writes server state",
                          f"{name} runs on the thread pool and updates {vkey(bad[1])[:80]}; the server's bookkeeping is only touched by the receive loop thread")
        else:
            ctx.ok("C07.R7", loc(fi), f"{name} (thread pool) writes no DataServer field")


from .shm import r_reader_ids  # noqa: E402


def r_command_index(ctx):
    """every fetch / transmit command carries a fresh index (rule C01.R5, imported lazily): the data server keys its confirmations by it"""
    from .C01 import r5_commands

    r5_commands(ctx)


RULES = [r_reader_ids, r_command_index, r1_send_payload, r2_store_payload, r3_r5_recv_loop, r5b_ack_recorded, r6_key_function, r7_thread_confinement, r4_r5_listener, r6_frames]

from .common import lazy  # noqa: E402
RULES += [lazy("C06", "r3_retry_and_ack", "the listener's memory of acknowledged Syns must not shrink: a retried transfer would be stored / announced twice"),
          lazy("C04", "r1_purge_guard", "a requested output is not purged while its fetch is outstanding"),
          lazy("C02", "r9_executor_routing", "a purge reaches the data server (which waits for running transfers and invalidates pending ones), never the shm store directly")]
RULES.append(lazy("C06", "r7b_acked_container_never_forgets", "a retried payload / command whose Syn was forgotten is stored or executed twice"))
RULES.append(lazy("shm", "r_disk_copy", "what a transfer ships after the dataset was paged out and in again is byte-identical to what was stored"))
RULES.append(lazy("shm", "r_client_protocol", "the data server stores a transferred payload through the shm client: a command re-sent blindly is answered 'conflict', taken for a redundant transmit, and the payload is never written nor announced"))
