"""C08 — the shared-memory store never hands out more than its capacity (structural clauses)."""
from .shm import (r_add, r_get_pagein, r_pageout_callback, r_pagein_callback, r_space_writers, r_residency_pairing, r_purge, r_server_dispatch, r_manager_init, r_size_nonnegative, r_purge_races_pageout, r_close_callback, r_pageout_failed_with_reader)

META = {
    "explanation": "Static structural analysis of cascade.shm.dataset.Manager by abstract interpretation over small model stores: admission "
                   "table of add() over all orderings of size/free/capacity and key presence; get() per status (page-in only if it fits, space "
                   "reserved when issued); completion callbacks of page-out and page-in credit/return a dataset's size exactly once in every "
                   "outcome; purge accounting; writers of capacity/free_space confined to the Manager; the server loop serves each request class with the "
                   "matching Manager operation on the request's fields and returns its verdict unchanged ('wait' stays 'wait', refusals stay "
                   "refusals, free space is the manager's figure) to the requesting client exactly once. "
                   "Later rules: a purge racing a finished page-out credits the size once (history with the completion callback), a page-out whose unlink fails reports failure, the store starts with free space = capacity <= available. Not decided: the instantaneous invariant under every interleaving of the disk threads with requests.",
    "assumptions": ["SharedMemory and the disk pool are opaque; one dataset per model store"],
}
RULES = [r_add, r_get_pagein, r_pageout_callback, r_pagein_callback, r_purge, r_space_writers, r_residency_pairing, r_server_dispatch, r_manager_init, r_size_nonnegative, r_purge_races_pageout, r_close_callback, r_pageout_failed_with_reader]

from .common import lazy  # noqa: E402
RULES.append(lazy("shm", "r_disk", "space is credited only after the segment is really gone: write, unlink, then report"))
