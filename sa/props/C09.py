"""C09 — shared-memory datasets keep their bytes, are protected in use, stay reachable (structural clauses)."""
from .shm import (r_reader_ids, r_get_pagein, r_pageoutable, r_eviction_flow, r_purge, r_close_callback, r_pageout_transition, r_disk,
                  r_pageout_callback, r_pagein_callback, r_server_dispatch, r_client_protocol, r_segment_name, r_disk_copy, r_add, r_client_failures)

META = {
    "explanation": "Static structural analysis of the shm dataset state machine on model stores: get() grants only in_memory datasets; the "
                   "eviction-candidate predicate as an exact truth table (status x staleness x readers); only candidates reach the lottery and only "
                   "winners are paged out; purge defers while a reader holds the dataset and the last reader's close executes it; legal status "
                   "transitions; the eviction lock is released or handed to >= 1 job on every path and released by the last job in both outcomes, "
                   "never re-acquired while held; the spill file is completely written before the segment is unlinked and failures are reported; "
                   "the server loop routes close / purge / get to the Manager with the request's own key and reader id and survives a failing "
                   "operation; the client attaches exactly the segment and size the server named, notifies its close exactly once with its "
                   "reader id (writer: none), hands readers a read-only view and retries 'wait' answers; the segment name is derived from "
                   "the key and is the one recorded. "
                   "Not decided: byte equality after paging, disk failures at every point in time.",
    "assumptions": ["SharedMemory / files / thread pools are opaque effects; `callback` closures analysed with the facts at submission"],
}
from .C10 import r9_memory_lifecycle  # noqa: E402  (the worker-side reader: every buffer obtained by get is closed exactly once)

def r_writer_side(ctx):
    """the worker-side writer: bytes of one serialisation written, segment closed (writer finished) before the dataset is announced (rule C01.R7, lazy import)"""
    from .C01 import r7_memory
    r7_memory(ctx)


RULES = [r_get_pagein, r_pageoutable, r_eviction_flow, r_purge, r_close_callback, r_pageout_transition, r_pageout_callback,
         r_pagein_callback, r_disk, r_reader_ids, r_server_dispatch, r_client_protocol, r_segment_name, r9_memory_lifecycle, r_disk_copy, r_add, r_writer_side, r_client_failures]
from .common import lazy  # noqa: E402
RULES.append(lazy("C17", "r8_concrete_roundtrip", "the reader id / segment name / size that the store hands out reach the client, and come back in the close message, unchanged"))
