"""C10 — lowering a graph to a job and running a task preserve what each node computes (structural clauses)."""
from __future__ import annotations

import ast

from ..interp import Interp
from ..lib import is_call, loc
from ..stmts import _ConcreteIter
from ..terms import App, Atom, ModelFn, Obj, Sym, Term, vkey
from .common import dsid, r_last_output_order, worker

INTO = "cascade.low.into"
RUN = "cascade.executor.runner.runner.run"
CORE = "cascade.low.core."
META = {
    "explanation": "Static structural analysis by abstract interpretation of node2task / graph2job / runner.run on small model "
                   "nodes and tasks: one task per node and one edge per input (including one source feeding two inputs), positional "
                   "slots and blanking, argument assembly for static and upstream values at any arity (incl. >= 11 positionals), "
                   "upstream values override static defaults, exact output-count check for generator tasks, each yielded value bound "
                   "to the key-sorted output, publish flag per output, completion-order contract, and naming of outputs by producers. "
                   "Not decided: equality of the values the callable computes.",
    "assumptions": ["the task callable and Memory are opaque; models use at most 12 arguments / 4 outputs"],
}


def r1_r2_lowering(ctx):
    repo = ctx.repo
    fi = repo.func(f"{INTO}.node2task")
    ctx.analysed(fi.qual)
    F = Atom("F")
    node = {"payload": (F, ["input0", 3, "input1", "lit", "input2"], {"kw": 5, "dim": "input1"}),
            "inputs": {"input0": "src", "input1": ("gen", "1"), "input2": "src"}, "outputs": ["a", "b"]}
    # "dim": "input1" is a static keyword argument whose text happens to equal an input's name (a dimension called like the input): it is data
    paths = Interp(repo).explore(fi, args={"name": "n", "node": node})
    ctx.evals(len(paths))
    if len(paths) == 1 and paths[0].exit[0] == "raise":
        ctx.violation("C10.R1", fi.qual, loc(fi), "model node lowers", f"a well-formed node (payload tuple, 3 inputs, 2 outputs) cannot be lowered: {vkey(paths[0].exit[1])[:100]}")
        return
    if len(paths) != 1 or paths[0].exit[0] != "return":
        ctx.undecided("C10.R1", loc(fi), f"node2task not deterministic on a model node: {[p.exit[0] for p in paths]} {paths[0].cond_text()[:200]}")
        return
    rv = paths[0].exit[1]
    if not (isinstance(rv, tuple) and len(rv) == 2 and isinstance(rv[0], Obj)):
        ctx.undecided("C10.R1", loc(fi), f"unexpected return shape {vkey(rv)[:200]}")
        return
    task, edges = rv
    edges = list(edges.values()) if isinstance(edges, dict) else list(edges)
    got = sorted(((vkey(e.fields.get("source").fields.get("task")), e.fields.get("source").fields.get("output"), e.fields.get("sink_task"),
                  e.fields.get("sink_input_ps"), e.fields.get("sink_input_kw")) for e in edges if isinstance(e, Obj)), key=vkey)
    want = sorted([("'src'", "0", "n", 0, None), ("'gen'", "1", "n", 2, None), ("'src'", "0", "n", 4, None)], key=vkey)
    if got != want:
        ctx.violation("C10.R1", fi.qual, loc(fi), "one edge per input",
                      f"node with inputs input0<-src, input1<-(gen,1), input2<-src lowers to edges {got}; expected {want} "
                      f"(one edge per declared input, also when one upstream output feeds two inputs)")
    else:
        ctx.ok("C10.R1", loc(fi), "one edge per input, source/slot as declared (same source feeding two inputs keeps both edges)")
    ps = task.fields.get("static_input_ps")
    kw = task.fields.get("static_input_kw")
    if ps != {"0": None, "1": 3, "2": None, "3": "lit", "4": None} or kw != {"kw": 5, "dim": "input1"}:
        ctx.violation("C10.R2", fi.qual, loc(fi), "static arguments",
                      f"static positional/keyword arguments lowered to {vkey(ps)} / {vkey(kw)}; expected literals at their own index, "
                      f"edge slots blanked, kwargs copied verbatim (the static keyword dim='input1' is a value, not a reference)")
    else:
        ctx.ok("C10.R2", loc(fi), "static positionals stored under their own index, edge slots blanked, kwargs copied")
    d = task.fields.get("definition")
    osch = d.fields.get("output_schema") if isinstance(d, Obj) else None
    if not isinstance(osch, dict) or list(osch.keys()) != ["a", "b"]:
        ctx.violation("C10.R2", fi.qual, loc(fi), "output schema", f"declared outputs ['a','b'] lowered to {vkey(osch)}")
    else:
        ctx.ok("C10.R2", loc(fi), "one output-schema entry per declared output")
    # graph2job: one task per node, edges concatenated
    g = repo.func(f"{INTO}.graph2job")
    ctx.analysed(g.qual)
    ser = {"n1": {"payload": (F, [], {}), "inputs": {}, "outputs": []}, "n2": {"payload": (F, ["input0"], {}), "inputs": {"input0": "n1"}, "outputs": []}}
    ip = Interp(repo, call_models={"earthkit.workflows.graph.export.serialise": lambda *a: ser}, inline={f"{INTO}.node2task"})
    paths = ip.explore(g)
    ctx.evals(len(paths))
    ok_ = False
    for p in paths:
        if p.exit[0] == "return" and isinstance(p.exit[1], Obj):
            tasks, es = p.exit[1].fields.get("tasks"), p.exit[1].fields.get("edges")
            if isinstance(tasks, dict) and sorted(tasks) == ["n1", "n2"] and isinstance(es, list) and len(es) == 1:
                ok_ = True
    if not ok_:
        ctx.violation("C10.R1", g.qual, loc(g), "one task per node",
                      f"a two-node graph with one edge does not lower to 2 tasks + 1 edge: {[vkey(p.exit[1])[:200] for p in paths]}")
    else:
        ctx.ok("C10.R1", loc(g), "graph2job: one task per serialised node, all edges kept")


def _task(ps, kw, outs=("0",)):
    return Obj(CORE + "TaskInstance", {"static_input_ps": ps, "static_input_kw": kw,
                                       "definition": Obj(CORE + "TaskDefinition", {"func": "F", "entrypoint": "", "output_schema": {o: "Any" for o in outs}})})


def _explore_run(repo, task, psrc, publish, result):
    T = "T"
    calls = []

    def fmodel(run, args, kwargs, node, fr):
        calls.append((list(args), dict(kwargs)))
        return result() if callable(result) else result
    ec = Obj("cascade.executor.runner.runner.ExecutionContext", {"tasks": {T: task}, "param_source": {T: psrc}, "callback": "cb", "publish": publish})
    # the context is built the way the worker builds it — RunnerContext.project on the task sequence — so that whatever project precomputes for
    # `run` (sorted outputs, resolved callables, ...) is there; the hand-made context above is the fallback if project cannot be evaluated
    try:
        pj = repo.funcs.get("cascade.executor.runner.entrypoint.RunnerContext.project")
        if pj is not None:
            ups = {}
            for k_, (d_, ann_) in psrc.items():
                ups.setdefault(d_.fields["task"], {})[d_.fields["output"]] = ann_
            jt = {T: task, **{t_: Obj(CORE + "TaskInstance", {"definition": Obj(CORE + "TaskDefinition", {"output_schema": dict(o_)}), "static_input_kw": {}, "static_input_ps": {}})
                              for t_, o_ in ups.items()}}
            rc = {"self.job": Obj(CORE + "JobInstance", {"tasks": jt, "edges": [], "ext_outputs": [], "serdes": {}}, name="JOB"), "self.callback": "cb",
                  "self.param_source": {T: {k_: d_ for k_, (d_, _a) in psrc.items()}}}
            ts = Obj("cascade.executor.msg.TaskSequence", {"worker": Atom("W"), "tasks": [T], "publish": publish}, name="TS")
            pp = [p_ for p_ in Interp(repo, max_concrete_iter=40).explore(pj, env=rc, args={"taskSequence": ts}) if p_.exit[0] == "return"]
            if len(pp) == 1 and isinstance(pp[0].exit[1], Obj) and pp[0].exit[1].cls.endswith("ExecutionContext"):
                built = pp[0].exit[1]
                f_ = {**built.kwargs, **built.fields}
                if f_.get("tasks") and T in f_["tasks"]:
                    ec = Obj(built.cls, f_)
    except Exception:
        pass
    ip = Interp(repo, call_models={CORE + "TaskDefinition.func_dec": lambda run, a, k, n, f: ModelFn("task callable", fmodel)},
                inline={"cascade.low.func.ensure", "cascade.low.func.assert_iter_empty"})
    paths = ip.explore(repo.func(RUN), args={"taskId": T, "executionContext": ec})
    return paths, calls


def r3_binding(ctx):
    """C10.R3: the callable receives each static positional at its declared index, each upstream value at the declared
    position / keyword (overriding a static default of that name), for any arity."""
    repo = ctx.repo
    fi = repo.func(RUN)
    ctx.analysed(fi.qual)
    D1, D2 = dsid("P1"), dsid("P2")
    # (a) mixed static/upstream, keyword edge onto a parameter that also has a static default
    task = _task({"0": "s0", "1": None, "2": "s2"}, {"k1": "v1", "kw": "static-default"})
    paths, calls = _explore_run(repo, task, {1: (D1, "Any"), "kw": (D2, "Any")}, set(), "R")
    ctx.evals(len(paths))
    done = [p for p in paths if p.exit[0] == "return"]
    if len(calls) < 1 or not done:
        if paths and all(p.exit[0] == "raise" for p in paths):
            ctx.violation("C10.R3", fi.qual, loc(fi), "task with mixed static/upstream arguments runs",
                          f"a task with static positionals 0 and 2, an upstream value at position 1 and a keyword edge cannot be run: {vkey(paths[0].exit[1])[:100]}")
        else:
            ctx.undecided("C10.R3", loc(fi), f"model task is not invoked: exits {[p.exit[0] for p in paths]}")
        return
    # upstream values are arbitrary objects (None, 0, empty containers included): whether the task runs must not depend on them
    for p in paths:
        dep = [d for d in p.decisions if "Memory.provide(" in d.key]
        if p.exit[0] == "raise" and dep:
            ctx.violation("C10.R3", fi.qual, loc(fi), "any upstream value is passed on",
                          f"the run raises {vkey(p.exit[1])[:100]} depending on the upstream value itself ({dep[0].key[:90]} = {dep[0].value}): a task that "
                          f"legitimately produced that value (None, 0, an empty container) makes its consumer fail, where sequential evaluation just passes it on")
            break
    else:
        ctx.ok("C10.R3", loc(fi), "no exit of run depends on the upstream values themselves")
    for args, kwargs in calls[:1]:
        a = [vkey(x) for x in args]
        k = {n: vkey(v) for n, v in kwargs.items()}
        prov = lambda d: f"cascade.executor.runner.memory.Memory.provide(memory, {vkey(d)}, 'Any')"
        ok_a = len(a) == 3 and a[0] == "'s0'" and a[2] == "'s2'" and a[1].startswith(prov(D1))
        ok_k = set(k) == {"k1", "kw"} and k["k1"] == "'v1'" and k["kw"].startswith(prov(D2))
        if not ok_a:
            ctx.violation("C10.R3", fi.qual, loc(fi), "positional binding",
                          f"statics {{0:'s0', 2:'s2'}} + upstream P1 at position 1: callable invoked with positionals {a}")
        else:
            ctx.ok("C10.R3", loc(fi), "static and upstream positionals at their declared positions")
        if not ok_k:
            ctx.violation("C10.R3", fi.qual, loc(fi), "keyword binding",
                          f"static kwargs {{k1:'v1', kw:'static-default'}} + upstream P2 into keyword 'kw': callable invoked with {k}; "
                          f"the upstream value must reach the declared keyword (a static default must not shadow it)")
        else:
            ctx.ok("C10.R3", loc(fi), "keyword edge value reaches the declared keyword, static kwargs kept")
    # (b) arity 12 static positionals
    ps = {str(i): f"s{i}" for i in range(12)}
    paths, calls = _explore_run(repo, _task(ps, {}), {}, set(), "R")
    ctx.evals(len(paths))
    if not calls:
        ctx.undecided("C10.R3", loc(fi), "model task with 12 positionals is not invoked")
    else:
        a = [x for x in calls[0][0]]
        if a != [f"s{i}" for i in range(12)]:
            ctx.violation("C10.R3", fi.qual, loc(fi), "positional binding at arity >= 11",
                          f"12 static positionals s0..s11 arrive as {a}")
        else:
            ctx.ok("C10.R3", loc(fi), "12 static positionals arrive in their numeric positions")
    if len(calls) > 1:
        ctx.violation("C10.R3", fi.qual, loc(fi), "single invocation", "the callable is invoked more than once per task run")


def r4_r6_outputs(ctx):
    """C10.R4 / R6: for a generator task the number of yielded values must equal the number of declared outputs (else the run
    raises), the i-th value is stored under the i-th key-sorted output, with the publish flag of that output."""
    repo = ctx.repo
    fi = repo.func(RUN)
    outs = ("b", "a", "c")
    pub = {dsid("T", "a"), dsid("T", "c")}
    for n_yield in (2, 3, 4, 1, "3+None"):
        vals = [f"r{i}" for i in range(n_yield)] if isinstance(n_yield, int) else ["r0", "r1", "r2", None]
        paths, calls = _explore_run(repo, _task({}, {}, outs), {}, pub, lambda v=vals: _ConcreteIter(list(v)))
        ctx.evals(len(paths))
        exits = {p.exit[0] for p in paths}
        if n_yield != 3:
            if exits != {"raise"}:
                ctx.violation("C10.R4", fi.qual, loc(fi), "output count check",
                              f"3 declared outputs, generator yields {n_yield} values{' (the surplus one is None)' if n_yield == '3+None' else ''}: run ends with {sorted(exits)} instead of raising "
                              f"(a count mismatch must become a task failure)")
            else:
                ctx.ok("C10.R4", loc(fi), f"3 declared outputs, {n_yield} yielded -> raises")
            continue
        if exits != {"return"}:
            ctx.violation("C10.R4", fi.qual, loc(fi), "output count check", f"3 declared outputs, 3 yielded: run ends with {sorted(exits)}")
            continue
        ctx.ok("C10.R4", loc(fi), "3 declared outputs, 3 yielded -> accepted")
        for p in paths:
            hs = [e.data["args"] for e in p.effects if is_call(e, qual="cascade.executor.runner.memory.Memory.handle")]
            got = [(a[0], a[2], a[3]) for a in hs if len(a) >= 4]
            want = [(dsid("T", "a"), "r0", True), (dsid("T", "b"), "r1", False), (dsid("T", "c"), "r2", True)]
            if got != want:
                ctx.violation("C10.R6", fi.qual, loc(fi), "output binding",
                              f"outputs declared (b, a, c), values r0,r1,r2, publish {{a,c}}: stored {got}; expected {want} "
                              f"(i-th value under the i-th key-sorted output, publish flag of that output)")
            else:
                ctx.ok("C10.R6", loc(fi), "each yielded value bound to the key-sorted output with that output's publish flag")
    # single output
    paths, calls = _explore_run(repo, _task({}, {}, ("0",)), {}, {dsid("T", "0")}, "R")
    for p in paths:
        hs = [e.data["args"] for e in p.effects if is_call(e, qual="cascade.executor.runner.memory.Memory.handle")]
        if p.exit[0] != "return" or len(hs) != 1 or hs[0][0] != dsid("T", "0") or hs[0][2] != "R" or hs[0][3] is not True:
            ctx.violation("C10.R6", fi.qual, loc(fi), "single output binding", f"single-output task stores {[list(map(vkey, h)) for h in hs]}")
        else:
            ctx.ok("C10.R6", loc(fi), "single output stored under its key with its publish flag")


def r5_output_naming(ctx):
    """C10.R5 (producer side): a producer that names N outputs from an integer range must generate names whose plain key
    order is the generation order — otherwise, for N > 10, values are bound to the wrong outputs (consumers sort by key)."""
    repo = ctx.repo
    fi = repo.func("earthkit.workflows.fluent.Node.__init__")
    ctx.analysed(fi.qual)
    pay = Obj("earthkit.workflows.fluent.Payload", {"args": [], "kwargs": {}, "func": Atom("f")})
    ip = Interp(repo, max_iter=1)
    paths = ip.explore(fi, args={"payload": pay, "inputs": [], "num_outputs": 12, "name": "n"})
    ctx.evals(len(paths))
    outs = None
    for p in paths:
        for e in p.effects:
            if e.kind == "call" and e.data.get("method") == "__init__" and "outputs" in e.data["kwargs"]:
                outs = e.data["kwargs"]["outputs"]
    if not isinstance(outs, list) or len(outs) != 12:
        ctx.undecided("C10.R5", loc(fi), f"cannot evaluate the output names generated for num_outputs=12: {vkey(outs)[:100]}")
        return
    if sorted(outs) != outs:
        ctx.violation("C10.R5", fi.qual, loc(fi), "output names vs key order",
                      f"fluent.Node names 12 outputs {outs}; consumers (runner.run, is_last_output_of) order outputs by plain key sort "
                      f"{sorted(outs)}: the value yielded third is bound to output '10', completion is inferred from output '9'")
    else:
        ctx.ok("C10.R5", loc(fi), "generated output names sort in generation order")


RULES = [r1_r2_lowering, r3_binding, r4_r6_outputs, r_last_output_order, r5_output_naming]


def r7_memory_flush(ctx):
    """C10.R7: Memory.flush drops only locals that are not backed by a fetched shm buffer; afterwards every buffered dataset is still
    available locally (provide() treats "buffer held but no local value" as corruption and fails the task)."""
    repo = ctx.repo
    fi = repo.func("cascade.executor.runner.memory.Memory.flush")
    ctx.analysed(fi.qual)
    A, B = dsid("TA"), dsid("TB")
    paths = Interp(repo).explore(fi, env={"self.local": {A: 1, B: 2}, "self.bufs": {B: Atom("BUF")}})
    ctx.evals(len(paths))
    for p in paths:
        loc_after, bufs_after = p.heap["self.local"], p.heap["self.bufs"]
        if p.exit[0] != "return" or set(loc_after) != {B} or set(bufs_after) != {B}:
            ctx.violation("C10.R7", fi.qual, loc(fi), "flush keeps buffered inputs",
                          f"locals {{A (computed here), B (fetched from shm, buffer held)}}: after flush locals={vkey(loc_after)} buffers={vkey(bufs_after)}; expected B kept in both — "
                          f"a second consumer of B in a later task sequence would otherwise fail with 'internal data corruption'")
        else:
            ctx.ok("C10.R7", loc(fi), "flush drops unbuffered locals only")


RULES.append(r7_memory_flush)


def r8_placeholders(ctx):
    """C10.R8 (producer side of the positional binding): a fluent Node records one placeholder per input in its payload's positional
    arguments — `input_name(i)` for the i-th input, appended in order unless the caller already placed it — and wires its inputs under
    exactly those names; node2task's reverse lookup finds the position of an upstream value by that name."""
    from ..terms import Atom
    repo = ctx.repo
    F = "earthkit.workflows.fluent"
    ni = repo.func(f"{F}.Node.__init__")
    ctx.analysed(ni.qual)
    G = "earthkit.workflows.graph.nodes"
    A, B = Obj(G + ".Node", {"name": "pa"}, name="IN-A"), Obj(G + ".Node", {"name": "pb"}, name="IN-B")
    # eleven inputs: placeholders in numeric order (input10 after input9, not after input1)
    many = [Obj(G + ".Node", {"name": f"p{i}"}, name=f"IN-{i}") for i in range(11)]
    pay = Obj(F + ".Payload", {"args": [], "kwargs": {}, "func": Atom("f")}, name="USERPAY")
    ip = Interp(repo, max_iter=12, max_concrete_iter=24, inline={f"{F}.Payload.copy", f"{F}.Payload.__init__", f"{F}.Payload.to_tuple", f"{F}.Node.input_name"},
                type_facts={f"IN-{i}": {G + ".Node"} for i in range(11)})
    for p in [q for q in ip.explore(ni, args={"payload": pay, "inputs": list(many), "num_outputs": 1, "name": None}) if q.exit[0] == "return"][:1]:
        sup = [e for e in p.effects if e.kind == "call" and (e.data.get("name") or "").endswith("__init__") and "payload" in e.data["kwargs"]]
        pl = sup[0].data["kwargs"]["payload"] if len(sup) == 1 else None
        args_ = pl[1] if isinstance(pl, tuple) and len(pl) == 3 else None
        if args_ != [f"input{i}" for i in range(11)]:
            ctx.violation("C10.R8", ni.qual, loc(ni), "placeholders in input order",
                          f"a node with 11 inputs stores the placeholders as {vkey(args_)[:160]}; expected input0 … input10 in numeric order — the i-th input must be passed "
                          f"at the i-th position (stack / concatenate / flatten over 11 or more nodes would receive their sources in another order)")
        else:
            ctx.ok("C10.R8", loc(ni), "placeholders | 11 inputs -> input0 … input10 in order")
    for given, want in ((["lit"], ["lit", "input0", "input1"]), (["input1", "lit"], ["input1", "lit", "input0"]), ([], ["input0", "input1"])):
        pay = Obj(F + ".Payload", {"args": list(given), "kwargs": {"k": 1}, "func": Atom("f")}, name="USERPAY")
        ip = Interp(repo, max_iter=3, inline={f"{F}.Payload.copy", f"{F}.Payload.__init__", f"{F}.Payload.to_tuple", f"{F}.Node.input_name"},
                    type_facts={"IN-A": {G + ".Node"}, "IN-B": {G + ".Node"}})
        paths = [p for p in ip.explore(ni, args={"payload": pay, "inputs": [A, B], "num_outputs": 1, "name": None}) if p.exit[0] == "return"]
        ctx.evals(len(paths))
        if not paths:
            ctx.undecided("C10.R8", loc(ni), f"Node.__init__ on a model payload with args {given} does not complete")
            continue
        for p in paths:
            sup = [e for e in p.effects if e.kind == "call" and (e.data.get("name") or "").endswith("__init__") and "payload" in e.data["kwargs"]]
            if len(sup) != 1:
                ctx.undecided("C10.R8", loc(ni), f"cannot find the base-class construction of the node ({len(sup)} candidates)")
                break
            pl = sup[0].data["kwargs"]["payload"]
            args_ = pl[1] if isinstance(pl, tuple) and len(pl) == 3 else None
            wired = {k: getattr(v, "name", vkey(v)) for k, v in sup[0].data["kwargs"].items() if k not in ("payload", "outputs")}
            if args_ != want or wired != {"input0": "IN-A", "input1": "IN-B"}:
                ctx.violation("C10.R8", ni.qual, loc(ni), "one placeholder per input, named like the input",
                              f"Node(payload with args {given}, inputs=[a, b]) stores positional arguments {vkey(args_)} and wires its inputs as {wired}; expected arguments "
                              f"{want} and inputs {{'input0': a, 'input1': b}} — lowering looks up the position of each upstream value by that name")
                break
        else:
            ctx.ok("C10.R8", loc(ni), f"placeholders | payload args {given} -> {want}, inputs wired under the same names")


RULES.append(r8_placeholders)


def r9_memory_lifecycle(ctx):
    """C10.R9 / C09 (reader side): histories on the worker's Memory — a value handled locally is provided from the local store without
    touching shared memory; a fetched input is read once (second provide served from the cache) and its buffer is *held*; pop() and
    __exit__ close every held buffer exactly once (the store's reader accounting depends on that close)."""
    repo = ctx.repo
    M = "cascade.executor.runner.memory.Memory"
    D = dsid("TA")
    BUF = Obj("cascade.shm.client.AllocatedBuffer", {"deser_fun": "df"}, name="BUF")
    shm_calls = lambda p: [e for e in p.effects if e.kind == "call" and (e.data.get("qual") or e.data.get("name") or "").startswith("cascade.shm.client.")]
    closes = lambda p: [e for e in p.effects if e.kind == "call" and e.data.get("method") == "close" and getattr(e.data.get("recv_value"), "name", "") == "BUF"]
    models = {"cascade.shm.client.get": lambda run, a, k, n, f: BUF, "cascade.executor.serde.des_output": lambda run, a, k, n, f: Atom("VALUE")}
    for q in ("handle", "provide", "pop", "__exit__"):
        ctx.analysed(f"{M}.{q}")
    L = loc(repo.func(f"{M}.provide"))
    # 1. local value
    ps = Interp(repo, call_models=models).explore(repo.func(f"{M}.handle"), env={"self.local": {}, "self.bufs": {}, "self.worker": worker("H1")},
                                                   args={"outputId": D, "outputSchema": "Any", "outputValue": Atom("V"), "isPublish": False})
    ctx.evals(len(ps))
    if len(ps) != 1 or ps[0].exit[0] != "return":
        ctx.undecided("C10.R9", L, f"Memory.handle (unpublished output): {[(p.exit[0], vkey(p.exit[1])[:50]) for p in ps]}")
    else:
        heap = {k: v for k, v in ps[0].heap.items() if k.startswith("self.")}
        ps2 = Interp(repo, call_models=models).explore(repo.func(f"{M}.provide"), env=heap, args={"inputId": D, "annotation": "Any"})
        ctx.evals(len(ps2))
        if len(ps2) != 1 or ps2[0].exit != ("return", Atom("V")) and getattr(ps2[0].exit[1], "name", None) != "V" or shm_calls(ps2[0]):
            ctx.violation("C10.R9", f"{M}.handle", loc(repo.func(f"{M}.handle")), "a locally produced value is provided locally",
                          f"handle(D, value V, isPublish=False) then provide(D): {[(p.exit[0], vkey(p.exit[1])[:50]) for p in ps2]} with "
                          f"{[e.data.get('name') for p in ps2 for e in shm_calls(p)]} shared-memory calls; expected V straight from the local store "
                          f"(an unpublished intermediate of a fused sequence exists nowhere else)")
        else:
            ctx.ok("C10.R9", L, "handle(unpublished) -> provide returns the value from the local store, no shm access")
    # 2. fetched input: read once, cached, buffer held
    ps = Interp(repo, call_models=models).explore(repo.func(f"{M}.provide"), env={"self.local": {}, "self.bufs": {}}, args={"inputId": D, "annotation": "Any"})
    ctx.evals(len(ps))
    if len(ps) != 1 or ps[0].exit[0] != "return":
        ctx.undecided("C10.R9", L, f"Memory.provide (first read): {[(p.exit[0], vkey(p.exit[1])[:50]) for p in ps]}")
        return
    p1 = ps[0]
    heap = {k: v for k, v in p1.heap.items() if k.startswith("self.")}
    held = [v for v in (heap.get("self.bufs") or {}).values() if getattr(v, "name", "") == "BUF"] if isinstance(heap.get("self.bufs"), dict) else []
    ps2 = Interp(repo, call_models=models).explore(repo.func(f"{M}.provide"), env=heap, args={"inputId": D, "annotation": "Any"})
    ctx.evals(len(ps2))
    if getattr(p1.exit[1], "name", None) != "VALUE" or len(ps2) != 1 or getattr(ps2[0].exit[1], "name", None) != "VALUE" or shm_calls(ps2[0]) or closes(p1):
        ctx.violation("C10.R9", f"{M}.provide", L, "fetched input read once and cached",
                      f"provide(D) twice: first -> {vkey(p1.exit[1])[:40]} (closes {len(closes(p1))}), second -> {[(p.exit[0], vkey(p.exit[1])[:40]) for p in ps2]} with "
                      f"{sum(len(shm_calls(p)) for p in ps2)} shm call(s); expected the decoded value both times, one get, buffer still open")
    elif len(held) != 1:
        ctx.violation("C10.R9", f"{M}.provide", L, "reader buffer held for the later close",
                      f"after provide(D) the buffer returned by shm get is not remembered (bufs = {vkey(heap.get('self.bufs'))[:80]}): nobody will ever close it, the store "
                      f"keeps counting a reader and can neither evict nor purge the dataset")
    else:
        ctx.ok("C10.R9", L, "provide: one shm get, decoded value cached, buffer held")
        for q, args in (("pop", {"ds": D}), ("__exit__", {"exc_type": None, "exc_val": None, "exc_tb": None})):
            fi = repo.func(f"{M}.{q}")
            ps3 = Interp(repo, call_models=models).explore(fi, env=heap, args=args)
            ctx.evals(len(ps3))
            for p in ps3:
                if p.exit[0] != "return" or len(closes(p)) != 1:
                    ctx.violation("C10.R9", fi.qual, loc(fi), f"{q} closes the held buffer once", f"provide(D) then {q}: ends {p.exit[0]}, the reader's buffer is closed "
                                  f"{len(closes(p))} time(s); the store releases the dataset only on that close")
                    break
                if q == "pop" and (D in (p.heap.get("self.local") or {}) or D in (p.heap.get("self.bufs") or {})):
                    ctx.violation("C10.R9", fi.qual, loc(fi), "pop forgets the dataset", f"after pop(D): local={vkey(p.heap.get('self.local'))[:60]} bufs={vkey(p.heap.get('self.bufs'))[:60]}")
                    break
            else:
                ctx.ok("C10.R9", loc(fi), f"provide -> {q}: buffer closed exactly once")


RULES.append(r9_memory_lifecycle)

from .common import lazy  # noqa: E402
RULES += [lazy("C14", "r6_payload_not_shared", "placeholders appended for one node must not leak into the payload of another"),
          lazy("C12", "r2_writer", "an input reference is written in the form node2task reads (bare name = default output only)"),
          lazy("C12", "r1_deserialise", "reader side of the same reference forms")]
RULES.append(lazy("C19", "r1_with_values", "values bound through the builder reach the callable at the positions / names given, also when bound in two steps"))


def r10_resolve_callable(ctx):
    """C10.R10 / C01: a callable named by its dotted path (task entrypoints, custom serde functions) is looked up as attribute <last
    component> of module <everything before the last dot>; a name without a dot is a builtin.  Decided on three representative names
    with importlib.import_module modelled (the string operations are computed exactly)."""
    repo = ctx.repo
    fi = repo.func("cascade.low.func.resolve_callable")
    ctx.analysed(fi.qual)
    for name, want_mod, want_attr in (("json.dumps", "json", "dumps"), ("os.path.basename", "os.path", "basename"),
                                      ("cascade.benchmarks.generators.ser_numpy", "cascade.benchmarks.generators", "ser_numpy")):
        seen = {}

        def imp(run, a, k, n, f):
            seen["mod"] = a[0] if a else None
            d_ = {"path": Atom("wrong-1"), name.split(".", 1)[1]: Atom("wrong-2")}
            d_[want_attr] = Atom("THE-CALLABLE")
            return Obj("module", {"__dict__": d_}, name="MOD")
        ps = Interp(repo, call_models={"importlib.import_module": imp}).explore(fi, args={"s": name})
        ctx.evals(len(ps))
        good = len(ps) == 1 and ps[0].exit[0] == "return" and getattr(ps[0].exit[1], "name", None) == "THE-CALLABLE" and seen.get("mod") == want_mod
        if not good:
            ctx.violation("C10.R10", fi.qual, loc(fi), "dotted name -> (module, attribute)",
                          f"resolve_callable({name!r}) imports {seen.get('mod')!r} and ends {[(p.exit[0], vkey(p.exit[1])[:50]) for p in ps]}; expected module {want_mod!r}, "
                          f"attribute {want_attr!r} — a task whose entrypoint (or serde function) lives in a sub-module fails instead of computing its node")
        else:
            ctx.ok("C10.R10", loc(fi), f"resolve_callable({name!r}) -> import {want_mod!r}, attribute {want_attr!r}")


RULES.append(r10_resolve_callable)


def r11_no_memo(ctx):
    """C10.R11: lowering and task execution keep no memo keyed by object identity (see common.memo_by_identity)."""
    from .common import memo_by_identity
    memo_by_identity(ctx, "C10.R11", ("cascade.low.core", "cascade.low.into", "cascade.low.func", "cascade.executor.runner.runner", "cascade.executor.runner.packages"),
                     "a job lowered later in the same process gets the encoding / binding computed for an earlier state of that object (a closure whose "
                     "captured values changed, a callable at a recycled address): its tasks run a stale callable and compute different values")


RULES.append(r11_no_memo)
