"""C11 — graph transformations preserve the computation the graph denotes (structural clauses)."""
from __future__ import annotations

import ast

from ..interp import Interp
from ..lib import is_call, loc, unparse
from ..repo import walk_scope
from ..terms import App, Atom, Attr, ModelFn, Obj, Sub, Sym, Term, vkey

G = "earthkit.workflows.graph"
NODE = f"{G}.nodes.Node"
OUT = f"{G}.nodes.Output"
META = {
    "explanation": "Static structural analysis of the graph transformers on model nodes: every node callback that keeps or copies a node rewires it "
                   "to the transformed parents (all input keys kept); duplicate detection compares outputs, input names, the consumed output name "
                   "and the parent identity (exact truth table); fusion is attempted only for single-consumer parents and a fused node inherits the "
                   "consumer count; expansion keys sub-graph leaves by their exact un-prefixed names (no character-set stripping); a cut edge's "
                   "sink and source share one name and every input is kept or cut. Later rules: cut names digest the whole record, spliced names are injective ('n' vs 'pre.n'), a transformed parent's output is looked up as an output for any output name. Not decided: denotational equality over all DAGs.",
    "assumptions": ["user callbacks (fusion, expander, key function, splice overrides) are opaque"],
}


def _node(name="n", inputs=None, outputs=None, payload="p"):
    return Obj(NODE, {"name": name, "inputs": dict(inputs or {}), "outputs": list(outputs if outputs is not None else ["0"]), "payload": payload}, name=f"node:{name}")


def _out(parent, name="0"):
    return Obj(OUT, {"parent": parent, "name": name}, name=f"out:{vkey(parent)}.{name}")


def r1_prefix_strip(ctx):
    repo = ctx.repo
    n = 0
    for fi in repo.all_funcs():
        if not fi.module.name.startswith(G):
            continue
        for c in walk_scope(fi.node):
            if isinstance(c, ast.Call) and isinstance(c.func, ast.Attribute) and c.func.attr in ("strip", "lstrip", "rstrip") and c.args:
                n += 1
                a = c.args[0]
                if isinstance(a, ast.Constant) and isinstance(a.value, str) and (len(a.value) <= 1 or a.value.isspace()):
                    ctx.ok("C11.R1", loc(fi, c), "strip of a single character / whitespace set")
                else:
                    ctx.violation("C11.R1", fi.qual, loc(fi, c), f"{c.func.attr}({unparse(a)[:40]})",
                                  f"{unparse(c)[:80]}: str.{c.func.attr} removes a *set of characters*, not a prefix/suffix — a name sharing characters with the "
                                  f"stripped text is mangled (parent 'main', leaf 'mean' -> 'ean'); use removeprefix/removesuffix")
    ctx.evals(n + 1)
    # semantic check of the leaf table built by Splicer.graph
    fi = repo.func(f"{G}.expand.Splicer.graph")
    ctx.analysed(fi.qual)
    for parent, leafs in (("main", ["mean", "inner"]), ("op", ["out", "o2"]), ("a.b", ["a", "b"])):
        sinks = [_node(f"{parent}.{l}") for l in leafs]
        from .common import ctor_env
        env = {**ctor_env(repo, f"{G}.expand.Splicer", {"name": parent, "inputs": {}, "input_map": None, "outputs": ["o"], "output_map": {"o": leafs[0]}}),
               "self.name": parent, "self.outputs": {"o": leafs[0]}}
        paths = Interp(repo).explore(fi, env=env, args={"sinks": sinks})
        ctx.evals(len(paths))
        for p in paths:
            rv = p.exit[1] if p.exit[0] == "return" else None
            leaves = rv.fields.get("leaves", rv.args[1] if isinstance(rv, Obj) and len(rv.args) > 1 else None) if isinstance(rv, Obj) else None
            inner = rv.fields.get("inner_sinks", rv.args[3] if isinstance(rv, Obj) and len(rv.args) > 3 else None) if isinstance(rv, Obj) else None
            good = isinstance(leaves, dict) and list(leaves.keys()) == [leafs[0]] and getattr(leaves[leafs[0]], "name", "") == f"node:{parent}.{leafs[0]}" \
                and isinstance(inner, list) and [getattr(x, "name", "") for x in inner] == [f"node:{parent}.{l}" for l in leafs[1:]]
            if not good:
                ctx.violation("C11.R5", fi.qual, loc(fi), "leaf table of an expanded node",
                              f"expanding node '{parent}' whose output maps to sub-graph sink '{leafs[0]}': leaves={vkey(leaves)[:120]} inner_sinks={vkey(inner)[:80]}; "
                              f"the leaf must be keyed by its exact un-prefixed name '{leafs[0]}' or consumers of the expanded node are not wired to it")
            else:
                ctx.ok("C11.R5", loc(fi), f"parent '{parent}': leaf keyed '{leafs[0]}', other sinks kept as inner sinks")


CALLBACKS = [("copy._Copier.node", "node"), ("rename._Renamer.node", "n"), ("deduplicate._DedupTransformer.node", "node"), ("fuse._FuseTransformer.node", "node"),
             ("expand.Splicer.processor", "p"), ("expand.Splicer.sink", "s"), ("expand._Expander.node", "n"), ("split.Splitter.node", "node")]


def r2_rewire(ctx):
    repo = ctx.repo
    n = 0
    for suffix, pname in CALLBACKS:
        fi = repo.func(f"{G}.{suffix}")
        ctx.analysed(fi.qual)
        n += 1
        is_split = "Splitter" in suffix
        new = {"a": Sym("NEW_a"), "b": Sym("NEW_b")} if not is_split else {"a": (Sym("K_a"), _out(Atom("PA"))), "b": (Sym("K_b"), _out(Atom("PB")))}
        nd = _node("n", {"a": Sym("OLD_a"), "b": Sym("OLD_b")})
        env = {"self.name": "pre", "self.outputs": {}, "self.nodes": set(), "self.cuts": [], "self.sinks": {}}
        if "Splicer" in suffix:
            from .common import ctor_env
            env = {**ctor_env(repo, f"{G}.expand.Splicer", {"name": "pre", "inputs": {}, "input_map": None, "outputs": [], "output_map": None}), **env}
        ip = Interp(repo, inline={f"{NODE}.copy"}, max_iter=2)
        paths = ip.explore(fi, env=env, args={pname: nd, "inputs": new})
        ctx.evals(len(paths))
        kept = 0
        for p in paths:
            if p.exit[0] != "return":
                continue
            rv = p.exit[1]
            tgt = rv[1] if (is_split and isinstance(rv, tuple) and len(rv) == 2) else rv
            ins = None
            if isinstance(tgt, Obj) and tgt.cls == NODE:
                if tgt.name == nd.name:
                    ins = tgt.fields.get("inputs")
                else:  # freshly constructed node: inputs passed as keywords
                    ins = tgt.fields.get("inputs") or {k: v for k, v in tgt.kwargs.items() if k in new}  # the final state of the object wins over its constructor arguments
            elif isinstance(tgt, Term):
                st = [e for e in p.effects if e.kind == "store" and e.data.get("attr") == "inputs" and e.data.get("base") == tgt]
                if st:
                    ins = st[-1].data["value"]
                elif isinstance(tgt, App) and not any(x in tgt.fname for x in ("copy", "__class__")):
                    continue  # another object (dedup hit, fused node, spliced sub-graph): rewired by whoever produced it
            if ins is None:
                ctx.violation("C11.R2", fi.qual, loc(fi), "rewire to transformed parents",
                              f"{suffix}: a path returns the node ({vkey(tgt)[:60]}) without connecting it to the transformed parents: it still points into the old graph")
                continue
            kept += 1
            if not isinstance(ins, dict) or set(ins.keys()) != {"a", "b"}:
                ctx.violation("C11.R2", fi.qual, loc(fi), "all inputs rewired", f"{suffix}: inputs after the transformation are {vkey(ins)[:100]} (expected keys a, b)")
            elif not is_split and (ins["a"] != Sym("NEW_a") or ins["b"] != Sym("NEW_b")):
                ctx.violation("C11.R2", fi.qual, loc(fi), "inputs are the transformed parents", f"{suffix}: node wired to {vkey(ins)[:100]} instead of the transformed parents NEW_a/NEW_b")
            elif is_split and any("OLD_" in vkey(v) for v in ins.values()):
                ctx.violation("C11.R2", fi.qual, loc(fi), "inputs are the transformed parents", f"{suffix}: node keeps an untransformed input {vkey(ins)[:100]}")
            elif "Splicer" in suffix and isinstance(tgt, Obj) and tgt.fields.get("name") != "pre.n":
                ctx.violation("C11.R2", fi.qual, loc(fi), "spliced node prefixed",
                              f"{suffix}: a sub-graph node 'n' spliced into parent 'pre' is named {tgt.fields.get('name')!r}, expected 'pre.n' (un-prefixed names collide with nodes of the outer graph)")
            else:
                ctx.ok("C11.R2", loc(fi), f"{suffix}: kept/copied node rewired to all transformed parents")
        if not kept and not any(v.func == fi.qual for v in ctx.violations):
            ctx.undecided("C11.R2", loc(fi), f"{suffix}: no path keeps the node on the model")
    ctx.floor("C11.R2.callbacks", n, 8)
    # the renaming of spliced sub-graph nodes is injective: sub-graph nodes 'n' and 'pre.n' (a name may contain the parent's name and a dot)
    # spliced into parent 'pre' get different names — Splicer.graph strips the prefix again to find the mapped leaves
    from .common import ctor_env
    for suffix, pname in (("expand.Splicer.processor", "p"), ("expand.Splicer.sink", "s"), ("expand.Splicer.source", "s")):
        fi = repo.func(f"{G}.{suffix}")
        names = {}
        for inner in ("n", "pre.n"):
            env = {**ctor_env(repo, f"{G}.expand.Splicer", {"name": "pre", "inputs": {}, "input_map": None, "outputs": [], "output_map": None}),
                   "self.name": "pre", "self.outputs": {}, "self.inputs": {}}
            nd = _node(inner, {})
            for p in Interp(repo, inline={f"{NODE}.copy"}, max_iter=2).explore(fi, env=env, args={pname: nd, "inputs": {}}):
                rv = p.exit[1] if p.exit[0] == "return" else None
                if isinstance(rv, Obj) and isinstance(rv.fields.get("name"), str):
                    names[inner] = rv.fields["name"]
        if len(names) == 2 and names["n"] == names["pre.n"]:
            ctx.violation("C11.R2", fi.qual, loc(fi), "spliced names are injective",
                          f"{suffix}: sub-graph nodes 'n' and 'pre.n' spliced into parent 'pre' are both named {names['n']!r}: two nodes of the result share a name, and the leaf "
                          f"lookup of the expansion (which strips the parent prefix again) takes one for the other")
        elif len(names) == 2:
            ctx.ok("C11.R2", loc(fi), f"{suffix}: 'n' -> {names['n']!r}, 'pre.n' -> {names['pre.n']!r}")
        else:
            ctx.undecided("C11.R2", loc(fi), f"{suffix}: spliced names not evaluable on the model ({names})")
    # a transformer class in the package we do not know about?
    known = {s.split(".")[1] for s, _ in CALLBACKS}
    for q, ci in repo.classes.items():
        if ci.module.name.startswith(G) and any(b.endswith("Transformer") for b in repo.class_mro(q)[1:]) and ci.name not in known and ci.name != "Transformer":
            ctx.undecided("C11.R2", f"{ci.module.path}:{ci.node.lineno}", f"new Transformer subclass {ci.name}: its callbacks are not covered")


def r3_fuse(ctx):
    repo = ctx.repo
    fi = repo.func(f"{G}.fuse._FuseTransformer.node")
    ctx.analysed(fi.qual)
    for consumers in (1, 2):
        for accepts in (True, False):
            P = _node("parent")
            nd = _node("child", {"x": _out(P)})
            FUSED = _node("fused")
            calls = []

            def func(run, a, k, n, f, _acc=accepts):
                calls.append(a)
                it_ = f.locals.get("inputs")
                if it_ is not None and len(a) > 2 and isinstance(a[2], Obj) and a[2].fields.get("inputs") is it_.value:
                    run.model_aliased = True
                    run.effect("alias", n, f, what="the node handed to the fusion callback has, as its inputs, the very dict the loop iterates")
                return FUSED if _acc else None
            env = {"self.counter": {P: consumers, nd: 5}, "self.func": ModelFn("fusion callback", func)}
            paths = Interp(repo).explore(fi, env=env, args={"node": nd, "inputs": {"x": _out(P)}})
            ctx.evals(len(paths))
            atoms = {"parent_consumers": consumers, "callback_accepts": accepts}
            for p in paths:
                called = bool([e for e in p.effects if e.kind == "call" and e.data["name"] == "self.func"] or calls)
                if calls and not (len(calls[0]) == 4 and getattr(calls[0][0], "name", "") == P.name and calls[0][1] == "0" and getattr(calls[0][2], "name", "") == nd.name and calls[0][3] == "x"):
                    ctx.violation("C11.R3", fi.qual, loc(fi), "fusion callback arguments",
                                  f"{atoms}: the fusion callback is called with {vkey(calls[0])[:120]}, documented as (parent, parent output, current node, current input)", row=atoms)
                    continue
                if any(e.kind == "alias" for e in p.effects):
                    ctx.violation("C11.R3", fi.qual, loc(fi), "callback may edit the node it is given",
                                  f"{atoms}: while the loop iterates over the transformed inputs, the fusion callback is handed a node whose `inputs` is that same dict: a "
                                  f"callback that folds the parent into the child in place (documented use) changes the dict under iteration — RuntimeError instead of a graph", row=atoms)
                    continue
                rv = p.exit[1] if p.exit[0] == "return" else None
                want_call = consumers <= 1
                if bool([e for e in p.effects if e.kind == "call" and isinstance(e.data.get("callee"), ModelFn)]) != want_call:
                    ctx.violation("C11.R3", fi.qual, loc(fi), "fusion only for single-consumer parents",
                                  f"{atoms}: the fusion callback is {'called' if not want_call else 'not called'}; fusing a parent that has another consumer removes a node the other consumer needs", row=atoms)
                elif want_call and accepts and not (isinstance(rv, Obj) and rv.name == FUSED.name and _cnt(p, FUSED) == 5):
                    ctx.violation("C11.R3", fi.qual, loc(fi), "fused node inherits the consumer count", f"{atoms}: result {vkey(rv)[:40]}, consumer count of the fused node {_cnt(p, FUSED)} (expected 5)", row=atoms)
                elif not (want_call and accepts) and not (isinstance(rv, Obj) and rv.name == nd.name and set(rv.fields["inputs"]) == {"x"}):
                    ctx.violation("C11.R3", fi.qual, loc(fi), "unfused node kept", f"{atoms}: result {vkey(rv)[:60]}", row=atoms)
                else:
                    ctx.ok("C11.R3", loc(fi), f"fuse | {atoms}")
            calls.clear()


def _cnt(p, fused):
    c = p.heap.get("self.counter", {})
    for k, v in c.items():
        if getattr(k, "name", None) == fused.name:
            return v
    return None


def r4_split(ctx):
    repo = ctx.repo
    fi = repo.func(f"{G}.split.Splitter.cut_edge")
    ctx.analysed(fi.qual)
    cut = Obj(f"{G}.split.CutEdge", {"name": "__cut_X__"}, name="cut")
    for p in Interp(repo).explore(fi, args={"cut": cut, "sink_in": Sym("SRC_OUT")}):
        rv = p.exit[1] if p.exit[0] == "return" else None
        good = isinstance(rv, tuple) and len(rv) == 2 and all(isinstance(x, Obj) and x.cls == NODE for x in rv)
        if good:
            sink, source = rv
            sn = sink.args[0] if sink.args else sink.kwargs.get("name")
            so = source.args[0] if source.args else source.kwargs.get("name")
            good = sn == so == "__cut_X__" and sink.kwargs.get("outputs") == [] and Sym("SRC_OUT") in sink.kwargs.values() and not source.kwargs
        if not good:
            ctx.violation("C11.R4", fi.qual, loc(fi), "cut edge replacement",
                          f"cut_edge returns {vkey(rv)[:140]}; expected (sink named cut.name consuming the cut output, source with the same name) so the parts can be re-joined")
        else:
            ctx.ok("C11.R4", loc(fi), "cut edge: sink and source share cut.name; the sink consumes the cut output")
    nfi = repo.func(f"{G}.split.Splitter.node")
    PA, PB = _node("pa"), _node("pb")
    nd = _node("n", {"a": Sym("OLD_a"), "b": Sym("OLD_b")})
    SRC = _node("cutsrc")
    cut_args = []
    ip = Interp(repo, call_models={"self.key": lambda run, a, k, n, f: "K1",
                                   f"{G}.split.Splitter.cut_edge": lambda run, a, k, n, f: (cut_args.append(list(a)), (_node("cutsink"), SRC))[1]})
    env = {"self.cuts": [], "self.sinks": {}}
    # upstream values are produced by the splitter's own node()/output() so that the rule is independent of their representation
    ofi = repo.func(f"{G}.split.Splitter.output")
    ups = {}
    for nm, src, key, oname in (("a", PA, "K1", "0"), ("b", PB, "K2", "o2")):
        ipk = Interp(repo, call_models={"self.key": lambda run, a, k, n, f, _k=key: _k})
        tp = [q for q in ipk.explore(nfi, env={"self.cuts": [], "self.sinks": {}}, args={"node": src, "inputs": {}}) if q.exit[0] == "return"]
        to = [q for q in (Interp(repo, call_models={f"{NODE}.get_output": lambda run, a, k, n, f, _s=src: _out(_s, a[0] if a else k.get("name", "0"))})
                          .explore(ofi, env={}, args={"tnode": tp[0].exit[1], "output": oname}) if len(tp) == 1 else []) if q.exit[0] == "return"]
        if len(to) != 1:
            ctx.undecided("C11.R4", loc(ofi), f"cannot obtain the transformed output of an upstream node through Splitter.node/output ({len(tp)}/{len(to)} paths)")
            return
        ups[nm] = to[0].exit[1]
    paths = ip.explore(nfi, env=env, args={"node": nd, "inputs": ups})
    ctx.evals(len(paths))
    for p in paths:
        rv = p.exit[1] if p.exit[0] == "return" else None
        cuts = p.heap.get("self.cuts", [])
        sinks = p.heap.get("self.sinks", {})
        good = isinstance(rv, tuple) and rv[0] == "K1" and isinstance(rv[1], Obj) and set(rv[1].fields["inputs"]) == {"a", "b"}
        if good:
            ins = rv[1].fields["inputs"]
            c = cuts[0] if len(cuts) == 1 and isinstance(cuts[0], Obj) else None
            cf = c.fields if c is not None else {}
            good = getattr(ins["a"], "name", "") == _out(PA).name and len(cuts) == 1 and list(sinks.keys()) == ["K2"] \
                and (cf.get("source_key"), cf.get("source_node"), cf.get("source_output"), cf.get("dest_key"), cf.get("dest_node"), cf.get("dest_input")) == ("K2", "pb", "o2", "K1", "n", "b")
        if good and cut_args and not (isinstance(cut_args[-1][0], Obj) and cut_args[-1][0].cls.endswith("CutEdge") and getattr(cut_args[-1][1], "name", "") == _out(PB, "o2").name):
            ctx.violation("C11.R4", nfi.qual, loc(nfi), "cut_edge arguments", f"cut_edge is called with {vkey(cut_args[-1])[:120]}, expected (the CutEdge, the output being cut)")
            continue
        if not good:
            ctx.violation("C11.R4", nfi.qual, loc(nfi), "every input kept or cut",
                          f"node in part K1 with input a from K1 and input b from K2 (output o2 of pb): result {vkey(rv)[:120]}, cuts {vkey(cuts)[:160]}, sinks {vkey(sinks)[:80]}; "
                          f"expected a kept, b replaced by the cut source, one CutEdge(K2, pb, o2 -> K1, n, b), the cut sink added to part K2")
        else:
            ctx.ok("C11.R4", loc(nfi), "same-part input kept, cross-part input cut and recorded with both endpoints")


def r6_cmp_nodes(ctx):
    """C11.R6: de-duplication merges a node into an earlier one exactly when outputs, input names, consumed outputs and parents
    agree AND the payload predicate agrees — decided through the transformer's own entry point (_DedupTransformer.node), whatever
    helpers it is built from."""
    repo = ctx.repo
    fi = repo.func(f"{G}.deduplicate._DedupTransformer.node")
    ctx.analysed(fi.qual)
    for h in ("_cmp_nodes", "_DedupTransformer.__find_node"):
        if f"{G}.deduplicate.{h}" in repo.funcs:
            ctx.analysed(f"{G}.deduplicate.{h}")
    P1, P2 = _node("p1"), _node("p2")
    table = []
    for pred_val in (True, False):
        for same_outputs in (True, False):
            for same_keys in (True, False):
                for same_oname in (True, False):
                    for same_parent in (True, False):
                        a = _node("a", {"x": _out(P1, "o1")}, ["0"])
                        b = _node("b", {}, ["0"] if same_outputs else ["0", "1"])
                        b_in = {("x" if same_keys else "y"): _out(P1 if same_parent else P2, "o1" if same_oname else "o2")}
                        env = {"self.nodes": {a}, "self.pred": ModelFn("pred", lambda run, a_, k, n, f, _v=pred_val: _v)}
                        paths = Interp(repo).explore(fi, env=env, args={"node": b, "inputs": b_in})
                        ctx.evals(len(paths))
                        got = [getattr(p.exit[1], "name", vkey(p.exit[1])) for p in paths if p.exit[0] == "return"]
                        merge = same_outputs and same_keys and same_oname and same_parent and pred_val
                        atoms = {"same_outputs": same_outputs, "same_input_names": same_keys, "same_consumed_output": same_oname,
                                 "same_parent_object": same_parent, "payload_predicate": pred_val}
                        table.append({**atoms, "result": vkey(got), "spec": "merged" if merge else "kept apart"})
                        want = [a.name if merge else b.name]
                        kept = None
                        if len(paths) == 1 and isinstance(paths[0].heap.get("self.nodes"), (set, list, dict)):
                            kept = sorted(getattr(x, "name", "?") for x in paths[0].heap["self.nodes"])
                        if len(paths) != 1 or got != want or (kept is not None and kept != ([a.name] if merge else sorted([a.name, b.name]))):
                            ctx.violation("C11.R6", fi.qual, loc(fi), "node equivalence for de-duplication",
                                          f"{atoms}: the transformer returns {got if got else [p.exit[0] for p in paths]} (remembered nodes {kept}), must be {want} — merging nodes "
                                          f"that differ in outputs, input names, the consumed output, the parent or the payload changes what a sink computes; not "
                                          f"merging identical ones is what de-duplication is for", row=atoms)
                        else:
                            ctx.ok("C11.R6", loc(fi), f"dedup | {atoms} -> {'merged' if merge else 'kept apart'}")
    ctx.table("C11.R6", table)


RULES = [r1_prefix_strip, r2_rewire, r3_fuse, r4_split, r6_cmp_nodes]


def r7_expander_and_dedup(ctx):
    """C11.R7: _Expander.node — an unexpanded node is kept and rewired, an expanded one is replaced by the splicer's result built from
    (node name, transformed inputs, input map, node outputs, output map); _DedupTransformer.node — the first of two equal nodes is
    remembered and returned for the second."""
    repo = ctx.repo
    fi = repo.func(f"{G}.expand._Expander.node")
    ctx.analysed(fi.qual)
    new = {"a": Sym("NEW_a")}
    for what, ret in (("not expanded", None), ("graph", Obj(f"{G}.graph.Graph", {"sinks": []}, name="SUB")),
                      ("graph + maps", (Obj(f"{G}.graph.Graph", {"sinks": []}, name="SUB"), {"s": "a"}, {"0": "leaf"}))):
        nd = _node("n", {"a": Sym("OLD_a")}, ["0"])
        sp_args = []

        def splicer(run, a, k, n, f):
            sp_args.append(list(a))
            return Obj("splicer", {}, name="SP")
        env = {"self.expand": ModelFn("expander", lambda run, a, k, n, f, _r=ret: _r), "self.splicer": ModelFn("splicer factory", splicer)}
        paths = Interp(repo).explore(fi, env=env, args={"n": nd, "inputs": dict(new)})
        ctx.evals(len(paths))
        for p in paths:
            rv = p.exit[1] if p.exit[0] == "return" else None
            if ret is None:
                good = isinstance(rv, Obj) and rv.name == nd.name and rv.fields["inputs"] == new and not sp_args
                exp = "the node itself, rewired to the transformed inputs"
            else:
                g = ret if isinstance(ret, Obj) else ret[0]
                im, om = (None, None) if isinstance(ret, Obj) else (ret[1], ret[2])
                tr = [e for e in p.effects if e.kind == "call" and e.data.get("method") == "transform"]
                good = len(sp_args) == 1 and sp_args[0][0] == "n" and sp_args[0][1] == new and sp_args[0][2] == im and sp_args[0][3] == ["0"] and sp_args[0][4] == om \
                    and len(tr) == 1 and getattr(tr[0].data["args"][0], "name", "") == g.name and rv == tr[0].data["result"]
                exp = "splicer(node name, transformed inputs, input map, node outputs, output map).transform(sub-graph)"
            if not good:
                ctx.violation("C11.R7", fi.qual, loc(fi), f"expansion: {what}",
                              f"expander returns {what}: _Expander.node yields {vkey(rv)[:80]} with splicer arguments {vkey(sp_args)[:160]}; expected {exp}")
            else:
                ctx.ok("C11.R7", loc(fi), f"expansion ({what}): {exp}")
            sp_args.clear()
    dn = repo.func(f"{G}.deduplicate._DedupTransformer.node")
    ctx.analysed(dn.qual)
    first, second = _node("first", {"a": Sym("x")}), _node("second", {"a": Sym("x")})
    models = {f"{G}.deduplicate._cmp_nodes": lambda *a: True}
    env = {"self.nodes": set(), "self.pred": ModelFn("pred", lambda *a: True)}
    ip = Interp(repo, call_models=models, inline={f"{G}.deduplicate._DedupTransformer.__find_node"})
    p1 = ip.explore(dn, env=env, args={"node": first, "inputs": {"a": Sym("x")}})
    if len(p1) != 1 or p1[0].exit[0] != "return":
        ctx.undecided("C11.R7", loc(dn), "dedup node callback not deterministic on the model")
        return
    remembered = p1[0].heap["self.nodes"]
    p2 = ip.explore(dn, env={"self.nodes": remembered, "self.pred": env["self.pred"]}, args={"node": second, "inputs": {"a": Sym("x")}})
    rv = p2[0].exit[1] if len(p2) == 1 and p2[0].exit[0] == "return" else None
    if getattr(p1[0].exit[1], "name", None) != first.name or getattr(rv, "name", None) != first.name:
        ctx.violation("C11.R7", dn.qual, loc(dn), "duplicates merged",
                      f"two equal nodes visited in turn: the first yields {vkey(p1[0].exit[1])[:40]}, the second {vkey(rv)[:40]} (remembered set {vkey(remembered)[:60]}); "
                      f"the second must be replaced by the first — otherwise de-duplication leaves equal nodes behind")
    else:
        ctx.ok("C11.R7", loc(dn), "the first of two equal nodes is remembered and returned for the second")


RULES.append(r7_expander_and_dedup)


def r8_splicer_maps(ctx):
    """C11.R8: Splicer.__init__ — `None` means "no map" (inputs by name / outputs by name), an explicit map — also an empty one —
    is honoured; splice_source keeps the replaced source's outputs and payload and connects it to the mapped input."""
    repo = ctx.repo
    fi = repo.func(f"{G}.expand.Splicer.__init__")
    ctx.analysed(fi.qual)
    inputs = {"a": Sym("IN_a"), "b": Sym("IN_b")}
    cases = [(None, None, inputs, {"o1": "o1", "o2": "o2"}), ({}, {}, {}, {"o1": "o1", "o2": "o2"}),
             ({"src": "a"}, {"o1": "leaf"}, {"src": Sym("IN_a")}, {"o1": "leaf", "o2": "o2"})]
    for imap, omap, want_in, want_out in cases:
        me = Obj(f"{G}.expand.Splicer", {}, name="SPL")
        paths = Interp(repo).explore(fi, args={"self": me, "name": "n", "inputs": dict(inputs), "input_map": imap, "outputs": ["o1", "o2"], "output_map": omap})
        ctx.evals(len(paths))
        for p in paths:
            got = None
            for e in p.effects:
                for v in e.data.values():
                    if isinstance(v, Obj) and v.name == "SPL":
                        got = v
            gi, go = (got.fields.get("inputs"), got.fields.get("outputs")) if got is not None else (None, None)
            if p.exit[0] != "return" or gi != want_in or go != want_out:
                ctx.violation("C11.R8", fi.qual, loc(fi), "input / output maps honoured",
                              f"Splicer(inputs a,b; input_map={imap!r}; outputs o1,o2; output_map={omap!r}): inputs={vkey(gi)[:80]} outputs={vkey(go)[:80]}; expected inputs={vkey(want_in)} "
                              f"outputs={want_out} (an explicit empty input map means 'connect nothing'; treating it like None splices a same-named sub-graph source to the outer graph)")
            else:
                ctx.ok("C11.R8", loc(fi), f"Splicer maps | input_map={imap!r} output_map={omap!r}")
    ss = repo.func(f"{G}.expand.Splicer.splice_source")
    ctx.analysed(ss.qual)
    src = _node("s", {}, ["x", "y"], payload="PAY")
    for p in Interp(repo).explore(ss, args={"name": "n.s", "s": src, "input": Sym("IN")}):
        rv = p.exit[1] if p.exit[0] == "return" else None
        outs = (rv.args[1] if len(rv.args) > 1 else rv.kwargs.get("outputs")) if isinstance(rv, Obj) else None
        pay = (rv.args[2] if len(rv.args) > 2 else rv.kwargs.get("payload")) if isinstance(rv, Obj) else None
        nm = (rv.args[0] if rv.args else rv.kwargs.get("name")) if isinstance(rv, Obj) else None
        if not (isinstance(rv, Obj) and rv.cls == NODE and nm == "n.s" and outs == ["x", "y"] and pay == "PAY" and Sym("IN") in rv.kwargs.values()):
            ctx.violation("C11.R8", ss.qual, loc(ss), "spliced source keeps its outputs",
                          f"splice_source('n.s', source with outputs [x, y], input) builds {vkey(rv)[:120]}; the replacement must keep the source's outputs and payload and consume the mapped input "
                          f"(consumers of a named output of that source could not be rewired otherwise)")
        else:
            ctx.ok("C11.R8", loc(ss), "splice_source keeps name, outputs, payload and connects the mapped input")


RULES.append(r8_splicer_maps)


def r9_traversal_by_identity(ctx):
    """C11.R9: the generic traversal transforms every node exactly once and wires each consumer to its own transformed parents, also when a
    transformer renames nodes in place to names that other, not yet visited nodes still carry (progress must be tracked per node object,
    not per name): chain s0 -> s1 -> s2 renamed to s1, s2, s3."""
    repo = ctx.repo
    fi = repo.func(f"{G}.transform.Transformer.transform")
    ctx.analysed(fi.qual)
    s0 = _node("s0", {}, ["0"], payload="f0")
    s1 = _node("s1", {"x": _out(s0, "0")}, ["0"], payload="f1")
    s2 = _node("s2", {"x": _out(s1, "0")}, ["0"], payload="f2")
    for nd, nm in ((s0, "s0"), (s1, "s1"), (s2, "s2")):
        nd.fields["name"] = nm
    ren = Obj(f"{G}.rename._Renamer", {"func": ModelFn("shift", lambda run, a, k, n, f: "s" + str(int(a[0][1:]) + 1))}, name="RENAMER")
    g = Obj(f"{G}.graph.Graph", {"sinks": [s2]}, name="GRAPH")
    ip = Interp(repo, inline=lambda f: f.qual.startswith(G + "."), max_while=12, max_concrete_iter=12)
    paths = ip.explore(fi, args={"self": ren, "graph": g})
    ctx.evals(len(paths))
    if len(paths) != 1 or paths[0].exit[0] != "return":
        ctx.undecided("C11.R9", loc(fi), f"the traversal of the model chain is not a single completed path: {[(p.exit[0], vkey(p.exit[1])[:60]) for p in paths][:3]}")
        return
    p = paths[0]
    cb = [e for e in p.effects if e.kind == "call" and (e.data.get("qual") or "").endswith("rename._Renamer.node")]
    visited = [getattr(e.data["args"][0], "fields", {}).get("payload") if e.data["args"] else None for e in cb]
    rv = p.exit[1]
    sinks = rv.args[0] if isinstance(rv, Obj) and rv.args else (rv.fields.get("sinks") if isinstance(rv, Obj) else None)
    chain = []
    cur = sinks[0] if isinstance(sinks, list) and len(sinks) == 1 else None
    for _ in range(5):
        if not isinstance(cur, Obj):
            break
        chain.append((cur.fields.get("name"), cur.fields.get("payload")))
        ins = cur.fields.get("inputs") or {}
        nxt = list(ins.values())[0] if len(ins) == 1 else None
        if isinstance(nxt, Attr) and isinstance(nxt.base, Sym):  # getattr(<transformed node>, <output name>): the node is referred to by its model name
            byname = {e.data["args"][0].name: e.data["args"][0] for e in cb if e.data["args"] and isinstance(e.data["args"][0], Obj)}
            cur = byname.get(nxt.base.name)
        else:
            cur = nxt.fields.get("parent") if isinstance(nxt, Obj) and "parent" in nxt.fields else (nxt.args[0] if isinstance(nxt, Obj) and nxt.args else None)
    want_chain = [("s3", "f2"), ("s2", "f1"), ("s1", "f0")]
    if sorted(map(str, visited)) != ["f0", "f1", "f2"] or chain != want_chain:
        ctx.violation("C11.R9", fi.qual, loc(fi), "every node transformed once, consumers wired to their own parents",
                      f"chain f0 -> f1 -> f2 with nodes renamed in place s_i -> s_(i+1): the node callback ran for payloads {visited}, the resulting sink denotes "
                      f"{chain}; expected each node once and the chain {want_chain} — a step of the computation disappears when progress is tracked by (mutable) names")
    else:
        ctx.ok("C11.R9", loc(fi), "traversal keyed by node identity: in-place renaming onto names still in use loses nothing")


RULES.append(r9_traversal_by_identity)


def r10_split_history(ctx):
    """C11.R10: a history through the Splitter's own callbacks (state from Splitter.__init__): producer pb in part K2 with output o2, two
    consumers n and n2 in part K1 — every cut input is reported with its own CutEdge (destination node and input), so that re-joining
    along the reported cuts restores every original edge."""
    repo = ctx.repo
    init = repo.func(f"{G}.split.Splitter.__init__")
    nfi = repo.func(f"{G}.split.Splitter.node")
    ofi = repo.func(f"{G}.split.Splitter.output")
    ctx.analysed(nfi.qual)
    keyof = {"pb": "K2", "n": "K1", "n2": "K1"}
    KEY = ModelFn("key", lambda run, a, k, n, f: keyof[a[0].fields["name"]])
    ps = Interp(repo).explore(init, args={"key": KEY})
    heap = {k: v for k, v in ps[0].heap.items() if k.startswith("self.")} if len(ps) == 1 else None
    if heap is None:
        ctx.undecided("C11.R10", loc(init), "Splitter.__init__ is not a single path")
        return
    heap["self.key"] = KEY
    PB = _node("pb", {}, ["o2"])
    PB.fields["name"] = "pb"
    models = {f"{NODE}.get_output": lambda run, a, k, n, f: _out(run.cur_call.get("recv_value"), a[0] if a else "0"),
              f"{G}.split.Splitter.cut_edge": lambda run, a, k, n, f: (_node("cutsink"), Obj(NODE, {"name": "cutsrc", "outputs": ["0"], "inputs": {}}, name="cutsrc"))}

    def step(fi, heap, args):
        ps = [q for q in Interp(repo, call_models=models).explore(fi, env=heap, args=args) if q.exit[0] == "return"]
        ctx.evals(1)
        if len(ps) != 1:
            raise RuntimeError(f"{fi.name}: {len(ps)} completed paths")
        return ps[0].exit[1], {k: v for k, v in ps[0].heap.items() if k.startswith("self.")}
    try:
        tpb, heap = step(nfi, heap, {"node": PB, "inputs": {}})
        o_pb, heap = step(ofi, heap, {"tnode": tpb, "output": "o2"})
        N1 = _node("n", {"b": Sym("OLD")}, ["0"])
        N1.fields["name"] = "n"
        _, heap = step(nfi, heap, {"node": N1, "inputs": {"b": o_pb}})
        N2 = _node("n2", {"c": Sym("OLD2")}, ["0"])
        N2.fields["name"] = "n2"
        _, heap = step(nfi, heap, {"node": N2, "inputs": {"c": o_pb}})
    except RuntimeError as e:
        ctx.undecided("C11.R10", loc(nfi), f"cannot drive the splitter history: {e}")
        return
    cuts = heap.get("self.cuts")
    got = sorted((c.fields.get("source_node"), c.fields.get("source_output"), c.fields.get("dest_node"), c.fields.get("dest_input"))
                 for c in cuts if isinstance(c, Obj)) if isinstance(cuts, list) else None
    want = [("pb", "o2", "n", "b"), ("pb", "o2", "n2", "c")]
    if got != want:
        ctx.violation("C11.R10", nfi.qual, loc(nfi), "every cut input reported",
                      f"pb.o2 (part K2) consumed by n.b and n2.c (both in part K1): reported cut edges {got}; expected {want} — an input replaced by a cut source without "
                      f"a CutEdge of its own cannot be re-connected when the parts are joined again")
    else:
        ctx.ok("C11.R10", loc(nfi), "two consumers of one foreign output in one part: one CutEdge each")


RULES.append(r10_split_history)


def r11_cut_names_injective(ctx):
    """C11.R11: the name under which a cut edge's stand-in source and sink nodes are created identifies the cut edge — two different cut edges
    never share it, for any node, input and output names (re-joining the parts matches stand-ins by that name).  Decided on the symbolic
    value of CutEdge.name for a cut edge with six unconstrained fields: every field must reach the digested text, and no piece of text may
    embed two or more of the free-form fields side by side with fixed separators (a separator occurring inside a name moves the boundary:
    'a' + '.' + 'b.c' and 'a.b' + '.' + 'c' read the same).  The whole record (its generated hash / repr, or a tuple of the fields) is
    unambiguous by construction."""
    from ..terms import FStr, Op, subterms, Term, Sym, App
    repo = ctx.repo
    cq = f"{G}.split.CutEdge"
    fi = repo.func(f"{cq}.name")
    ctx.analysed(fi.qual)
    ci = repo.classes[cq]
    fields = [f for f in ci.fields]
    ctx.floor("C11.R11.fields", len(fields), 6)
    cut = Obj(cq, {f: Sym(f"<{f}>") for f in fields}, name="CUT", frozen=True)
    ps = [p for p in Interp(repo).explore(fi, args={"self": cut}) if p.exit[0] == "return"]
    ctx.evals(len(ps))
    if len(ps) != 1:
        ctx.undecided("C11.R11", loc(fi), f"CutEdge.name is not a single returning path ({len(ps)})")
        return
    v = ps[0].exit[1]
    whole = any(isinstance(t, Obj) and t.name == "CUT" for t in subterms(v))
    k = vkey(v)
    missing = [f for f in fields if f"<{f}>" not in k] if not whole else []
    if missing:
        ctx.violation("C11.R11", fi.qual, loc(fi), "every field of the cut edge reaches its name",
                      f"name = {k[:160]}: the field(s) {missing} do not enter it, so two cut edges differing only there get the same stand-in nodes")
        return
    glued = None
    for t in subterms(v):
        direct = []
        if isinstance(t, FStr):
            direct = [x for x in t.parts if isinstance(x, Sym) and x.name.startswith("<")]
        elif isinstance(t, Op) and t.op in ("+", "add", "Add"):
            direct = [x for x in t.operands if isinstance(x, Sym) and x.name.startswith("<")]
        elif isinstance(t, App) and t.fname.endswith(".join"):
            direct = [x for a in t.args for x in (a if isinstance(a, (list, tuple)) else [a]) if isinstance(x, Sym) and x.name.startswith("<")]
        if len(direct) >= 2:
            glued = (t, direct)
            break
    if glued:
        ctx.violation("C11.R11", fi.qual, loc(fi), "cut name is unambiguous",
                      f"the digested text {vkey(glued[0])[:150]} embeds the free-form fields {[x.name for x in glued[1]]} side by side with fixed separators: names that "
                      f"contain the separator shift the boundary (source 'a' output 'b.c' and source 'a.b' output 'c' give the same text), so two distinct cut edges "
                      f"share one name and the re-joined graph wires a consumer to the wrong producer")
    else:
        ctx.ok("C11.R11", loc(fi), f"CutEdge.name = {k[:80]}: " + ("digest of the whole record" if whole else "every field enters separately"))


RULES.append(r11_cut_names_injective)


def r12_outputs_resolved_by_name(ctx):
    """C11.R12: when a transformation re-connects a consumer to the transformed version of its parent, the parent's output is looked up *as an
    output* — for any output name.  A plain attribute lookup on the transformed node finds the node's own attributes and methods first: an
    output called `payload`, `name`, `inputs`, `outputs` or `copy` would hand the consumer that attribute instead of the output, and an
    output whose name attribute-style access refuses (leading underscore, …) would fall back to a dangling placeholder.  Decided on
    `Transformer.__transform_output` for a transformed parent that is a graph Node with outputs named like its attributes."""
    repo = ctx.repo
    fi = repo.func(f"{G}.transform.Transformer.__transform_output")
    ctx.analysed(fi.qual)
    n = 0
    for oname in ("data", "payload", "name", "copy", "_mask", "0"):
        parent = _node("P", outputs=[oname], payload=41)
        out = _out(Atom("OLD_P"), oname)
        ip = Interp(repo, inline={f"{NODE}.get_output", f"{NODE}.__getattr__", f"{NODE}._make_output"},
                    facts={"hasattr(self,'output')": False})
        ps = [p for p in ip.explore(fi, args={"node": parent, "output": out}) if not any(d.key.startswith("hasattr(self") and d.value for d in p.decisions)]
        ctx.evals(len(ps))
        for p in ps:
            n += 1
            rv = p.exit[1] if p.exit[0] == "return" else None
            good = isinstance(rv, Obj) and rv.cls == OUT and ({**rv.kwargs, **rv.fields}.get("name", rv.args[1] if len(rv.args) > 1 else None) == oname) \
                and getattr(({**rv.kwargs, **rv.fields}.get("parent", rv.args[0] if rv.args else None)), "name", None) == parent.name
            if not good:
                ctx.violation("C11.R12", fi.qual, loc(fi), "a parent's output is looked up as an output",
                              f"transformed parent P declares the output {oname!r}; the consumer of P.{oname} is re-connected to {vkey(rv)[:100]} ({p.exit[0]}) instead of the "
                              f"output {oname!r} of P — an attribute lookup finds the node's own `{oname}` attribute / method first (or refuses the name), so copying, renaming, "
                              f"de-duplicating, fusing or expanding the graph changes what the consumer reads", row={"output": oname})
                break
        else:
            continue
        break
    else:
        ctx.ok("C11.R12", loc(fi), "outputs named like attributes, methods or private names are re-connected as outputs")
    ctx.floor("C11.R12.paths", n, 1)


RULES.append(r12_outputs_resolved_by_name)


def r13_visit_dispatch_and_dedup_entry(ctx):
    """C11.R13: (a) `node_visit` classifies a node by its inputs first: a node without inputs is a *source* whether or not it has outputs (an
    isolated node is both input-free and output-free; expansion splices a sub-graph source named in the input map to the expanded node's
    input — dispatching the isolated node as a sink leaves it unconnected), a node with inputs and no outputs is a sink, the rest are
    processors.  (b) `deduplicate_nodes` always runs the de-duplicating transformation: there is no cheap sufficient test for "nothing to
    merge" (two equal nodes below *distinct* sources share a parent, they need not sit below duplicated sources)."""
    repo = ctx.repo
    fv = repo.func(f"{G}.visit.node_visit")
    ctx.analysed(fv.qual)
    table = []
    for has_in, has_out, want in ((False, False, "source"), (False, True, "source"), (True, False, "sink"), (True, True, "processor")):
        nd = _node("n", {"a": Sym("IN")} if has_in else {}, outputs=["0"] if has_out else [])
        called = []

        def mk(kind):
            return ModelFn(kind, lambda run, a, k, n, f, _k=kind: (called.append(_k), Sym(f"RESULT_{_k}"))[1])
        impl = Obj("builtins.object", {k: mk(k) for k in ("source", "sink", "processor", "node")}, name="IMPL")
        ip = Interp(repo, inline={f"{NODE}.is_source", f"{NODE}.is_sink", f"{NODE}.is_processor"})
        ps = ip.explore(fv, args={"impl": impl, "node": nd, "inputs": {"a": Sym("NEW")} if has_in else {}})
        ctx.evals(len(ps))
        got = sorted({vkey(p.exit[1]).replace("RESULT_", "") for p in ps if p.exit[0] == "return"})
        table.append({"inputs": has_in, "outputs": has_out, "dispatched_to": got, "spec": want})
        if got != [want]:
            ctx.violation("C11.R13", fv.qual, loc(fv), "visit dispatch",
                          f"node with{'' if has_in else 'out'} inputs and with{'' if has_out else 'out'} outputs is handed to {got}; expected the `{want}` callback — "
                          f"{'an isolated node is a source: expansion connects sources named in the input map, a sink callback only renames it' if not has_in and not has_out else 'every transformer relies on this classification'}",
                          row={"inputs": has_in, "outputs": has_out})
        else:
            ctx.ok("C11.R13", loc(fv), f"node_visit | inputs={has_in} outputs={has_out} -> {want}")
    ctx.table("C11.R13", table)
    fd = repo.func(f"{G}.deduplicate.deduplicate_nodes")
    ctx.analysed(fd.qual)
    n = 0
    for p in Interp(repo, max_iter=1).explore(fd, args={"graph": Sym("GRAPH")}):
        if p.exit[0] != "return":
            continue
        n += 1
        rv = p.exit[1]
        if not (isinstance(rv, App) and rv.fname.endswith("transform") and any(vkey(a) == "GRAPH" for a in rv.args)):
            ctx.violation("C11.R13", fd.qual, loc(fd), "de-duplication always performed",
                          f"deduplicate_nodes returns {vkey(rv)[:80]} on the path where {', '.join(f'{d.key[:50]}={d.value}' for d in p.decisions[-2:]) or 'no condition'}: the graph "
                          f"is handed back without the de-duplicating transformation, so equal nodes (same payload, outputs and inputs) below distinct sources stay")
            break
    else:
        ctx.ok("C11.R13", loc(fd), "deduplicate_nodes: every path returns the transformed graph")
    ctx.floor("C11.R13.dedup_paths", n, 1)


RULES.append(r13_visit_dispatch_and_dedup_entry)


def r14_key_evaluated_once(ctx):
    """C11.R14: splitting places every node in exactly one part: the part of a node is the value the key function returned *when the node was
    visited*, carried along with the transformed node.  The key function is user code (`depth // 2`, a round-robin counter, anything hashable) and
    the splitter rewires visited nodes to cut placeholders in place, so asking it again later — for the producer of an input, for a sink — may
    give another answer than the one the node was placed under; the reported cuts then name parts the nodes are not in.  Structural rule: in
    `Splitter`, `self.key(...)` is applied only to the node being visited, in the node callback."""
    repo = ctx.repo
    cq = f"{G}.split.Splitter"
    ci = repo.classes[cq]
    n = 0
    bad = None
    for mname, fi in ci.methods.items():
        for node in walk_scope(fi.node):
            if isinstance(node, ast.Call) and isinstance(node.func, ast.Attribute) and node.func.attr == "key" \
                    and isinstance(node.func.value, ast.Name) and node.func.value.id == "self":
                n += 1
                arg = node.args[0] if node.args else None
                first = next((p_ for p_ in fi.params if p_ != "self"), None)
                if mname != "node" or not (isinstance(arg, ast.Name) and arg.id == first):
                    bad = (fi, node)
    if bad:
        fi, node = bad
        ctx.violation("C11.R14", fi.qual, loc(fi, node), "the key function is asked once per node",
                      f"{fi.qual} evaluates {ast.unparse(node)}: the part of a node is decided when it is visited; re-computing the key of an already visited node (a parent, "
                      f"a sink) can give a different part for impure or structure-dependent key functions, so cut edges name parts their endpoints are not in")
    else:
        ctx.ok("C11.R14", loc(ci.methods["node"]) if "node" in ci.methods else cq, "Splitter: self.key is applied to the visited node only, once")
    ctx.floor("C11.R14.key_calls", n, 1)


RULES.append(r14_key_evaluated_once)
