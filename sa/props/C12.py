"""C12 — serialising a graph and reading it back gives an equal graph (structural clauses)."""
from __future__ import annotations

import graphlib

from ..interp import Interp
from ..lib import is_call, loc
from ..terms import App, Atom, Obj, Sym, Term, vkey
from .C11 import _node, _out, NODE

G = "earthkit.workflows.graph"
EXP = f"{G}.export"
META = {
    "explanation": "Static structural analysis of the serialise/deserialise pair on model graphs: every serialised node is re-created (also isolated "
                   "ones), each input is re-connected to the named output of the named parent in both encodings (default-output and (parent, output)), "
                   "the rebuilt graph's sinks are exactly the nodes nobody consumes — whether or not they declare outputs; the writer emits the keys "
                   "the reader consumes and every attribute Graph.__eq__ compares; the Cascade file format is exactly dill(serialise(graph)) / "
                   "deserialise(dill.load(file)) with nothing in between. Not decided: payload fidelity through JSON, name uniqueness.",
    "assumptions": ["graphlib.TopologicalSorter is modelled by the real topological order of the dependency table the code builds", "dill is opaque"],
}


def _ts_models():
    def mk(run, a, k, n, f):
        return Obj("graphlib.TopologicalSorter", {"deps": a[0] if a else {}}, name="TS")

    def order(run, a, k, n, f):
        ts = None
        for e in run.effects:
            r = e.data.get("result")
            if isinstance(r, Obj) and r.name == "TS":
                ts = r
        deps = ts.fields["deps"] if ts is not None else {}
        if not isinstance(deps, dict):
            return App("static_order", ())
        return list(graphlib.TopologicalSorter({k_: list(v) for k_, v in deps.items()}).static_order())
    return {"graphlib.TopologicalSorter": mk, "TS.static_order": order}


def r1_deserialise(ctx):
    repo = ctx.repo
    fi = repo.func(f"{EXP}.deserialise")
    ctx.analysed(fi.qual)
    data = {
        "a": {"outputs": ["0"], "inputs": {}, "payload": 1},
        "b": {"outputs": ["0", "o2"], "inputs": {"x": "a"}, "payload": 2},
        "c": {"outputs": [], "inputs": {"y": ["b", "o2"], "z": "a"}, "payload": 3},
        "t": {"outputs": ["0"], "inputs": {"w": ("b", "o2"), "v": "b"}},
        "iso": {"outputs": ["0"], "inputs": {}, "payload": 5},
        "s": {"outputs": ["data"], "inputs": {}, "payload": 6},          # exactly one output, and it is a *named* one
        "u": {"outputs": ["0"], "inputs": {"q": ["s", "data"]}, "payload": 0},  # falsy payload
        # node names are arbitrary: this one reads like "output `data` of node `s`" (namespaced / expanded graphs produce dotted names)
        "s.data": {"outputs": ["0"], "inputs": {}, "payload": 7},
        "v": {"outputs": ["0"], "inputs": {"r": "s.data"}, "payload": 8},       # the default output of the node called 's.data'
    }
    from ..terms import FuncRef
    ip = Interp(repo, call_models=_ts_models(), inline={f"{EXP}._deserialise_node", f"{EXP}.default_node_factory", f"{G}.nodes.Node.__init__",
                                                         f"{G}.nodes.Node.is_sink", f"{G}.nodes.Node.is_source", f"{G}.nodes.Node.get_output",
                                                         f"{G}.nodes.Node._make_output", f"{G}.nodes.Output.__init__"})
    import copy as _copy
    pristine = _copy.deepcopy(data)
    paths = ip.explore(fi, env={"data": data}, args={"node_factory": FuncRef(repo.func(f"{EXP}.default_node_factory"))})
    ctx.evals(len(paths))
    if len(paths) == 1 and paths[0].exit[0] == "raise":
        ctx.violation("C12.R1", fi.qual, loc(fi), "model data deserialises", f"a well-formed serialised graph cannot be read back: {vkey(paths[0].exit[1])[:100]}")
        return
    if len(paths) != 1 or paths[0].exit[0] != "return":
        ctx.undecided("C12.R1", loc(fi), f"deserialise is not deterministic on the model data: {[(p.exit[0], vkey(p.exit[1])[:80]) for p in paths][:2]} {paths[0].cond_text()[:200]}")
        return
    p = paths[0]
    g = p.exit[1]
    after = p.heap.get("data")
    if vkey(after) != vkey(pristine):
        ctx.violation("C12.R1", fi.qual, loc(fi), "the serialised form is only read",
                      f"deserialise changes the dict it is given: before {vkey(pristine)[:120]} … after {vkey(after)[:120]} … — reading the same serialised graph a second time "
                      f"(or writing it to a file afterwards) no longer yields the graph that was serialised")
    else:
        ctx.ok("C12.R1", loc(fi), "deserialise leaves its input untouched")
    made = {}
    for e in p.effects:
        r = e.data.get("result") if e.kind == "call" else None
        if isinstance(r, Obj) and r.cls == NODE and r.args:
            made[r.args[0]] = r
    if sorted(made) != sorted(data):
        ctx.violation("C12.R1", fi.qual, loc(fi), "every node re-created",
                      f"serialised nodes {sorted(data)}; nodes re-created {sorted(made)} — a node without inputs that nobody consumes (a single-node graph, a stand-alone source) is lost")
    else:
        ctx.ok("C12.R1", loc(fi), "every serialised node is re-created (also isolated ones)")
    sinks = g.args[0] if isinstance(g, Obj) and g.cls.endswith("graph.Graph") and g.args else (g.kwargs.get("sinks") if isinstance(g, Obj) else None)
    names = sorted(s.args[0] for s in sinks if isinstance(s, Obj) and s.args) if isinstance(sinks, list) else None
    want = ["c", "iso", "t", "u", "v"]
    if names != want:
        ctx.violation("C12.R1", fi.qual, loc(fi), "sinks of the rebuilt graph",
                      f"the rebuilt graph is defined by sinks {names}; it must be the nodes no other node consumes: {want} ('t' and 'iso' declare outputs but are terminal) — "
                      f"otherwise nodes are unreachable and the graph read back is not equal to the one written")
    else:
        ctx.ok("C12.R1", loc(fi), "sinks = exactly the unconsumed nodes, with or without outputs")
    for nm, nd in made.items():
        exp_out = data[nm].get("outputs", [])
        got_out = nd.args[1] if len(nd.args) > 1 else nd.kwargs.get("outputs")
        got_pay = nd.args[2] if len(nd.args) > 2 else nd.kwargs.get("payload")
        if got_out != exp_out or got_pay != data[nm].get("payload"):
            ctx.violation("C12.R2", fi.qual, loc(fi), f"attributes of node {nm}", f"node {nm}: outputs {vkey(got_out)} payload {vkey(got_pay)}; written {exp_out} / {data[nm].get('payload')}")
            continue
        ins = {k: v for k, v in nd.kwargs.items() if k not in ("outputs", "payload")}
        okk = set(ins) == set(data[nm]["inputs"])
        for iname, src in data[nm]["inputs"].items():
            v = ins.get(iname)
            parent, oname = (src, None) if isinstance(src, str) else (src[0], src[1])
            if isinstance(v, Obj) and v.cls.endswith("nodes.Output"):
                par = v.fields.get("parent", v.args[0] if v.args else None)
                onm = v.fields.get("name", v.args[1] if len(v.args) > 1 else None)
                if not (isinstance(par, Obj) and par.args and par.args[0] == parent and onm == (oname if oname is not None else "0")):
                    okk = False
            elif not (isinstance(v, App) and v.fname.endswith("Node.get_output") and isinstance(v.args[0], Obj) and v.args[0].args[0] == parent
                      and (list(v.args[1:]) == ([oname] if oname is not None else []))):
                okk = False
        if not okk:
            ctx.violation("C12.R2", fi.qual, loc(fi), f"inputs of node {nm}", f"node {nm}: inputs written {data[nm]['inputs']} are re-connected as {vkey(ins)[:160]}")
        else:
            ctx.ok("C12.R2", loc(fi), f"node {nm}: outputs, payload and every input (parent, output) restored")
    # and back again: serialising the nodes that deserialise built reproduces the data (reference forms normalised) — the writer and the
    # reader are inverse to each other on the model graph, whatever intermediate representation they share
    sfi = repo.func(f"{G}.nodes.Node.serialise")
    norm = lambda src: (src, "0") if isinstance(src, str) else (src[0], src[1])
    for nm, nd in made.items():
        if not nd.fields:
            continue  # constructor not evaluated: nothing to serialise from
        ps = Interp(repo, inline={f"{G}.nodes.Output.serialise"}).explore(sfi, args={"self": nd})
        ctx.evals(len(ps))
        outs = [q.exit[1] for q in ps if q.exit[0] == "return" and not any(d.key.startswith("hasattr") and d.value for d in q.decisions)]
        want_d = {"outputs": data[nm].get("outputs", []), "inputs": {k: norm(v) for k, v in data[nm]["inputs"].items()}}
        if "payload" in data[nm]:
            want_d["payload"] = data[nm]["payload"]
        okk = False
        for o in outs:
            if isinstance(o, dict) and isinstance(o.get("inputs"), dict):
                try:
                    got_d = {**o, "inputs": {k: norm(v) for k, v in o["inputs"].items()}}
                except Exception:
                    continue
                if got_d == want_d:
                    okk = True
        if not okk:
            ctx.violation("C12.R2", sfi.qual, loc(sfi), f"round trip of node {nm}",
                          f"node {nm} read from {want_d} serialises back to {vkey(outs)[:200]}: writer and reader are not inverse to each other")
        else:
            ctx.ok("C12.R2", loc(sfi), f"node {nm}: serialise(deserialise(data)) == data")


def r5_json_path(ctx):
    """C12.R5: the JSON path adds and removes nothing: to_json hands json.dumps exactly the serialised form of every node of the model
    graph (also falsy payloads, empty input / output lists), from_json hands deserialise exactly what json.loads returned."""
    repo = ctx.repo
    tj, fj = repo.func(f"{EXP}.to_json"), repo.func(f"{EXP}.from_json")
    ctx.analysed(tj.qual)
    ctx.analysed(fj.qual)
    P = _node("p", outputs=["data"], payload=0)
    Q = _node("q", {"x": _out(P, "data")}, [], payload="")
    R_ = _node("r", {}, ["0"], payload={"k": []})
    want = {"p": {"outputs": ["data"], "inputs": {}, "payload": 0}, "q": {"outputs": [], "inputs": {"x": ("p", "data")}, "payload": ""},
            "r": {"outputs": ["0"], "inputs": {}, "payload": {"k": []}}}
    cap = {}

    def dumps(run, a, k, n, f):
        cap["v"] = a[0] if a else None
        return "JSON-TEXT"
    g = Obj(f"{G}.graph.Graph", {"sinks": [Q, R_]}, name="GRAPH")
    ip = Interp(repo, call_models={"json.dumps": dumps, ("method", "nodes"): lambda run, a, k, n, f: [P, Q, R_]},
                inline={f"{EXP}.serialise", f"{G}.nodes.Node.serialise", f"{G}.nodes.Output.serialise"})
    ps = [p_ for p_ in ip.explore(tj, args={"graph": g}) if not any(d.key.startswith("hasattr") and d.value for d in p_.decisions)]
    ctx.evals(len(ps))
    if not ps or any(p_.exit != ("return", "JSON-TEXT") for p_ in ps):
        ctx.violation("C12.R5", tj.qual, loc(tj), "to_json returns the JSON text", f"to_json on the model graph ends {[(p_.exit[0], vkey(p_.exit[1])[:60]) for p_ in ps]}")
    else:
        got = cap.get("v")
        norm = lambda d: {n_: {**v, "inputs": {k: (tuple(x) if isinstance(x, (list, tuple)) else x) for k, x in v.get("inputs", {}).items()}} for n_, v in d.items()} if isinstance(d, dict) else d
        if not isinstance(got, dict) or norm(got) != want:
            ctx.violation("C12.R5", tj.qual, loc(tj), "JSON text holds the whole serialised graph",
                          f"nodes p (payload 0, output 'data'), q (payload '', no outputs, input x<-p.data), r (payload {{'k': []}}): json.dumps is given {vkey(got)[:260]}; "
                          f"expected {vkey(want)[:200]} — a payload JSON represents faithfully (0, '', [], false) must not be dropped")
        else:
            ctx.ok("C12.R5", loc(tj), "to_json: json.dumps receives the complete serialised form, falsy payloads and empty lists included")
    seen = {}
    LOADED = {"n": {"outputs": [], "inputs": {}, "payload": 0}}
    ip = Interp(repo, call_models={"json.loads": lambda run, a, k, n, f: LOADED, f"{EXP}.deserialise": lambda run, a, k, n, f: seen.setdefault("arg", a[0] if a else None) and "GRAPH-BACK" or "GRAPH-BACK"})
    ps = ip.explore(fj, args={"data": "TEXT"})
    ctx.evals(len(ps))
    if len(ps) != 1 or ps[0].exit != ("return", "GRAPH-BACK") or seen.get("arg") != LOADED:
        ctx.violation("C12.R5", fj.qual, loc(fj), "from_json = deserialise(json.loads(text))", f"from_json ends {[(p_.exit[0], vkey(p_.exit[1])[:60]) for p_ in ps]}, deserialise is given "
                      f"{vkey(seen.get('arg'))[:100]} (json.loads returned {vkey(LOADED)})")
    else:
        ctx.ok("C12.R5", loc(fj), "from_json: deserialise receives exactly what json.loads returned")


def r2_writer(ctx):
    repo = ctx.repo
    fi = repo.func(f"{G}.nodes.Node.serialise")
    ctx.analysed(fi.qual)
    P, Q = _node("p", outputs=["o1", "o2"]), _node("q")
    nd = _node("n", {"x": _out(P, "o1"), "y": _out(Q, "0")}, ["b", "a"], payload={"k": 1})  # outputs deliberately not in alphabetical order
    ip = Interp(repo, inline={f"{G}.nodes.Output.serialise"})
    paths = ip.explore(fi, args={"self": nd})
    ctx.evals(len(paths))
    got = [p.exit[1] for p in paths if p.exit[0] == "return" and not any(d.key.startswith("hasattr") and d.value for d in p.decisions)]
    want = {"outputs": ["b", "a"], "inputs": {"x": ("p", "o1"), "y": "q"}, "payload": {"k": 1}}
    if want not in got:
        ctx.violation("C12.R2", fi.qual, loc(fi), "serialised node content",
                      f"Node(outputs [b,a] (in this order), inputs x<-p.o1, y<-q (default output), payload) serialises to {vkey(got)[:200]}; expected {want} "
                      f"(every attribute Graph.__eq__ compares must be written; default outputs as the bare parent name)")
    else:
        ctx.ok("C12.R2", loc(fi), "Node.serialise writes outputs, inputs (both reference forms) and payload")
    ser = repo.func(f"{EXP}.serialise")
    ctx.analysed(ser.qual)
    n1, n2 = _node("n1"), _node("n2")
    gobj = Obj(f"{G}.graph.Graph", {}, name="G")
    ip = Interp(repo, call_models={f"{G}.graph.Graph.nodes": lambda run, a, k, n, f: [n1, n2]})
    for p in ip.explore(ser, args={"graph": gobj}):
        rv = p.exit[1] if p.exit[0] == "return" else None
        if not (isinstance(rv, dict) and sorted(rv) == ["n1", "n2"] and all(isinstance(v, App) and v.fname.endswith("Node.serialise") for v in rv.values())):
            ctx.violation("C12.R2", ser.qual, loc(ser), "one entry per node", f"serialise(graph with nodes n1, n2) = {vkey(rv)[:160]}; expected {{name: node.serialise()}} for every node")
        else:
            ctx.ok("C12.R2", loc(ser), "serialise: one entry per node, keyed by the node name")


def r4_cascade_file(ctx):
    repo = ctx.repo
    C = "earthkit.workflows.Cascade"
    rd = repo.func(f"{C}.from_serialised")
    wr = repo.func(f"{C}.serialise")
    ctx.analysed(rd.qual)
    ctx.analysed(wr.qual)
    for p in Interp(repo).explore(rd):
        rv = p.exit[1] if p.exit[0] == "return" else None
        good = isinstance(rv, App) and rv.fname == "cls" and len(rv.args) == 1 and isinstance(rv.args[0], App) and rv.args[0].fname == f"{EXP}.deserialise" \
            and len(rv.args[0].args) == 1 and isinstance(rv.args[0].args[0], App) and rv.args[0].args[0].fname == "dill.load"
        opens = [e for e in p.effects if e.kind == "call" and e.data["name"] == "builtins.open"]
        good = good and opens and "rb" in opens[0].data["args"][1:] + list(opens[0].data["kwargs"].values())
        if not good:
            ctx.violation("C12.R4", rd.qual, loc(rd), "file read path",
                          f"Cascade.from_serialised returns {vkey(rv)[:160]}; it must be exactly cls(deserialise(dill.load(file opened 'rb'))) — any transformation in between "
                          f"(e.g. de-duplication) makes the graph read back differ from the one written")
        else:
            ctx.ok("C12.R4", loc(rd), "from_serialised = cls(deserialise(dill.load(f)))")
    GQ = f"{G}.graph.Graph"
    cases = [("a graph with one sink", Obj(GQ, {"sinks": [Obj(NODE, {"name": "n", "inputs": {}, "outputs": ["0"], "payload": 1}, name="N")]}, name="GRAPH")),
             ("an empty graph", Obj(GQ, {"sinks": []}, name="GRAPH"))]
    for label, gobj in cases:
      for p in Interp(repo).explore(wr, env={"self._graph": gobj}):
        dumps = [e for e in p.effects if e.kind == "call" and e.data["name"] == "dill.dump"]
        opens = [e for e in p.effects if e.kind == "call" and e.data["name"] == "builtins.open"]
        d0 = dumps[0].data["args"][0] if len(dumps) == 1 and dumps[0].data["args"] else None
        via_export = isinstance(d0, App) and d0.fname == f"{EXP}.serialise" and d0.args and (getattr(d0.args[0], "name", None) == "GRAPH" or vkey(d0.args[0]) == "self._graph")
        empty_ok = label == "an empty graph" and d0 == {}  # the serialised form of a graph without nodes is the empty mapping
        good = (via_export or empty_ok) and opens and "wb" in opens[0].data["args"][1:]
        if not good:
            ctx.violation("C12.R4", wr.qual, loc(wr), "file write path", "Cascade.serialise must dill.dump(serialise(self._graph)) into a file opened 'wb'")
        else:
            ctx.ok("C12.R4", loc(wr), "serialise = dill.dump(serialise(self._graph), f)")


RULES = [r1_deserialise, r2_writer, r4_cascade_file, r5_json_path]
