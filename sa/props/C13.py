"""C13 — fluent programs denote the arrays NumPy would compute, batched or not (structural clauses)."""
from __future__ import annotations

from ..interp import Interp
from ..lib import is_call, loc
from ..terms import App, Atom, Attr, FStr, Obj, Star, Sub, Sym, Term, mentions, vkey

F = "earthkit.workflows.fluent"
META = {
    "explanation": "Static structural analysis of the batching machinery of the fluent API: the batching rewrite is reachable only for a callable marked "
                   "batchable and never for generators (else an error); with keep_dim the reduced dimension re-inserted is the caller's dimension, not "
                   "the internal batch dimension; a batch that selects a single node is passed through un-reduced; batched mean/std divide by the size "
                   "of the reduced dimension and the un-batched path does not batch; broadcast iterates the operand aligned to the broadcast result. "
                   "Later rules: raw buffers of two node arrays are paired only after alignment, no mutable default argument is mutated (directly or through a helper), every node gets a payload of its own. Not decided: numerical equality with NumPy.",
    "assumptions": ["xarray / numpy are opaque; the batching loop is explored for one level"],
}


def _payload(batchable):
    fn = Obj("callable", {"batchable": True, "__name__": "f"} if batchable else {"__name__": "f"}, name="FN")
    return Obj(F + ".Payload", {"func": fn, "args": [], "kwargs": {}}, name="PAY")


def r1_r2_reduce(ctx):
    repo = ctx.repo
    fi = repo.func(f"{F}.Action.reduce")
    ctx.analysed(fi.qual)
    table = []
    for batchable in (True, False):
        for yields in (None, ("y", [0, 1])):
            for bs in (0, 1, 2):
                for keep in (False, True):
                    ip = Interp(repo, max_while=1, max_iter=1)
                    paths = ip.explore(fi, args={"payload": _payload(batchable), "yields": yields, "dim": "d", "batch_size": bs, "keep_dim": keep})
                    ctx.evals(len(paths))
                    atoms = {"batchable": batchable, "generator": yields is not None, "batch_size": bs, "keep_dim": keep}
                    may_batch = batchable and yields is None and bs > 1
                    for p in paths:
                        bt = [e for e in p.effects if is_call(e, qual=f"{F}.Action.transform") and any(vkey(a) == f"<fn {F}._batch_transform>" for a in e.data["args"])]
                        big = any(d.key.startswith("lt(2,") and d.value for d in p.decisions)
                        if bt and not may_batch:
                            ctx.violation("C13.R1", fi.qual, loc(fi, bt[0].node), "batching guard",
                                          f"{atoms}: the batching rewrite is applied; it is only valid for a batch size > 1 (a batch of one node never shrinks the dimension), a callable marked batchable, and never for a generator", row=atoms)
                            continue
                        if bs > 1 and big and not may_batch and p.exit[0] != "raise":
                            ctx.violation("C13.R1", fi.qual, loc(fi), "batching refused with an error",
                                          f"{atoms}: a batch size smaller than the dimension was requested for a {'generator' if yields else 'non-batchable function'} "
                                          f"and the reduce neither batches nor raises", row=atoms)
                            continue
                        if yields is not None and bs != 0 and p.exit[0] != "raise":
                            ctx.violation("C13.R1", fi.qual, loc(fi), "generator not batched", f"{atoms}: a generator reduce with a batch size does not raise", row=atoms)
                            continue
                        if may_batch and big and not bt and p.exit[0] == "return":
                            ctx.violation("C13.R1", fi.qual, loc(fi), "batching applied", f"{atoms}: batch size 2 < dimension size but no batching step is built", row=atoms)
                            continue
                        if keep and p.exit[0] == "return":
                            idx = [e for e in p.effects if e.kind == "call" and e.data["name"] == "self.nodes.dims.index"]
                            add = [e for e in p.effects if e.kind == "call" and e.data.get("method") == "_add_dimension" or is_call(e, qual=f"{F}.Action._add_dimension")]
                            names = [e.data["args"][0] for e in idx] + [e.data["args"][-3] if len(e.data["args"]) >= 3 else None for e in add]
                            if not idx or not add or any(n_ != "d" for n_ in names):
                                ctx.violation("C13.R2", fi.qual, loc(fi), "keep_dim re-inserts the reduced dimension",
                                              f"{atoms}{' (after a batching level)' if bt else ''}: the dimension looked up on / re-inserted into the original array is {[vkey(n_) for n_ in names]}; "
                                              f"it must be the caller's dimension 'd' — the internal 'batch.<level>.d' exists only in the intermediate arrays", row=atoms)
                                continue
                        ctx.ok("C13.R1", loc(fi), f"reduce | {atoms} batched={bool(bt)} exit={p.exit[0]}")
    # the batching step feeds _batch_transform with (selection of batch_size coordinates, payload) and a fresh batch dimension
    ip = Interp(repo, max_while=1, max_iter=1)
    good = bad = None
    for p in ip.explore(fi, args={"payload": _payload(True), "yields": None, "dim": "d", "batch_size": 2, "keep_dim": False}):
        for e in [e for e in p.effects if is_call(e, qual=f"{F}.Action.transform")][:1]:
            a = e.data["args"]
            if len(a) >= 3 and isinstance(a[1], list) and not a[1]:
                continue  # path on which the parameter loop ran zero times
            if len(a) >= 3 and a[2] == "batch.0.d" and "slice" in vkey(a[1]) and "`PAY`" in vkey(a[1]):
                good = e
            else:
                bad = (e, a)
    if bad is not None:
        ctx.violation("C13.R1", fi.qual, loc(fi, bad[0].node), "batch step parameters", f"batch step built as transform({vkey(bad[1])[:200]})")
    elif good is None:
        ctx.undecided("C13.R1", loc(fi), "no path builds a batching step with parameters")
    else:
        ctx.ok("C13.R1", loc(fi, good.node), "batch step: slices of batch_size coordinates + payload, new dimension batch.0.d")


def r4_batch_transform(ctx):
    repo = ctx.repo
    fi = repo.func(f"{F}._batch_transform")
    ctx.analysed(fi.qual)
    for size in (1, 3):
        sel = Obj(F + ".Action", {"nodes": Obj("xarray.DataArray", {"dims": ("d", "e"), "sizes": {"d": size, "e": 2}}, name="NODES")}, name="SELECTED")
        ip = Interp(repo, call_models={f"{F}.Action.select": lambda run, a, k, n, f, _s=sel: run.__dict__.setdefault("m_sel", __import__("copy").deepcopy(_s))})
        paths = ip.explore(fi, args={"selection": {"d": [0]}, "payload": Sym("PAYLOAD")})
        ctx.evals(len(paths))
        for p in paths:
            red = [e for e in p.effects if is_call(e, qual=f"{F}.Action.reduce")]
            sq = [e for e in p.effects if is_call(e, qual=f"{F}.Action._squeeze_dimension")]
            if size == 1:
                good = not red and len(sq) == 1 and isinstance(p.exit[1], Obj) and p.exit[1].name == "SELECTED"
                what = "a batch holding a single node is passed through (dimension squeezed), not reduced"
                why = " — the back ends read a single positional argument as a nested list and would reduce the node's internal array"
            else:
                good = len(red) == 1 and red[0].data["kwargs"].get("dim") == "d" and red[0].data["args"][-1:] == [Sym("PAYLOAD")] and p.exit[1] == red[0].data["result"]
                what = "a batch of several nodes is reduced with the payload along the batch dimension"
                why = ""
            if p.exit[0] != "return" or not good:
                ctx.violation("C13.R4", fi.qual, loc(fi), f"batch of size {size}", f"batch selecting {size} node(s): reduce x{len(red)}, squeeze x{len(sq)}, returns {vkey(p.exit[1])[:60]}; expected: {what}{why}")
            else:
                ctx.ok("C13.R4", loc(fi), what)


def r3_mean_std(ctx):
    repo = ctx.repo
    for name in ("mean", "std"):
        fi = repo.func(f"{F}.Action.{name}")
        ctx.analysed(fi.qual)
        paths = Interp(repo).explore(fi, args={"dim": "d", "batch_size": 2, "keep_dim": False, "backend_kwargs": {}})
        ctx.evals(len(paths))
        seen = set()
        for p in paths:
            if p.exit[0] != "return":
                continue
            batched = any(d.key.startswith("lt(2,self.nodes.sizes['d'])") and d.value for d in p.decisions) or not any(is_call(e, qual=f"{F}.Action.reduce") for e in p.effects)
            red = [e for e in p.effects if is_call(e, qual=f"{F}.Action.reduce")]
            if red:
                seen.add("plain")
                pay = red[0].data["args"][0] if red[0].data["args"] else None
                fn = pay.fields.get("func") if isinstance(pay, Obj) and pay.fields else (pay.args[0] if isinstance(pay, Obj) and pay.args else None)
                if "batch_size" in red[0].data["kwargs"] and red[0].data["kwargs"]["batch_size"] not in (0, None):
                    ctx.violation("C13.R3", fi.qual, loc(fi, red[0].node), f"un-batched {name}", f"the un-batched {name} path passes batch_size to reduce: {name} is not decomposable over batches")
                elif name not in vkey(fn) and name not in vkey(pay):
                    ctx.violation("C13.R3", fi.qual, loc(fi, red[0].node), f"un-batched {name}", f"the un-batched path reduces with {vkey(pay)[:80]} instead of backends.{name}")
                else:
                    ctx.ok("C13.R3", loc(fi), f"{name}: small/zero batch size -> plain reduce with backends.{name}, no batching")
            else:
                seen.add("batched")
                div = [e for e in p.effects if is_call(e, qual=f"{F}.Action.divide")]
                okk = div and all(vkey(e.data["args"][-1]) == "self.nodes.sizes['d']" for e in div)
                sums = [e for e in p.effects if is_call(e, qual=f"{F}.Action.sum")]
                okk = okk and sums and all(e.data["kwargs"].get("batch_size") == 2 and e.data["kwargs"].get("dim") == "d" for e in sums)
                if name == "std":
                    # each of the two moments is either a batched sum over the dimension divided by its size, or a nested batched mean (decided by the rule for mean)
                    means = [e for e in p.effects if is_call(e, qual=f"{F}.Action.mean") and e.func == fi.qual]
                    own_sums = [e for e in sums if e.func == fi.qual]
                    own_div = [e for e in div if e.func == fi.qual]
                    okk = all(e.data["kwargs"].get("batch_size") == 2 and e.data["kwargs"].get("dim") == "d" for e in means + own_sums) \
                        and all(vkey(e.data["args"][-1]) == "self.nodes.sizes['d']" for e in own_div) and len(own_sums) == len(own_div) and len(own_sums) + len(means) == 2
                if not okk:
                    ctx.violation("C13.R3", fi.qual, loc(fi), f"batched {name}",
                                  f"the batched {name} must be built from batched sums over 'd' divided by the size of the reduced dimension: "
                                  f"divisors {[vkey(e.data['args'][-1]) for e in div]}, sums {[str(e.data['kwargs']) for e in sums]}")
                else:
                    ctx.ok("C13.R3", loc(fi), f"{name}: batched path = batched sum(s) over the dimension / its size")
        if seen != {"plain", "batched"}:
            ctx.undecided("C13.R3", loc(fi), f"{name}: expected a plain and a batched path, found {sorted(seen)}")
        # batch_size 0 and 1 never batch (a batch of one node per level would never shrink the dimension)
        for bs in (0, 1):
            for p in Interp(repo).explore(fi, args={"dim": "d", "batch_size": bs, "keep_dim": False, "backend_kwargs": {}}):
                ctx.evals(1)
                red = [e for e in p.effects if is_call(e, qual=f"{F}.Action.reduce")]
                nested = [e for e in p.effects if e.kind == "call" and (e.data.get("qual") or "") in (f"{F}.Action.sum", f"{F}.Action.mean")]
                if p.exit[0] != "return" or len(red) != 1 or nested or red[0].data["kwargs"].get("batch_size") not in (0, None):
                    ctx.violation("C13.R3", fi.qual, loc(fi), f"{name} with batch_size={bs}",
                                  f"{name}(batch_size={bs}) must be the plain reduce with backends.{name}: it ends {p.exit[0]} with {len(red)} reduce call(s) and "
                                  f"{len(nested)} nested batched reduction(s)")
                else:
                    ctx.ok("C13.R3", loc(fi), f"{name}: batch_size={bs} -> plain reduce")


def r6_named_reduction_options(ctx):
    """C13.R6: the options of a named reduction act the same on every path (batched or not): `keep_dim` reaches every reduce / nested
    reduction the path builds, `backend_kwargs` reaches the back-end call's keyword arguments, and no nested fluent call is handed a
    keyword its signature does not have (so a batch size never turns a valid call into a TypeError or changes the result's dims)."""
    repo = ctx.repo
    names = ["mean", "std", "sum", "min", "max", "prod"]
    n = 0
    for name in names:
        fi = repo.func(f"{F}.Action.{name}")
        ctx.analysed(fi.qual)
        KD = Sym("KEEP")
        for bs in (0, 2):
            paths = Interp(repo).explore(fi, args={"dim": "d", "batch_size": bs, "keep_dim": KD, "backend_kwargs": {"opt": "v"}})
            ctx.evals(len(paths))
            for p in paths:
                n += 1
                if p.exit[0] != "return":
                    ctx.violation("C13.R6", fi.qual, loc(fi), f"{name} completes", f"{name}(dim='d', batch_size={bs}, keep_dim=K, backend_kwargs={{'opt': 'v'}}) ends {p.exit[0]} "
                                  f"{vkey(p.exit[1])[:80]}")
                    break
                calls = [e for e in p.effects if e.kind == "call" and (e.data.get("qual") or "").startswith(f"{F}.Action.")]
                bad = None
                for e in calls:
                    q = e.data["qual"]
                    cfi = repo.funcs.get(q)
                    if cfi is None:
                        continue
                    a = cfi.node.args
                    params = {x.arg for x in a.posonlyargs + a.args + a.kwonlyargs}
                    unknown = [k for k in e.data["kwargs"] if not k.startswith("**") and k not in params]
                    if unknown and a.kwarg is None:
                        bad = (e, f"calls {q.rsplit('.', 1)[-1]}(...) with keyword(s) {unknown} that it does not accept (TypeError as soon as backend_kwargs is not empty)")
                        break
                    short = q.rsplit(".", 1)[-1]
                    if short in ("reduce",) + tuple(names) and "keep_dim" in params:
                        pos = [x.arg for x in a.posonlyargs + a.args]
                        kd = e.data["kwargs"].get("keep_dim")
                        if kd is None and "keep_dim" in pos and len(e.data["args"]) >= pos.index("keep_dim"):
                            i = pos.index("keep_dim") - 1  # receiver not in args
                            kd = e.data["args"][i] if 0 <= i < len(e.data["args"]) else None
                        if vkey(kd) != "KEEP":
                            bad = (e, f"builds {short}(...) with keep_dim={vkey(kd)} instead of the caller's keep_dim: the result has other dimensions than on the "
                                      f"{'un-batched' if bs else 'batched'} path")
                            break
                if bad is None:
                    # the option dict reaches the back end: in a Payload's kwargs or as backend_kwargs of a nested reduction
                    reach = any("'opt'" in vkey(e.data["kwargs"]) or "'opt'" in vkey(e.data["args"]) for e in p.effects if e.kind == "call")
                    if not reach:
                        bad = (None, "drops backend_kwargs: no call on this path receives the options")
                batched_path = not any(is_call(e, qual=f"{F}.Action.reduce") for e in p.effects) or bs == 2 and any(
                    d.key.startswith("lt(2,") and d.value for d in p.decisions)
                label = f"{name} | batch_size={bs} ({'batched' if batched_path else 'plain'} path)"
                if bad is not None:
                    ctx.violation("C13.R6", fi.qual, loc(fi, bad[0].node) if bad[0] is not None else loc(fi), f"{name}: options on the {'batched' if batched_path else 'plain'} path",
                                  f"{label}: {bad[1]}", row={"reduction": name, "batch_size": bs, "path": "batched" if batched_path else "plain"})
                else:
                    ctx.ok("C13.R6", loc(fi), f"{label}: keep_dim and backend_kwargs forwarded, nested calls well-formed")
    ctx.floor("C13.R6.paths", n, 12)


def r5_broadcast(ctx):
    repo = ctx.repo
    fi = repo.func(f"{F}.Action.broadcast")
    ctx.analysed(fi.qual)
    paths = Interp(repo, max_iter=1).explore(fi)
    ctx.evals(len(paths))
    n = 0
    for p in paths:
        it = [e for e in p.effects if e.kind == "call" and e.data["name"] == "numpy.nditer"]
        if not it:
            continue
        n += 1
        op = it[0].data["args"][0] if it[0].data["args"] else None
        bl = [e for e in p.effects if e.kind == "call" and e.data["name"].endswith("broadcast_like")]
        k = vkey(op)
        if isinstance(op, App) and "transpose" in op.fname and bl and mentions(op, bl[0].data["result"].key()) and "self.nodes" in op.fname:
            ctx.ok("C13.R5", loc(fi, it[0].node), "broadcast iterates self.nodes transposed to the dimension order of the broadcast result")
        elif k == "self.nodes":
            ctx.violation("C13.R5", fi.qual, loc(fi, it[0].node), "operand aligned with the broadcast result",
                          "broadcast fills the result array at the multi-index of an iteration over self.nodes in its *own* dimension order; when the operand "
                          "shares two or more dimensions with the target in a different order every node lands at a transposed coordinate")
        else:
            ctx.undecided("C13.R5", loc(fi, it[0].node), f"unrecognised iteration operand {k[:100]}")
        break
    ctx.floor("C13.R5.sites", n, 1)


RULES = [r1_r2_reduce, r4_batch_transform, r3_mean_std, r5_broadcast, r6_named_reduction_options]

from .C15 import r1_markers, r4_take  # noqa: E402  (batching relies on the markers; expand relies on take)

RULES += [r1_markers, r4_take]

from .common import lazy  # noqa: E402
RULES += [lazy("C15", "r2_siblings", "each named reduction reaches the back-end function of that name with the operands unchanged"),
          lazy("C15", "r3_multi_arg", "multi-argument reductions stack on a new leading axis and reduce along it"),
          lazy("C10", "r8_placeholders", "stack / concatenate / flatten rely on the i-th input being passed at the i-th position")]


def r7_positional_pairing(ctx):
    """C13.R7: node arrays are labelled (xarray): two of them may be combined element by element through their raw buffers (`.data[i]`,
    `.values[i]`, zipped `.flat`) only after they were brought to the same dimension order — an unconditional xr.broadcast / xr.align /
    transpose / broadcast_like / reindex_like of the operands, or a guard that compares their `.dims` tuples.  xarray's own operations
    (concat, join, arithmetic) align by dimension name; raw buffers pair by position, so an operand declared as (step, param) against one
    declared as (param, step) silently pairs node (i, j) with node (j, i) and every coordinate but the diagonal denotes the wrong value.
    Structural rule over every function of earthkit.workflows.fluent."""
    import ast as _ast
    repo = ctx.repo
    RAW = {"data", "values", "flat"}
    ALIGN = {"broadcast", "align", "transpose", "broadcast_like", "reindex_like"}
    n = npair = 0
    for fi in repo.all_funcs():
        if fi.module.name != "earthkit.workflows.fluent" or isinstance(fi.node, _ast.Lambda):
            continue
        n += 1

        def raw_base(e):
            """X for X.data / X.values / X.data.flat / X.to_numpy() ...; None otherwise"""
            while isinstance(e, _ast.Call) and isinstance(e.func, _ast.Attribute) and e.func.attr in ("flatten", "ravel", "to_numpy", "tolist"):
                e = e.func.value
                if isinstance(e, _ast.Name):
                    return None
            seen_raw = False
            while isinstance(e, _ast.Attribute) and e.attr in RAW:
                seen_raw = True
                e = e.value
            return _ast.unparse(e) if seen_raw else None
        groups = {}
        for node in _ast.walk(fi.node):
            if isinstance(node, _ast.Subscript) and isinstance(node.ctx, _ast.Load):
                b = raw_base(node.value)
                if b is not None:
                    groups.setdefault(("idx", _ast.unparse(node.slice)), {})[b] = node
            elif isinstance(node, _ast.Call) and isinstance(node.func, _ast.Name) and node.func.id == "zip":
                bs = {raw_base(a): a for a in node.args}
                bs.pop(None, None)
                if len(bs) >= 2:
                    groups[("zip", node.lineno)] = {k: node for k in bs}
        for key, bases in groups.items():
            if len(bases) < 2:
                continue
            npair += 1
            names = sorted(bases)
            site = next(iter(bases.values()))
            # evidence of alignment: unconditional (function-body level) assignment of the operands from an aligning call, or a .dims tuple comparison
            aligned = set()
            for st_ in fi.node.body:
                for sub in ([st_] if isinstance(st_, (_ast.Assign, _ast.AnnAssign)) else []):
                    val = sub.value
                    if isinstance(val, _ast.Call) and isinstance(val.func, _ast.Attribute) and val.func.attr in ALIGN:
                        tg = sub.targets[0] if isinstance(sub, _ast.Assign) else sub.target
                        for t in (tg.elts if isinstance(tg, _ast.Tuple) else [tg]):
                            aligned.add(_ast.unparse(t))
            dims_guard = any(isinstance(c, _ast.Compare) and all(isinstance(x, _ast.Attribute) and x.attr == "dims" for x in [c.left] + c.comparators)
                             and {_ast.unparse(x.value) for x in [c.left] + c.comparators} >= set(names) for c in _ast.walk(fi.node))
            if set(names) <= aligned or dims_guard:
                ctx.ok("C13.R7", loc(fi, site), f"{fi.name}: raw buffers of {names} paired after alignment")
            else:
                ctx.violation("C13.R7", fi.qual, loc(fi, site), "positional pairing of labelled node arrays",
                              f"{fi.qual} pairs the raw buffers of {names} by position ({'same index ' + key[1] if key[0] == 'idx' else 'zip'}) without first bringing them to one dimension "
                              f"order on every path (aligned unconditionally: {sorted(aligned) or 'none'}): operands whose dimensions are declared in a different order are "
                              f"paired crosswise — node (i, j) with node (j, i) — and the result denotes the wrong arrays off the diagonal")
    ctx.floor("C13.R7.functions", n, 30)
    if not npair:
        ctx.ok("C13.R7", "src/earthkit/workflows/fluent.py", f"{n} functions: no two node arrays are combined through their raw buffers (xarray operations align by dimension name)")


RULES.append(r7_positional_pairing)


def r8_shared_defaults(ctx):
    """C13.R8: fluent operations take `backend_kwargs: dict = {}` and similar; none of them may write into that shared default (see
    common.mutable_defaults_untouched)."""
    from .common import mutable_defaults_untouched
    mutable_defaults_untouched(ctx, "C13.R8", ("earthkit.workflows",),
                               "the first call pins a value (an axis, a dtype, a dimension) that every later call in the process silently inherits — the graph a program "
                               "builds then depends on which programs were built before it")


RULES.append(r8_shared_defaults)
RULES.append(lazy("C14", "r6_payload_not_shared", "every node gets a payload of its own: placeholders appended for one node must not show up in a sibling built from the same Payload (a batch of 2 next to a batch of 3)"))
