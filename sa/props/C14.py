"""C14 — fluent node names identify computations; operations leave operands intact (structural clauses)."""
from __future__ import annotations

import ast

from ..calls import MUTATORS
from ..interp import Interp
from ..lib import is_call, loc
from ..repo import walk_scope
from ..terms import App, Atom, Attr, Comp, FStr, Mut, Obj, Op, Sub, Sym, Term, mentions, subterms, vkey
from .C19 import _root

F = "earthkit.workflows.fluent"
META = {
    "explanation": "Static ownership and information-flow analysis of earthkit.workflows.fluent: no method or helper stores into, or mutates in place, "
                   "the node array / coordinates of an action it received (self or an operand) — only freshly built actions are modified, apart from the "
                   "two primitive in-place helpers and add_attributes; the string hashed into a node name contains the payload's positional arguments, "
                   "its keyword arguments (names and values) and the names of all inputs including non-default output names; source names are made "
                   "unique; unions build new sink lists. Later rules: every union passes through de-duplication (0, 1, 2 actions), backend callables made up on demand carry their name, wrappers keep the wrapped name. Known finding: the callable enters the name only through __name__.",
    "assumptions": ["xarray objects returned by xarray calls are fresh"],
}
INPLACE_API = {"__init__", "_add_dimension", "_squeeze_dimension", "add_attributes"}


def _action_params(fi, repo):
    out = set()
    a = fi.node.args
    for arg in a.posonlyargs + a.args + a.kwonlyargs:
        ann = ast.unparse(arg.annotation) if arg.annotation is not None else ""
        if arg.arg == "self" and fi.cls is not None and (fi.cls.name == "Action" or "Action" in repo.class_mro(fi.cls.qual)[-1]):
            out.add("self")
        elif "Action" in ann and "type[" not in ann:
            out.add(arg.arg)
    return out


def r1_ownership(ctx):
    repo = ctx.repo
    n = 0
    for fi in repo.all_funcs():
        if fi.module.name != F or isinstance(fi.node, ast.Lambda) or fi.name in INPLACE_API:
            continue
        params = _action_params(fi, repo)
        if not params:
            continue
        n += 1
        ctx.analysed(fi.qual)
        try:
            paths = Interp(repo, max_iter=1, max_while=1, max_paths=3000).explore(fi)
        except Exception as e:  # too many paths etc.
            ctx.undecided("C14.R1", loc(fi), f"cannot explore {fi.qual}: {e}")
            continue
        ctx.evals(len(paths))
        bad = None
        for p in paths:
            for e in p.effects:
                if e.func != fi.qual:
                    continue
                ref, how = None, None
                if e.kind in ("store", "aug", "del") and not e.data.get("local"):
                    ref, how = e.data.get("ref"), "assigns"
                elif e.kind == "call" and e.data.get("discarded") and e.data.get("method") in (MUTATORS | {"_squeeze_dimension", "_add_dimension", "add_attributes"}):
                    ref, how = (e.data.get("recv_ref") if e.data.get("recv_ref") is not None else e.data.get("recv")), f"calls in-place {e.data.get('method')}() on"
                if ref is None or not isinstance(ref, Term):
                    continue
                root = _root(ref)
                # the result of a *callback parameter* applied to an operand may be that very operand (`lambda act, p: act`, or a fluent method that
                # returns its receiver when there is nothing to do): an in-place helper on it changes the caller's action
                if e.kind == "call" and isinstance(root, App) and how.startswith("calls in-place"):
                    fn_key = vkey(root.fn) if not isinstance(root.fn, str) else root.fn
                    callable_params = {p_ for p_ in fi.params if p_ not in params and p_ not in ("self", "cls")}
                    if fn_key in callable_params and any(isinstance(a_, Sym) and a_.name in params for a_ in root.args):
                        who_ = next(a_.name for a_ in root.args if isinstance(a_, Sym) and a_.name in params)
                        bad = (e, ref, how + " the result of the caller's callback, which may be", who_)
                        continue
                if isinstance(root, Sym) and root.name in params:
                    if e.kind != "call" and ref == root:
                        continue
                    if "attrs" in vkey(ref) and fi.name == "add_attributes":
                        continue
                    bad = (e, ref, how, root.name)
        if bad:
            e, ref, how, who = bad
            ctx.violation("C14.R1", fi.qual, loc(fi, e.node), f"in-place change of {who}",
                          f"{fi.qual} {how} {vkey(ref)[:100]} — {'the receiver' if who == 'self' else 'an operand'} passed in by the caller is modified: "
                          f"applying an operation must leave existing actions (node array, dimensions, coordinates) unchanged")
        else:
            ctx.ok("C14.R1", loc(fi), f"{fi.name}: no store/in-place mutation on {sorted(params)}")
    ctx.floor("C14.R1.functions", n, 25)


def r2_r3_name_digest(ctx):
    repo = ctx.repo
    ps = repo.func(f"{F}.Payload.__str__")
    ctx.analysed(ps.qual)
    paths = Interp(repo, inline={f"{F}.Payload.name"}).explore(ps)
    ctx.evals(len(paths))
    vals = [p.exit[1] for p in paths if p.exit[0] == "return"]
    for v in vals:
        parts = list(v.parts) if isinstance(v, FStr) else [v]
        direct = {vkey(x) for x in parts if isinstance(x, Term)}
        for fld in ("args", "kwargs"):
            if f"self.{fld}" in direct:
                ctx.ok("C14.R3", loc(ps), f"Payload.__str__ contains the payload's {fld} in full")
            else:
                via = [vkey(x) for x in parts if isinstance(x, Term) and mentions(x, f"self.{fld}")]
                ctx.violation("C14.R3", ps.qual, loc(ps), f"payload {fld} in the name digest",
                              f"the string hashed into node names contains the payload's {fld} only as {via or 'nothing'}: two nodes that differ in a "
                              f"{'keyword value' if fld == 'kwargs' else 'static argument'} get the same name (their union collides / de-duplicates wrongly)")
    if not vals:
        ctx.undecided("C14.R3", loc(ps), "Payload.__str__ has no returning path")
    # the callable: enters through more than __name__ ?
    only_name = all(not any(isinstance(x, Term) and mentions(x, "self.func") and "__name__" not in vkey(x) for x in (v.parts if isinstance(v, FStr) else [v])) for v in vals)
    if only_name:
        ctx.violation("C14.R2", ps.qual, loc(ps), "callable identity in the name digest",
                      "the callable contributes to a node's name only through func.__name__: a.map(lambda x: x+1) and a.map(lambda x: x+2) (or two functions "
                      "called 'f' in different modules) get the same node name although they denote different computations")
    else:
        ctx.ok("C14.R2", loc(ps), "the callable enters the digest through more than its __name__")
    # Node.__init__: hash(payload string + names of all inputs, with output name for non-default outputs)
    ni = repo.func(f"{F}.Node.__init__")
    ctx.analysed(ni.qual)
    pay = Obj(F + ".Payload", {"args": [], "kwargs": {}, "func": Atom("f")}, name="PAY")
    G = "earthkit.workflows.graph.nodes"
    n1 = Obj(G + ".Node", {"name": "parent1"}, name="IN1")
    o2 = Obj(G + ".Output", {"parent": Obj(G + ".Node", {"name": "parent2"}, name="IN2"), "name": "out7"}, name="O2")
    ip = Interp(repo, max_iter=2)
    hashed = None
    for p in ip.explore(ni, args={"payload": pay, "inputs": [n1, o2], "num_outputs": 1, "name": None}):
        for e in p.effects:
            if is_call(e, qual=f"{F}.custom_hash") and e.data["args"]:
                hashed = e.data["args"][0]
    k = vkey(hashed)
    if hashed is None:
        ctx.undecided("C14.R3", loc(ni), "custom_hash is not called on the model node")
    elif not ("parent1" in k and "parent2.out7" in k and ("PAY" in k or "Payload" in k)):
        ctx.violation("C14.R3", ni.qual, loc(ni), "inputs in the name digest",
                      f"node with inputs parent1 (default output) and parent2.out7: hashed string = {k[:200]}; it must contain the payload and the name of every input "
                      f"including the output name for non-default outputs")
    else:
        # the input names must reach the hashed text through Python's own text of a list / tuple / str (complete by construction), not through
        # the __str__ of a foreign container (numpy abbreviates arrays of more than 1000 elements to 'a b c ... x y z')
        foreign = [x for x in subterms(hashed) if isinstance(x, App) and x.fname.split(".")[0] in ("numpy", "np", "pandas", "xarray") and ("parent1" in vkey(x))]
        if foreign:
            ctx.violation("C14.R3", ni.qual, loc(ni), "inputs enter the digest completely",
                          f"the input names are formatted into the hashed text through {foreign[0].fname}(...): its text form abbreviates long sequences, so two nodes with "
                          f"more than 1000 inputs that differ only in a middle input get the same name")
        else:
            ctx.ok("C14.R3", loc(ni), "digest covers the payload and every input (parent name, output name)")


def r4_sources(ctx):
    repo = ctx.repo
    fi = repo.func(f"{F}.from_source")
    ctx.analysed(fi.qual)
    ip = Interp(repo, max_iter=2, call_models={f"{F}.Payload.name": lambda run, a, k, n, f: "src"})
    paths = ip.explore(fi)
    ctx.evals(len(paths))
    checked = 0
    for p in paths:
        nodes = [e for e in p.effects if e.kind == "call" and e.data["name"] == f"{F}.Node"]
        if len(nodes) < 2:
            continue
        checked += 1
        names = [e.data["kwargs"].get("name") for e in nodes]
        if names[0] != "src" or names[1] == "src" or names[1] is None or "multi_index" not in vkey(names[1]):
            ctx.violation("C14.R4", fi.qual, loc(fi), "unique source names",
                          f"two sources whose payload name is 'src' are named {[vkey(x)[:60] for x in names]}; the second must get a suffix derived from its index "
                          f"(equal source names collide in any union / lowering by name)")
            return
        # the suffix must be an injective text of the index: the tuple's own str()/repr() is; its components glued together without a
        # separator are not ((1, 10) and (11, 0) both give '110')
        from ..terms import subterms
        glued = [x for x in subterms(names[1]) if isinstance(x, App) and x.fname in ("str.join", "join") and x.args and isinstance(x.args[0], str)
                 and (x.args[0] == "" or x.args[0].isdigit()) and "multi_index" in vkey(x)]
        if glued:
            ctx.violation("C14.R4", fi.qual, loc(fi), "index suffix is injective",
                          f"the suffix of a repeated source name is built as {vkey(glued[0])[:120]}: the components of the multi-index are concatenated without a separator, "
                          f"so cells (1, 10) and (11, 0) get the same name — two different sources collapse into one node name")
            return
    if not checked:
        ctx.undecided("C14.R4", loc(fi), "from_source: could not observe two source nodes")
    else:
        ctx.ok("C14.R4", loc(fi), "a source whose name is already used gets a suffix derived from its index")


def r5_unions(ctx):
    repo = ctx.repo
    add = repo.func("earthkit.workflows.graph.graph.Graph.__add__")
    ctx.analysed(add.qual)
    for p in Interp(repo, type_facts={"other": {"earthkit.workflows.graph.graph.Graph"}}).explore(add):
        if p.exit[0] != "return" or p.exit[1] is NotImplemented or vkey(p.exit[1]) == "NotImplemented":
            continue
        bad = [e for e in p.effects if e.kind in ("store", "aug") and not e.data.get("local") or (e.kind == "call" and e.data.get("method") in MUTATORS and e.data.get("discarded"))]
        rv = p.exit[1]
        if bad or not (isinstance(rv, Obj) and rv.args and isinstance(rv.args[0], Op) and rv.args[0].op == "Add"):
            ctx.violation("C14.R5", add.qual, loc(add), "union builds a new graph", f"Graph.__add__ returns {vkey(rv)[:80]} / mutates an operand ({[e.brief()[:40] for e in bad]})")
        else:
            ctx.ok("C14.R5", loc(add), "Graph.__add__ builds a new sink list")
    fa = repo.func("earthkit.workflows.Cascade.from_actions")
    ctx.analysed(fa.qual)
    okk = False
    for p in Interp(repo, max_iter=1).explore(fa):
        g = [e for e in p.effects if e.kind == "call" and e.data["name"].endswith("graph.Graph")]
        if g and g[0].data["args"][:1] == [[]]:
            okk = True
    if not okk:
        ctx.violation("C14.R5", fa.qual, loc(fa), "from_actions starts from a fresh graph", "Cascade.from_actions does not start from a fresh Graph([]): unions would accumulate in a shared object")
    else:
        ctx.ok("C14.R5", loc(fa), "from_actions starts from a fresh Graph([])")
    # every union is de-duplicated, whatever the number of actions (one action can hold the same computation twice: a sub-expression written
    # twice gives two node objects with one name; lowering by name needs one node per name)
    for label, acts in (("one action", [Obj("earthkit.workflows.fluent.Action", {}, name="ACT1")]),
                        ("two actions", [Obj("earthkit.workflows.fluent.Action", {}, name="ACT1"), Obj("earthkit.workflows.fluent.Action", {}, name="ACT2")]),
                        ("no action", [])):
        n = 0
        for p in Interp(repo, max_concrete_iter=8).explore(fa, args={"actions": list(acts)}):
            if p.exit[0] != "return":
                continue
            n += 1
            rv = p.exit[1]
            kw_ = dict(rv.kwargs) if isinstance(rv, (Obj, App)) else {}
            arg = (rv.args[0] if rv.args else next(iter(kw_.values()), None)) if isinstance(rv, (Obj, App)) else None
            if not (isinstance(arg, App) and arg.fname.endswith("deduplicate_nodes")):
                ctx.violation("C14.R5", fa.qual, loc(fa), "every union is de-duplicated",
                              f"Cascade.from_actions with {label} returns {vkey(rv)[:100]}: the graph does not go through deduplicate_nodes — one action may contain the same "
                              f"computation twice (two node objects, one name), so the union keeps two nodes per name and lowering by name is ambiguous")
            else:
                ctx.ok("C14.R5", loc(fa), f"from_actions | {label}: result de-duplicated")
        if n == 0:
            ctx.undecided("C14.R5", loc(fa), f"from_actions with {label}: no returning path")


RULES = [r1_ownership, r2_r3_name_digest, r4_sources, r5_unions]


def r6_payload_not_shared(ctx):
    """C14.R6: building a node never modifies the Payload object it was given (Node.__init__ appends input names to a *copy*):
    otherwise an already built node changes its static arguments after it was named, and re-building a program gives other names."""
    repo = ctx.repo
    ni = repo.func(f"{F}.Node.__init__")
    pay = Obj(F + ".Payload", {"args": ["lit"], "kwargs": {}, "func": Atom("f")}, name="USERPAY")
    G = "earthkit.workflows.graph.nodes"
    n1 = Obj(G + ".Node", {"name": "parent1"}, name="IN1")
    ip = Interp(repo, max_iter=2, inline={f"{F}.Payload.copy", f"{F}.Payload.__init__"})
    n = 0
    for p in ip.explore(ni, args={"payload": pay, "inputs": [n1], "num_outputs": 1, "name": None}):
        if p.exit[0] not in ("return",):
            continue
        n += 1
        up = None
        for e in p.effects:
            for v in list(e.data.values()) + list(e.data.get("args", []) if isinstance(e.data.get("args"), list) else []):
                if isinstance(v, Obj) and v.name == "USERPAY":
                    up = v
        args_after = up.fields.get("args") if up is not None else ["lit"]
        if args_after != ["lit"]:
            ctx.violation("C14.R6", ni.qual, loc(ni), "caller's Payload left intact",
                          f"Node(payload, inputs=[n1]) changes the caller's Payload: args ['lit'] -> {vkey(args_after)} (the payload must be copied deeply enough before input names are appended)")
        else:
            ctx.ok("C14.R6", loc(ni), "Node.__init__ leaves the caller's Payload untouched")
    ctx.floor("C14.R6.paths", n, 1)


RULES.append(r6_payload_not_shared)


def r7_wrappers_keep_name(ctx):
    """C14.R7: a node's name takes the callable's identity from `__name__` (KF-2 records that nothing else enters); so every wrapper that
    earthkit.workflows.backends puts in place of a back-end function must carry the wrapped function's `__name__` (functools.wraps with the
    default `assigned`, or an explicit assignment) — otherwise add / subtract / multiply … all hash to one name and different
    computations get the same node name."""
    import ast as _ast
    repo = ctx.repo
    m = repo.module("earthkit.workflows.backends")
    n = 0
    for fi in repo.all_funcs():
        if fi.module is not m or fi.parent is None:
            continue
        # a nested function that calls a parameter / captured variable of an enclosing function and is returned by it: a wrapper
        outer = fi.parent
        returned = any(isinstance(r, _ast.Return) and isinstance(r.value, _ast.Name) and r.value.id == fi.name for r in _ast.walk(outer.node))
        # the wrapped callable: a parameter of the *immediate* parent that the nested function calls or hands on to another call
        outer_params = {a.arg for a in outer.node.args.args + outer.node.args.posonlyargs + outer.node.args.kwonlyargs}
        wrapped = []
        for c in walk_scope(fi.node):
            if isinstance(c, _ast.Call):
                if isinstance(c.func, _ast.Name) and c.func.id in outer_params:
                    wrapped.append(c.func.id)
                wrapped += [a_.id for a_ in c.args if isinstance(a_, _ast.Name) and a_.id in outer_params]
        if not returned or not wrapped:
            continue
        n += 1
        ctx.analysed(fi.qual)
        keeps = False
        for d in fi.node.decorator_list:
            if isinstance(d, _ast.Call) and _ast.unparse(d.func).split(".")[-1] == "wraps" and d.args and isinstance(d.args[0], _ast.Name) and d.args[0].id in wrapped:
                asg = [k for k in d.keywords if k.arg == "assigned"]
                if not asg:
                    keeps = True
                else:
                    try:
                        keeps = "__name__" in _ast.literal_eval(asg[0].value)
                    except Exception:
                        keeps = "__name__" in _ast.unparse(asg[0].value) or "WRAPPER_ASSIGNMENTS" in _ast.unparse(asg[0].value)
        for st in _ast.walk(outer.node):
            if isinstance(st, _ast.Assign) and any(isinstance(t, _ast.Attribute) and t.attr == "__name__" and isinstance(t.value, _ast.Name) and t.value.id == fi.name
                                                   for t in st.targets):
                keeps = True
        if not keeps:
            ctx.violation("C14.R7", fi.qual, loc(fi), "wrapper keeps the wrapped callable's __name__",
                          f"{fi.qual} is returned in place of `{wrapped[0]}` but does not take over its __name__: every callable wrapped this way is named '{fi.name}', so "
                          f"nodes applying different operations to the same inputs get the same name (their digest contains only the name, the arguments and the inputs)")
        else:
            ctx.ok("C14.R7", loc(fi), f"{fi.qual}: carries the wrapped function's __name__")
    ctx.floor("C14.R7.wrappers", n, 1)


RULES.append(r7_wrappers_keep_name)


def r8_dispatchers_carry_their_name(ctx):
    """C14.R8: the callables the `backends` module makes up on demand (`backends.exp`, `backends.log`, … — everything not spelled out on
    `Backend`) enter node names through `Payload.name()`, i.e. through `func.__name__`.  Each of them must therefore carry the requested
    name as its `__name__`: a dispatcher object without one falls back to the empty string, and `x.map(backends.exp)` and
    `x.map(backends.log)` get the same node names although they compute different things."""
    repo = ctx.repo
    fi = repo.funcs.get("earthkit.workflows.backends.__getattr__")
    if fi is None:
        ctx.undecided("C14.R8", "src/earthkit/workflows/backends/__init__.py", "module-level __getattr__ of the backends package not found")
        return
    ctx.analysed(fi.qual)
    n = 0
    for p in Interp(repo, facts={}).explore(fi, args={"name": "zzz"}):
        reg = [e for e in p.effects if e.kind == "call" and e.data.get("name", "").endswith("setattr") and len(e.data["args"]) >= 3 and e.data["args"][1] == "zzz"]
        if not reg:
            continue
        n += 1
        o = reg[0].data["args"][2]
        named = any(e.kind == "store" and e.data.get("attr") == "__name__" and e.data.get("value") == "zzz" for e in p.effects) \
            or (isinstance(o, Obj) and o.fields.get("__name__") == "zzz")
        if not named:
            ctx.violation("C14.R8", fi.qual, loc(fi), "made-up backend callables carry their name",
                          f"backends.zzz is created as {vkey(o)[:80]} without `__name__ = 'zzz'`: Payload.name() then yields '' for every such callable, so nodes applying "
                          f"different backend functions with the same arguments to the same inputs share one name")
        else:
            ctx.ok("C14.R8", loc(fi), "a backend function created on demand is given __name__ = its name")
    ctx.floor("C14.R8.creating_paths", n, 1)


RULES.append(r8_dispatchers_carry_their_name)
