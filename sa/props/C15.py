"""C15 — array back ends agree with NumPy; 'batchable' functions really are batchable (structural clauses)."""
from __future__ import annotations

import ast

from ..interp import Interp
from ..lib import loc, unparse
from ..repo import walk_scope
from ..terms import App, Attr, Obj, Op, Star, Sub, Sym, Term, subterms, vkey

BK = "earthkit.workflows.backends"
META = {
    "explanation": "Static structural analysis of the back-end dispatch: the set of functions marked batchable is disjoint from the reductions that are "
                   "algebraically not decomposable over batches (mean, std, var, median, stack); every generic operation dispatches to the same-named "
                   "method, which exists in both back ends and names the same reduction / operator with the operands in order; multi-argument "
                   "reductions stack on a new leading axis and reduce along that same axis; a scalar take squeezes only the taken axis. "
                   "Not decided: numerical agreement with NumPy.",
    "assumptions": ["array libraries are opaque"],
}
NON_DECOMPOSABLE = {"mean": "mean of batch means weights batches equally", "std": "std of stds is not the std", "var": "var of vars is not the var",
                    "median": "median of medians is not the median", "stack": "stack of stacks adds a dimension per level"}
REDUCTIONS = ["mean", "std", "max", "min", "sum", "prod", "var"]
ARITH = {"add": "Add", "subtract": "Sub", "multiply": "Mult", "divide": "Div", "pow": "Pow"}
NPNAME = {"add": "add", "subtract": "subtract", "multiply": "multiply", "divide": "divide", "pow": "power"}
OPS = REDUCTIONS + ["stack", "concat", "take"] + list(ARITH)


def r1_markers(ctx):
    repo = ctx.repo
    ci = repo.cls(f"{BK}.Backend")
    marked = []
    for name, fi in ci.methods.items():
        if any(d.split("(")[0].split(".")[-1] == "batchable" for d in fi.decorators):
            marked.append(name)
            # which reduction does the wrapper finally name?
            called = {c.func.attr for c in walk_scope(fi.node) if isinstance(c, ast.Call) and isinstance(c.func, ast.Attribute)
                      and isinstance(c.func.value, ast.Call) and unparse(c.func.value.func) == "array_module"}
            for nm in {name} | called:
                if nm in NON_DECOMPOSABLE:
                    ctx.violation("C15.R1", fi.qual, loc(fi), f"@batchable {name}",
                                  f"Backend.{name} is marked batchable but computes '{nm}', which does not satisfy f(f(b1),…,f(bk)) = f(all) ({NON_DECOMPOSABLE[nm]}): "
                                  f"a batched reduce silently returns a wrong value")
                    break
            else:
                ctx.ok("C15.R1", loc(fi), f"@batchable {name}: decomposable")
    # also functions marked by a call at module level (batchable(Backend.x), a loop over a table of names, ...): the module's top-level
    # code is evaluated abstractly and every call of `batchable` is read off its effect trace
    from ..interp import module_globals
    from ..terms import BoundMethod, FuncRef
    effs = []
    module_globals(repo, BK, effects=effs)
    for e in effs:
        if e.kind != "call" or not (e.data.get("name") or "").split(".")[-1] == "batchable" or not e.data["args"]:
            continue
        a0 = e.data["args"][0]
        nm = None
        if isinstance(a0, (FuncRef, BoundMethod)) and getattr(a0, "fi", None) is not None:
            nm = a0.fi.name
        elif isinstance(a0, Sub) and isinstance(a0.index, str):
            nm = a0.index
        elif isinstance(a0, App) and a0.fname == "getattr" and len(a0.args) >= 2 and isinstance(a0.args[1], str):
            nm = a0.args[1]
        where = f"src/earthkit/workflows/backends/__init__.py:{e.lineno}"
        if nm is None:
            ctx.undecided("C15.R1", where, f"batchable(...) applied at module level to {vkey(a0)[:80]}: cannot tell which operation is marked")
            continue
        if nm in marked:
            continue
        marked.append(nm)
        fi2 = ci.methods.get(nm)
        called = set()
        if fi2 is not None:
            called = {c.func.attr for c in walk_scope(fi2.node) if isinstance(c, ast.Call) and isinstance(c.func, ast.Attribute)
                      and isinstance(c.func.value, ast.Call) and unparse(c.func.value.func) == "array_module"}
        bad = [x for x in {nm} | called if x in NON_DECOMPOSABLE]
        if bad:
            ctx.violation("C15.R1", fi2.qual if fi2 else BK, where, f"@batchable {nm}",
                          f"Backend.{nm} is marked batchable (by a call at module level) but computes '{bad[0]}', which does not satisfy f(f(b1),…,f(bk)) = f(all) "
                          f"({NON_DECOMPOSABLE[bad[0]]}): a batched reduce silently returns a wrong value")
        else:
            ctx.ok("C15.R1", where, f"batchable({nm}) at module level: decomposable")
    ctx.floor("C15.R1.marked", len(marked), 4)


def r2_siblings(ctx):
    repo = ctx.repo
    gen, arr, xa = repo.cls(f"{BK}.Backend"), repo.cls(f"{BK}.arrayapi.ArrayAPIBackend"), repo.cls(f"{BK}.xarray.XArrayBackend")
    ip = Interp(repo)
    n = 0
    for op in OPS:
        for ci in (gen, arr, xa):
            if op not in ci.methods:
                ctx.violation("C15.R2", ci.qual, f"{ci.module.path}:{ci.node.lineno}", f"{ci.name}.{op}", f"operation {op} is missing in {ci.name}: the dispatch fails for that array type")
        if any(op not in ci.methods for ci in (gen, arr, xa)):
            continue
        n += 1
        # generic wrapper dispatches to the same-named back-end method with the arguments unchanged
        g = gen.methods[op]
        ctx.analysed(g.qual)
        rv = [p.exit[1] for p in ip.explore(g) if p.exit[0] == "return"]
        t = rv[0] if rv else None
        disp = isinstance(t, App) and isinstance(t.fn, Attr) and t.fn.attr == op and "array_module" in vkey(t.fn.base)
        if not disp:
            ctx.violation("C15.R2", g.qual, loc(g), f"dispatch of {op}", f"Backend.{op} returns {vkey(t)[:100]}: it must dispatch to array_module(...).{op}")
        else:
            ctx.ok("C15.R2", loc(g), f"Backend.{op} -> array_module(...).{op}")
        a = arr.methods[op]
        x = xa.methods[op]
        ctx.analysed(a.qual)
        ctx.analysed(x.qual)
        ar = [p.exit[1] for p in ip.explore(a) if p.exit[0] == "return"]
        xr_ = [p.exit[1] for p in ip.explore(x) if p.exit[0] == "return"]
        if op in REDUCTIONS:
            okk = bool(ar) and all(isinstance(t_, App) and (
                (t_.fname.endswith("_xp_multi_args") and t_.args and t_.args[0] == op)
                or (isinstance(t_.fn, Attr) and t_.fn.attr == op and "array_namespace" in vkey(t_.fn.base))) for t_ in ar)  # helper inlined: xp.<op>(...)
            nested = [t_ for t_ in ar if isinstance(t_, Term) and sum(1 for x in subterms(t_) if isinstance(x, App) and isinstance(x.fn, Attr) and x.fn.attr == op) > 1]
            if okk and nested:
                ctx.violation("C15.R2", a.qual, loc(a), f"array-API {op} applied once",
                              f"ArrayAPIBackend.{op} applies '{op}' to partial results of '{op}' on some path ({vkey(nested[0])[:160]}): regrouping is only valid for "
                              f"sum / prod / min / max — for mean, std and var the value changes, and in every case the graph no longer computes what NumPy computes on the "
                              f"stacked inputs in one step")
            elif not okk:
                ctx.violation("C15.R2", a.qual, loc(a), f"array-API {op}", f"ArrayAPIBackend.{op} computes {vkey(ar)[:100]}, expected _xp_multi_args('{op}', *args)")
            else:
                ctx.ok("C15.R2", loc(a), f"ArrayAPIBackend.{op} names reduction '{op}'")
            okk = len(xr_) == 1 and isinstance(xr_[0], App) and xr_[0].fname.endswith("multi_arg_function") and xr_[0].args and xr_[0].args[0] == op
            if not okk:
                ctx.violation("C15.R2", x.qual, loc(x), f"xarray {op}", f"XArrayBackend.{op} computes {vkey(xr_)[:100]}, expected multi_arg_function('{op}', *arrays)")
            else:
                ctx.ok("C15.R2", loc(x), f"XArrayBackend.{op} names reduction '{op}'")
        elif op in ARITH:
            t = ar[0] if len(ar) == 1 else None
            okk = isinstance(t, Op) and t.op == ARITH[op] and [vkey(o) for o in t.operands] == ["args[0]", "args[1]"]
            if not okk:
                ctx.violation("C15.R2", a.qual, loc(a), f"array-API {op}", f"ArrayAPIBackend.{op} computes {vkey(t)[:80]}, expected args[0] {ARITH[op]} args[1]")
            else:
                ctx.ok("C15.R2", loc(a), f"ArrayAPIBackend.{op}: args[0] {ARITH[op]} args[1]")
            t = xr_[0] if len(xr_) == 1 else None
            okk = isinstance(t, App) and t.fname.endswith("two_arg_function") and t.args and t.args[0] == NPNAME[op]
            if not okk:
                ctx.violation("C15.R2", x.qual, loc(x), f"xarray {op}", f"XArrayBackend.{op} computes {vkey(t)[:100]}, expected two_arg_function('{NPNAME[op]}', …)")
            else:
                ctx.ok("C15.R2", loc(x), f"XArrayBackend.{op} -> numpy.{NPNAME[op]}")
    ctx.floor("C15.R2.operations", n, 15)
    t2 = repo.func(f"{BK}.xarray.XArrayBackend.two_arg_function")
    rv = [p.exit[1] for p in ip.explore(t2) if p.exit[0] == "return"]
    okk = rv and all(isinstance(t, App) and len(t.args) >= 2 and [vkey(a) for a in t.args[:2]] == ["arrays[0]", "arrays[1]"] and "getattr" in vkey(t.fn) + t.fname for t in rv)
    if not okk:
        ctx.violation("C15.R2", t2.qual, loc(t2), "operand order", f"two_arg_function computes {vkey(rv)[:120]}, expected numpy.<name>(arrays[0], arrays[1])")
    else:
        ctx.ok("C15.R2", loc(t2), "two_arg_function: numpy.<name>(arrays[0], arrays[1])")


def r3_multi_arg(ctx):
    repo = ctx.repo
    fi = repo.func(f"{BK}.arrayapi._xp_multi_args")
    ctx.analysed(fi.qual)
    for nargs in (1, 3):
        args = tuple(Sym(f"A{i}") for i in range(nargs))
        paths = Interp(repo).explore(fi, args={"name": "sum", "args": args, "kwargs": {"keepdims": True}})
        for p in paths:
            rv = p.exit[1] if p.exit[0] == "return" else None
            kw = dict(rv.kwargs) if isinstance(rv, App) else {}
            operand = rv.args[0] if isinstance(rv, App) and rv.args else None
            inner = operand.args[0] if isinstance(operand, App) and operand.args else None
            if isinstance(operand, App) and operand.kwargs:
                ctx.violation("C15.R3", fi.qual, loc(fi), "arguments stacked without conversion",
                              f"_xp_multi_args converts the stacked arguments with {dict(operand.kwargs)}: pinning e.g. the dtype of the first argument silently casts the others "
                              f"(NumPy promotes), so the result differs from NumPy and depends on which argument leads a batch")
                continue
            if nargs > 1:
                okk = kw.get("axis") == 0 and kw.get("keepdims") is True and isinstance(inner, tuple) and list(inner) == list(args) and "sum" in vkey(rv.fn if isinstance(rv, App) else "")
                what = "several arrays: stacked (asarray of all arguments) and reduced along the new leading axis 0"
            else:
                okk = "axis" not in kw and kw.get("keepdims") is True and inner == args[0]
                what = "one argument: taken as the (nested) array, no axis injected"
            if not okk:
                ctx.violation("C15.R3", fi.qual, loc(fi), f"multi-argument reduction ({nargs} args)", f"_xp_multi_args('sum', {nargs} array(s)) computes {vkey(rv)[:160]}; expected: {what}")
            else:
                ctx.ok("C15.R3", loc(fi), what)
    fx = repo.func(f"{BK}.xarray.XArrayBackend.multi_arg_function")
    ctx.analysed(fx.qual)
    paths = Interp(repo).explore(fx, args={"name": "sum", "arrays": (Sym("A0"), Sym("A1")), "method_kwargs": {}})
    for p in paths:
        rv = p.exit[1] if p.exit[0] == "return" else None
        st = [e for e in p.effects if e.kind == "call" and e.data["name"].endswith("XArrayBackend.stack")]
        d1 = st[0].data["kwargs"].get("dim") if st else None
        d2 = dict(rv.kwargs).get("dim") if isinstance(rv, App) else None
        if not st or d1 is None or d1 != d2 or list(st[0].data["args"]) != [Sym("A0"), Sym("A1")]:
            ctx.violation("C15.R3", fx.qual, loc(fx), "xarray multi-argument reduction", f"arrays stacked along {d1!r} with {vkey(st[0].data['args']) if st else None}, reduced along {d2!r}: must be the same new dimension over all arrays")
        else:
            ctx.ok("C15.R3", loc(fx), f"xarray: stacked along {d1!r} and reduced along the same dimension")


def r4_take(ctx):
    repo = ctx.repo
    fi = repo.func(f"{BK}.arrayapi.ArrayAPIBackend.take")
    ctx.analysed(fi.qual)
    for idx, scalar in ((3, True), ([1, 2], False)):
        paths = Interp(repo).explore(fi, args={"indices": idx, "dim": 1, "kwargs": {}})
        for p in paths:
            if p.exit[0] != "return":
                ctx.violation("C15.R4", fi.qual, loc(fi), "take accepts an integer axis", f"take(array, {idx!r}, dim=1) raises {vkey(p.exit[1])[:60]}")
                continue
            tk = [e for e in p.effects if e.kind == "call" and e.data.get("method") == "take"]
            sq = [e for e in p.effects if e.kind == "call" and e.data.get("method") == "squeeze"]
            good = len(tk) == 1 and tk[0].data["kwargs"].get("axis") == 1 and tk[0].data["args"][1] == ([3] if scalar else [1, 2])
            if scalar:
                good = good and len(sq) == 1 and sq[0].data["kwargs"].get("axis") == 1 and sq[0].data["args"][:1] == [tk[0].data["result"]]
                what = "scalar index: take([i], axis=dim) then squeeze exactly that axis"
            else:
                good = good and not sq
                what = "sequence index: take(indices, axis=dim), nothing squeezed"
            if not good:
                ctx.violation("C15.R4", fi.qual, loc(fi), "take", f"take(array, {idx!r}, dim=1): take{[vkey(e.data['args'][1:]) + str(e.data['kwargs']) for e in tk]} squeeze{[str(e.data['kwargs']) for e in sq]}; expected — {what} "
                              f"(squeezing without the axis also drops every other length-1 axis)")
            else:
                ctx.ok("C15.R4", loc(fi), what)


RULES = [r1_markers, r2_siblings, r3_multi_arg, r4_take]


def r5_xarray_stack(ctx):
    """C15.R5: XArrayBackend.stack puts the new dimension at position `axis`, keeping the relative order of the existing dimensions
    (numpy.stack / moveaxis semantics, not a swap)."""
    repo = ctx.repo
    fi = repo.func(f"{BK}.xarray.XArrayBackend.stack")
    ctx.analysed(fi.qual)
    for axis, want in ((0, None), (1, ["d0", "NEW", "d1", "d2"]), (2, ["d0", "d1", "NEW", "d2"]), (3, ["d0", "d1", "d2", "NEW"])):
        ret = Obj("xarray.DataArray", {"sizes": {"NEW": 2, "d0": 3, "d1": 4, "d2": 5}}, name="CONCAT")
        ip = Interp(repo, call_models={"xarray.concat": lambda run, a, k, n, f, _r=ret: run.__dict__.setdefault("m_ret", __import__("copy").deepcopy(_r)),
                                       "numpy.any": lambda run, a, k, n, f: False})
        arrs = tuple(Obj("xarray.DataArray", {"sizes": {"d0": 3, "d1": 4, "d2": 5}}, name=f"A{i}") for i in range(2))
        paths = ip.explore(fi, args={"arrays": arrs, "dim": "NEW", "axis": axis, "method_kwargs": {}})
        ctx.evals(len(paths))
        for p in paths:
            if p.exit[0] != "return":
                ctx.undecided("C15.R5", loc(fi), f"stack(axis={axis}) not evaluable on the model: {vkey(p.exit[1])[:80]}")
                continue
            tr = [e for e in p.effects if e.kind == "call" and e.data.get("method") == "transpose"]
            got = [x for x in tr[0].data["args"]] if tr else None
            if got != want:
                ctx.violation("C15.R5", fi.qual, loc(fi), f"new dimension placed at axis {axis}",
                              f"inputs with dims (d0, d1, d2) stacked along a new dimension at axis={axis}: result dimension order {got if got else '(NEW, d0, d1, d2)'}, "
                              f"numpy.stack gives {want if want else '(NEW, d0, d1, d2)'}")
            else:
                ctx.ok("C15.R5", loc(fi), f"stack axis={axis}: {want if want else 'new dimension first, no transpose'}")


RULES.append(r5_xarray_stack)

from .common import lazy  # noqa: E402
RULES.append(lazy("C13", "r4_batch_transform", "a batch holding one node is passed through, not reduced over its internal axes"))


def r6_stack_axis_provenance(ctx):
    """C15.R6: the array-API `stack` broadcasts its inputs to a common shape and stacks them along the caller's `axis`, like numpy.stack on
    the broadcast arrays.  The position handed to the library must be the caller's `axis` itself, or derived from the *broadcast* result:
    anything computed from one particular input (`args[0].ndim`) is wrong as soon as that input has a lower rank than another one — a
    negative axis then lands one position off, and a valid top axis is refused.  No exit of the function may depend on a single input."""
    repo = ctx.repo
    fi = repo.func(f"{BK}.arrayapi.ArrayAPIBackend.stack")
    ctx.analysed(fi.qual)
    ps = Interp(repo).explore(fi)
    ctx.evals(len(ps))
    n = 0
    for p in ps:
        single = [d for d in p.decisions if "args[" in d.key]
        if p.exit[0] == "raise" and single:
            ctx.violation("C15.R6", fi.qual, loc(fi), "no exit depends on one particular input",
                          f"stack raises {vkey(p.exit[1])[:90]} depending on {single[0].key[:80]}: the inputs are broadcast first, so the rank of the result is the largest "
                          f"rank among them, not that of the first — stacking a (3,) array with a (2, 3) one along the valid axis 2 is refused")
            return
        if p.exit[0] != "return":
            continue
        n += 1
        v = p.exit[1]
        if not (isinstance(v, App) and v.fname.endswith(".stack")):
            ctx.undecided("C15.R6", loc(fi), f"stack returns {vkey(v)[:100]}")
            continue
        ax = v.kw("axis", v.args[1] if len(v.args) > 1 else None)
        arr = v.args[0] if v.args else None
        while isinstance(arr, App) and arr.fname in ("list", "tuple", "builtins.list", "builtins.tuple") and len(arr.args) == 1:
            arr = arr.args[0]  # a list / tuple made of the broadcast result holds the same arrays in the same order
        if not (isinstance(arr, App) and "broadcast_arrays" in arr.fname):
            ctx.violation("C15.R6", fi.qual, loc(fi), "inputs broadcast before stacking", f"the library's stack receives {vkey(arr)[:100]} instead of the broadcast inputs")
        elif vkey(ax) != "axis" and ("args[" in vkey(ax) or "axis" not in vkey(ax)):
            ctx.violation("C15.R6", fi.qual, loc(fi), "axis handed on as given",
                          f"the new axis handed to the library is {vkey(ax)[:100]}, computed from one particular input: with inputs of different rank (broadcast (3,) with (2, 3)) "
                          f"axis=-1 lands at position 1 instead of 2, so the stacked array has the wrong layout although its shape may look right")
        else:
            ctx.ok("C15.R6", loc(fi), f"stack: library called with the broadcast inputs and axis = {vkey(ax)[:60]}")
    ctx.floor("C15.R6.paths", n, 1)


RULES.append(r6_stack_axis_provenance)
