"""C16 — the preschedule is a faithful structural summary of the job DAG (structural clauses only)."""
from __future__ import annotations

import ast
import itertools

from ..interp import Interp
from ..lib import is_call, loc
from ..stmts import _ConcreteIter
from ..terms import App, Atom, ModelFn, Obj, vkey
from .common import dsid

GR = "cascade.scheduler.graph"
VW = "cascade.low.views"
META = {
    "explanation": "Static structural analysis of cascade.low.views and cascade.scheduler.graph by abstract interpretation on model edge lists: "
                   "dependants / param_source / precompute record for every task its consumers, inputs and outputs exactly as the edges state "
                   "(keyword and positional edges, several consumers of one output, several outputs of one task; an edge that is both or neither "
                   "keyword and positional is refused); components are ordered heaviest first; the component flood fill starts from exactly the "
                   "tasks without inputs, follows in- and out-edges, puts every task in exactly one component and lists as a component's sources "
                   "its input-free tasks (decided on two model DAGs in every visiting order — the V shape a->c<-b needs the in-edge direction, "
                   "the isolated task needs its own component). "
                   "Small-scope clauses (task names are opaque to the code, which only counts, compares and takes min / max): on every DAG with "
                   "up to four tasks, decompose yields exactly the weakly connected components, enrich gives depth = number of layers, value = "
                   "depth - distance to the nearest sink, and the distance matrix of the nearest-common-descendant definition (also checked for "
                   "the pure-Python fallback on the path matrices of all 64 four-task DAGs). "
                   "Later rules: the edge maps on all 120 listing orders of the model edges, the coptrs wrapper against the library's contract, the small-scope obligations again with every integer constant above the scope lowered to 1, 2, 3 (scaled thresholds). Not decided: components with more than four tasks (the scope is a bound, not a proof), the optional coptrs implementation.",
    "assumptions": ["task ids are opaque (used only through equality / hashing)"],
}


def _edge(src_task, src_out, sink, kw=None, ps=None):
    return Obj("cascade.low.core.Task2TaskEdge", {"source": dsid(src_task, src_out), "sink_task": sink, "sink_input_kw": kw, "sink_input_ps": ps})


def _as_plain(v):
    if isinstance(v, dict):
        return {k: _as_plain(x) for k, x in v.items()}
    return v


def r1_projections(ctx):
    """C16.R1: consumers, inputs and outputs are recorded exactly as the edges state."""
    repo = ctx.repo
    A, B, C = "A", "B", "C"
    # A.0 has two consumers; C reads two different outputs of A (parallel edges between one pair of tasks) and one of B
    edges = [_edge(A, "0", B, kw="x"), _edge(A, "0", C, ps=0), _edge(B, "1", C, kw="y"), _edge(A, "1", C, kw="z"), _edge(A, "2", "E", kw="w")]
    fd = repo.func(f"{VW}.dependants")
    ctx.analysed(fd.qual)
    want = {dsid(A, "0"): {B, C}, dsid(B, "1"): {C}, dsid(A, "1"): {C}, dsid(A, "2"): {"E"}}
    # the edge list is a set in disguise: every listing order of the same edges must give the same maps
    nperm = bad = 0
    for perm in itertools.permutations(edges):
        ps = Interp(repo).explore(fd, args={"edges": list(perm)})
        ctx.evals(len(ps))
        nperm += 1
        got = _as_plain(ps[0].exit[1]) if len(ps) == 1 and ps[0].exit[0] == "return" and isinstance(ps[0].exit[1], dict) else None
        if got is None or {k: set(v) for k, v in got.items() if v} != want:
            order = ", ".join(f"{vkey(e.fields['source'])}->{e.fields['sink_task']}" for e in perm)
            ctx.violation("C16.R1", fd.qual, loc(fd), "consumers per dataset", f"edges listed as {order}: dependants = {vkey(got)[:160]}, expected {vkey(want)}")
            bad += 1
            break
    if not bad:
        ctx.ok("C16.R1", loc(fd), f"dependants: every edge adds its sink to its source dataset's consumers (all {nperm} listing orders of the model edges)")
    ctx.floor("C16.R1.orders", nperm, 120 if not bad else 1)
    fp = repo.func(f"{VW}.param_source")
    ctx.analysed(fp.qual)
    want = {B: {"x": dsid(A, "0")}, C: {0: dsid(A, "0"), "y": dsid(B, "1"), "z": dsid(A, "1")}, "E": {"w": dsid(A, "2")}}
    bad = 0
    for perm in itertools.permutations(edges):
        ps = Interp(repo).explore(fp, args={"edges": list(perm)})
        ctx.evals(len(ps))
        got = _as_plain(ps[0].exit[1]) if len(ps) == 1 and ps[0].exit[0] == "return" and isinstance(ps[0].exit[1], dict) else None
        if got is None or {k: dict(v) for k, v in got.items()} != want:
            order = ", ".join(f"{vkey(e.fields['source'])}->{e.fields['sink_task']}" for e in perm)
            ctx.violation("C16.R1", fp.qual, loc(fp), "inputs per task", f"edges listed as {order}: param_source = {vkey(got)[:200]}, expected {vkey(want)}")
            bad += 1
            break
    if not bad:
        ctx.ok("C16.R1", loc(fp), "param_source: every edge recorded under its sink task and its keyword / position (all listing orders)")
    for label, e in (("both keyword and position", _edge(A, "0", B, kw="x", ps=0)), ("neither keyword nor position", _edge(A, "0", B))):
        ps = Interp(repo).explore(fp, args={"edges": [e]})
        if any(p.exit[0] != "raise" for p in ps):
            ctx.violation("C16.R1", fp.qual, loc(fp), f"edge with {label}", f"an edge with {label} is accepted: {[(p.exit[0], vkey(p.exit[1])[:60]) for p in ps]}")
        else:
            ctx.ok("C16.R1", loc(fp), f"an edge with {label} is refused")
    # precompute: the three maps of the Preschedule, and the order of the components
    fi = repo.func(f"{GR}.precompute")
    ctx.analysed(fi.qual)
    tdef = lambda outs: Obj("cascade.low.core.TaskInstance", {"definition": Obj("cascade.low.core.TaskDefinition", {"output_schema": {o: "Any" for o in outs}})})
    job = Obj("cascade.low.core.JobInstance", {"tasks": {A: tdef(["0", "1", "2"]), B: tdef(["1", "2"]), C: tdef(["0"]), "D": tdef(["0"]), "E": tdef(["0"])}, "edges": list(edges), "ext_outputs": [], "serdes": {}}, name="JOB")
    # seven components of sizes 1, 3, 2, 1, 2, 1, 1 (more than any plausible pool / batch size, and not a multiple of it)
    plain = [(["D"], ["D"]), ([A, B, C], [A]), (["E1", "E2"], ["E1"]), (["F"], ["F"]), (["G1", "G2"], ["G1"]), (["H"], ["H"]), (["I"], ["I"])]

    def enrich(run, a, k, n, f):
        return Obj("cascade.scheduler.core.ComponentCore", {"nodes": list(a[0][0]), "sources": list(a[0][1]), "distance_matrix": {}, "value": {}, "depth": 1})

    def tpmap(run, a, k, n, f):
        return [run.call_value(a[0], None, [item], {}, n, f) for item in (a[1].items if isinstance(a[1], _ConcreteIter) else list(a[1]))]
    seen = {}

    def decompose(run, a, k, n, f):
        seen["args"] = a
        return _ConcreteIter(list(plain))
    ip = Interp(repo, call_models={f"{GR}.decompose": decompose, f"{GR}.enrich": enrich, ("method", "map"): tpmap},
                inline={"cascade.low.core.JobInstance.outputs_of", f"{VW}.dependants", f"{VW}.param_source", "cascade.scheduler.core.ComponentCore.weight"})
    ps = ip.explore(fi, args={"job_instance": job})
    ctx.evals(len(ps))
    if len(ps) != 1 or ps[0].exit[0] != "return" or not isinstance(ps[0].exit[1], Obj):
        ctx.undecided("C16.R1", loc(fi), f"precompute on the model job: {[(p.exit[0], vkey(p.exit[1])[:80]) for p in ps]}")
        return
    pre = ps[0].exit[1]
    f_ = pre.fields
    eo = {k: set(v) for k, v in _as_plain(f_.get("edge_o", {})).items() if v}
    ei = {k: set(v) for k, v in _as_plain(f_.get("edge_i", {})).items() if v}
    to = {k: set(v) for k, v in _as_plain(f_.get("task_o", {})).items()}
    want_eo = {dsid(A, "0"): {B, C}, dsid(B, "1"): {C}, dsid(A, "1"): {C}, dsid(A, "2"): {"E"}}
    want_ei = {B: {dsid(A, "0")}, C: {dsid(A, "0"), dsid(B, "1"), dsid(A, "1")}, "E": {dsid(A, "2")}}
    want_to = {A: {dsid(A, "0"), dsid(A, "1"), dsid(A, "2")}, B: {dsid(B, "1"), dsid(B, "2")}, C: {dsid(C, "0")}, "D": {dsid("D", "0")}, "E": {dsid("E", "0")}}
    for nm, got_, want_ in (("edge_o (consumers of each dataset)", eo, want_eo), ("edge_i (inputs of each task)", ei, want_ei), ("task_o (outputs of each task)", to, want_to)):
        if got_ != want_:
            ctx.violation("C16.R1", fi.qual, loc(fi), nm.split(" ")[0], f"model job (A.0->B, A.0->C, B.1->C, A.1->C, A.2->E; D isolated): {nm} = {vkey(got_)[:200]}, expected {vkey(want_)[:200]}")
        else:
            ctx.ok("C16.R1", loc(fi), f"precompute: {nm} as the edges state")
    # what the component search is given: every task, and task-level projections of the edges
    if "args" in seen:
        nodes, ein, eout = (list(seen["args"]) + [None, None, None])[:3]
        ein_p = {k: set(v) for k, v in _as_plain(ein).items() if v} if isinstance(ein, dict) else None
        eout_p = {k: set(v) for k, v in _as_plain(eout).items() if v} if isinstance(eout, dict) else None
        if sorted(nodes or []) != [A, B, C, "D", "E"] or ein_p != {B: {A}, C: {A, B}, "E": {A}} or eout_p != {A: {B, C, "E"}, B: {C}}:
            ctx.violation("C16.R1", fi.qual, loc(fi), "task-level projections handed to the component search",
                          f"decompose is given tasks {vkey(nodes)[:60]}, producers-of {vkey(ein_p)[:100]}, consumers-of {vkey(eout_p)[:100]}; expected all five tasks, "
                          f"{{B: {{A}}, C: {{A, B}}, E: {{A}}}} and {{A: {{B, C, E}}, B: {{C}}}}")
        else:
            ctx.ok("C16.R1", loc(fi), "the component search is given every task and the task-level in/out projections of the edges")
    comps = f_.get("components")
    sizes = [len(c.fields["nodes"]) for c in comps] if isinstance(comps, list) and all(isinstance(c, Obj) for c in comps) else None
    if sizes != [3, 2, 2, 1, 1, 1, 1]:
        ctx.violation("C16.R2", fi.qual, loc(fi), "every component kept, heaviest first",
                      f"seven components of 1, 3, 2, 1, 2, 1, 1 tasks come out as sizes {sizes}; expected all seven, heaviest first [3, 2, 2, 1, 1, 1, 1]")
    else:
        ctx.ok("C16.R2", loc(fi), "components ordered heaviest first")


def r3_flood_fill(ctx):
    """C16.R3: the component search starts from exactly the input-free tasks, follows in- and out-edges, assigns every task to exactly
    one component, and reports each component's input-free tasks as its sources — on two model DAGs, every order of the task list."""
    repo = ctx.repo
    fi = repo.func(f"{GR}.decompose")
    ctx.analysed(fi.qual)
    models = [
        ("V shape a->c<-b plus isolated d", ["a", "b", "c", "d"], {"a": set(), "b": set(), "c": {"a", "b"}, "d": set()}, {"a": {"c"}, "b": {"c"}, "c": set(), "d": set()},
         [({"a", "b", "c"}, {"a", "b"}), ({"d"}, {"d"})]),
        ("chain a->b->c and diamond s->(l,r)->t", ["a", "b", "c", "s", "l", "r", "t"],
         {"a": set(), "b": {"a"}, "c": {"b"}, "s": set(), "l": {"s"}, "r": {"s"}, "t": {"l", "r"}},
         {"a": {"b"}, "b": {"c"}, "c": set(), "s": {"l", "r"}, "l": {"t"}, "r": {"t"}, "t": set()},
         [({"a", "b", "c"}, {"a"}), ({"s", "l", "r", "t"}, {"s"})]),
    ]
    n = 0
    for label, nodes, ei, eo, want in models:
        perms = list(itertools.permutations(nodes)) if len(nodes) <= 4 else [tuple(nodes), tuple(reversed(nodes)), tuple(nodes[3:] + nodes[:3]), tuple(sorted(nodes))]
        bad = None
        for perm in perms:
            ps = Interp(repo, max_while=40, max_concrete_iter=40).explore(fi, args={"nodes": list(perm), "edge_i": {k: set(v) for k, v in ei.items()},
                                                                                  "edge_o": {k: set(v) for k, v in eo.items()}})
            ctx.evals(len(ps))
            n += 1
            if len(ps) != 1 or ps[0].exit[0] != "return":
                bad = (perm, f"ends {[(p.exit[0], vkey(p.exit[1])[:60]) for p in ps]}")
                break
            rv = ps[0].exit[1]
            ys = [e.data.get("value") for e in ps[0].effects if e.kind == "yield"]
            items = rv.items if isinstance(rv, _ConcreteIter) else (list(rv) if isinstance(rv, (list, tuple)) else (ys if rv is None else None))
            if items is None:
                bad = (perm, f"returns {vkey(rv)[:80]}")
                break
            got = sorted(((frozenset(c[0]), frozenset(c[1]), len(c[0])) for c in items), key=lambda t: sorted(t[0]))
            exp = sorted(((frozenset(c), frozenset(s), len(c)) for c, s in want), key=lambda t: sorted(t[0]))
            if got != exp:
                bad = (perm, f"components {[(sorted(c), sorted(s)) for c, s, _ in got]} (sizes {[k for _, _, k in got]})")
                break
        if bad:
            ctx.violation("C16.R3", fi.qual, loc(fi), f"components of: {label}",
                          f"{label}, tasks listed as {list(bad[0])}: decompose {bad[1]}; expected {[(sorted(c), sorted(s)) for c, s in want]} — every task in exactly one "
                          f"component, tasks joined through a common consumer or producer together, each component's input-free tasks as its sources")
        else:
            ctx.ok("C16.R3", loc(fi), f"decompose | {label}: partition and sources as expected in {len(perms)} visiting orders")
    ctx.floor("C16.R3.runs", n, 8)
    # every DAG over four tasks (one topological order per shape): the partition is exactly the weakly connected components
    nodes = ["a", "b", "c", "d"]
    pairs = [(x, y) for i_, x in enumerate(nodes) for y in nodes[i_ + 1:]]
    m = wrong = 0
    for mask in range(1 << len(pairs)):
        edges = [pr for k, pr in enumerate(pairs) if mask >> k & 1]
        comp = {v: v for v in nodes}

        def find(v):
            while comp[v] != v:
                v = comp[v]
            return v
        for x, y in edges:
            comp[find(x)] = find(y)
        groups = {}
        for v in nodes:
            groups.setdefault(find(v), set()).add(v)
        ei = {v: {x for x, y in edges if y == v} for v in nodes}
        eo = {v: {y for x, y in edges if x == v} for v in nodes}
        exp = sorted((sorted(g), sorted(v for v in g if not ei[v])) for g in groups.values())
        ps = Interp(repo, max_while=40, max_concrete_iter=40).explore(fi, args={"nodes": list(nodes), "edge_i": ei, "edge_o": eo})
        ctx.evals(len(ps))
        m += 1
        ys = [e.data.get("value") for e in ps[0].effects if e.kind == "yield"] if len(ps) == 1 and ps[0].exit[0] == "return" else None
        got = sorted((sorted(c[0]), sorted(c[1])) for c in ys) if ys is not None and all(isinstance(c, tuple) and len(c) == 2 for c in ys) else None
        if got != exp or (ys is not None and any(len(c[0]) != len(set(c[0])) for c in ys)):
            wrong += 1
            ctx.violation("C16.R3", fi.qual, loc(fi), "partition = weakly connected components",
                          f"DAG with edges {edges}: decompose yields {[(list(c[0]), list(c[1])) for c in ys] if ys is not None else [(p.exit[0]) for p in ps]}; expected the components "
                          f"{exp} (each task once, sources = input-free tasks)")
            break
    if not wrong:
        ctx.ok("C16.R3", loc(fi), f"decompose == weakly connected components on all {m} DAGs over four tasks")
    ctx.floor("C16.R3.dags", m, 1 if wrong else 64)


RULES = [r1_projections, r3_flood_fill]


def r4_ncd_fallback(ctx):
    """C16.R4: the pure-Python nearest-common-descendant table equals its definition — distance(a, a) = 0 and, for a != b,
    distance(a, b) = min over c of max(paths[a][c], paths[b][c]), the depth L if no task is reachable from both — on the shortest-path
    matrix of *every* DAG over four tasks (all 64 edge sets compatible with one topological order; the function is symmetric in the
    task names).  The function touches path lengths only through min / max / comparisons, so its result depends on their relative
    order only; four tasks give every configuration of two tasks, a connecting path and a nearer common consumer."""
    repo = ctx.repo
    fi = repo.func(f"{GR}.nearest_common_descendant")
    ctx.analysed(fi.qual)
    import collections
    nodes = ["a", "b", "c", "d"]
    pairs = [(x, y) for i_, x in enumerate(nodes) for y in nodes[i_ + 1:]]
    n = bad = undecided = 0
    for mask in range(1 << len(pairs)):
        edges = [pr for k, pr in enumerate(pairs) if mask >> k & 1]
        # shortest path lengths along the edges (Floyd-Warshall on 4 tasks); depth L = number of layers = longest path + 1
        INF = 99
        d = {x: {y: (0 if x == y else INF) for y in nodes} for x in nodes}
        for x, y in edges:
            d[x][y] = 1
        for m in nodes:
            for x in nodes:
                for y in nodes:
                    d[x][y] = min(d[x][y], d[x][m] + d[m][y])
        longest = {x: 0 for x in nodes}
        for x in reversed(nodes):
            longest[x] = max([1 + longest[y] for (x2, y) in edges if x2 == x] + [0])
        L = max(longest.values()) + 1
        want = {a: {b: (0 if a == b else min([max(d[a][c], d[b][c]) for c in nodes if d[a][c] < INF and d[b][c] < INF] + [L])) for b in nodes} for a in nodes}
        paths_arg = {x: collections.defaultdict((lambda _L=L: _L), {y: v for y, v in d[x].items() if v < INF}) for x in nodes}
        ps = [p for p in Interp(repo, max_concrete_iter=80).explore(fi, args={"paths": paths_arg, "nodes": list(nodes), "L": L})
              if not any(dd.key.startswith("import_fails") and not dd.value for dd in p.decisions)]
        ctx.evals(len(ps))
        n += 1
        if len(ps) != 1 or ps[0].exit[0] != "return" or not isinstance(ps[0].exit[1], dict):
            undecided += 1
            continue
        got = {a: dict(r) for a, r in ps[0].exit[1].items()}
        diff = [(a, b, got.get(a, {}).get(b), want[a][b]) for a in nodes for b in nodes if got.get(a, {}).get(b) != want[a][b]]
        if diff:
            bad += 1
            ctx.violation("C16.R4", fi.qual, loc(fi), "distance = nearest common descendant",
                          f"DAG with edges {edges} (depth {L}): the fallback gives distance({diff[0][0]}, {diff[0][1]}) = {diff[0][2]}, the definition "
                          f"min over c of max(d(a,c), d(b,c)) gives {diff[0][3]}")
            break
    if undecided:
        ctx.undecided("C16.R4", loc(fi), f"{undecided} of {n} DAGs: the fallback is not a single completed path")
    elif not bad:
        ctx.ok("C16.R4", loc(fi), f"fallback == definition on the path matrices of all {n} DAGs over four tasks")
    ctx.floor("C16.R4.dags", n, 64)


RULES.append(r4_ncd_fallback)


def r4b_ncd_compiled_path(ctx):
    """C16.R4b: the branch that hands the computation to the optional compiled library (`coptrs`) is a *wrapper*: it renumbers the tasks,
    passes a pair-keyed matrix and the depth, and translates the answer back.  The library is not part of this repository; it is modelled
    by its contract — the same definition as the fallback, over the indices it is given — and the obligation is sibling agreement: on
    every DAG over four tasks the wrapper's table equals the definition (and therefore the fallback's, R4).  This decides the renumbering
    and the translation, not the library."""
    repo = ctx.repo
    fi = repo.func(f"{GR}.nearest_common_descendant")
    ctx.analysed(fi.qual)
    import collections
    uses_lib = any(isinstance(n, (ast.Import, ast.ImportFrom)) and any(a.name.split(".")[0] == "coptrs" for a in n.names) for n in ast.walk(fi.node))
    if not uses_lib:
        ctx.ok("C16.R4b", loc(fi), "no optional compiled branch in nearest_common_descendant (nothing to agree with)")
        return

    def lib(run, args, kwargs, node, fr):
        m, L = (list(args) + [kwargs.get("L")])[:2] if len(args) < 2 else args[:2]
        if not isinstance(m, dict) or not isinstance(L, int) or not all(isinstance(k, tuple) and len(k) == 2 and all(isinstance(i, int) for i in k) for k in m):
            return App("coptrs.nearest_common_descendant", args, kwargs, uid=run.fresh())
        idx = sorted({i for k in m for i in k})
        out = {}
        for i in idx:
            for j in idx:
                if i == j:
                    out[(i, j)] = 0
                    continue
                cands = [max(m[(i, c)], m[(j, c)]) for c in idx if (i, c) in m and (j, c) in m]
                out[(i, j)] = min(cands + [L])
        return out

    nodes = ["a", "b", "c", "d"]
    pairs = [(x, y) for i_, x in enumerate(nodes) for y in nodes[i_ + 1:]]
    n = bad = undecided = 0
    for mask in range(1 << len(pairs)):
        edges = [pr for k, pr in enumerate(pairs) if mask >> k & 1]
        INF = 99
        d = {x: {y: (0 if x == y else INF) for y in nodes} for x in nodes}
        for x, y in edges:
            d[x][y] = 1
        for m_ in nodes:
            for x in nodes:
                for y in nodes:
                    d[x][y] = min(d[x][y], d[x][m_] + d[m_][y])
        longest = {x: 0 for x in nodes}
        for x in reversed(nodes):
            longest[x] = max([1 + longest[y] for (x2, y) in edges if x2 == x] + [0])
        L = max(longest.values()) + 1
        want = {a: {b: (0 if a == b else min([max(d[a][c], d[b][c]) for c in nodes if d[a][c] < INF and d[b][c] < INF] + [L])) for b in nodes} for a in nodes}
        paths_arg = {x: collections.defaultdict((lambda _L=L: _L), {y: v for y, v in d[x].items() if v < INF}) for x in nodes}
        ps = [p for p in Interp(repo, max_concrete_iter=80, call_models={"coptrs.nearest_common_descendant": lib}).explore(
                  fi, args={"paths": paths_arg, "nodes": list(nodes), "L": L})
              if not any(dd.key.startswith("import_fails") and dd.value for dd in p.decisions)]
        ctx.evals(len(ps))
        n += 1
        if len(ps) != 1 or ps[0].exit[0] != "return" or not isinstance(ps[0].exit[1], dict):
            undecided += 1
            continue
        got = {a: dict(r) if isinstance(r, dict) else {} for a, r in ps[0].exit[1].items()}
        diff = [(a, b, got.get(a, {}).get(b), want[a][b]) for a in nodes for b in nodes if got.get(a, {}).get(b) != want[a][b]]
        if diff:
            bad += 1
            ctx.violation("C16.R4b", fi.qual, loc(fi), "compiled branch agrees with the definition",
                          f"DAG with edges {edges} (depth {L}): with the library computing the definition over the indices it is given, the wrapper "
                          f"returns distance({diff[0][0]}, {diff[0][1]}) = {diff[0][2]}, the definition gives {diff[0][3]}")
            break
    if undecided:
        ctx.undecided("C16.R4b", loc(fi), f"{undecided} of {n} DAGs: the compiled branch is not a single completed path")
    elif not bad:
        ctx.ok("C16.R4b", loc(fi), f"compiled-branch wrapper == definition on the path matrices of all {n} DAGs over four tasks (library modelled by its contract)")
    ctx.floor("C16.R4b.dags", n, 64)


RULES.append(r4b_ncd_compiled_path)


def r5_enrich_small_scope(ctx, rid="C16.R5", scale=None):
    """C16.R5: `enrich` on every weakly connected DAG with up to four tasks (one topological order per shape; task names are opaque to the
    code): depth = number of layers (longest path + 1), value(v) = depth - distance from v to its nearest sink, distance matrix = nearest
    common descendant by the definition, sources / nodes as given.  Bounded scope, stated as such: larger components are not decided."""
    repo = ctx.repo
    fi = repo.func(f"{GR}.enrich")
    ctx.analysed(fi.qual)
    INF = 99
    n = bad = undecided = 0
    for size in (1, 2, 3, 4):
        nodes = ["a", "b", "c", "d"][:size]
        pairs = [(x, y) for i_, x in enumerate(nodes) for y in nodes[i_ + 1:]]
        for mask in range(1 << len(pairs)):
            edges = [pr for k, pr in enumerate(pairs) if mask >> k & 1]
            # weakly connected?
            seen, todo = {nodes[0]}, [nodes[0]]
            while todo:
                v = todo.pop()
                for x, y in edges:
                    for u, w in ((x, y), (y, x)):
                        if u == v and w not in seen:
                            seen.add(w)
                            todo.append(w)
            if len(seen) != len(nodes):
                continue
            d = {x: {y: (0 if x == y else INF) for y in nodes} for x in nodes}
            for x, y in edges:
                d[x][y] = 1
            for m in nodes:
                for x in nodes:
                    for y in nodes:
                        d[x][y] = min(d[x][y], d[x][m] + d[m][y])
            ei = {v: {x for x, y in edges if y == v} for v in nodes}
            eo = {v: {y for x, y in edges if x == v} for v in nodes}
            sinks = [v for v in nodes if not eo[v]]
            longest = {}
            for x in reversed(nodes):
                longest[x] = max([1 + longest[y] for y in eo[x]] + [0])
            L = max(longest.values()) + 1
            want_value = {v: L - min(d[v][s] for s in sinks if d[v][s] < INF) for v in nodes}
            want_dist = {a: {b: (0 if a == b else min([max(d[a][c], d[b][c]) for c in nodes if d[a][c] < INF and d[b][c] < INF] + [L])) for b in nodes} for a in nodes}
            sources = [v for v in nodes if not ei[v]]
            ps = [p for p in Interp(repo, max_concrete_iter=80, max_while=12, inline={f"{GR}.nearest_common_descendant"}, scale_ints=scale).explore(
                fi, defaults=True, args={"plain_component": (list(nodes), list(sources)), "edge_i": {k: set(v) for k, v in ei.items()}, "edge_o": {k: set(v) for k, v in eo.items()}})
                if not any(dd.key.startswith("import_fails") and not dd.value for dd in p.decisions)]
            ctx.evals(len(ps))
            n += 1
            rv = ps[0].exit[1] if len(ps) == 1 and ps[0].exit[0] == "return" else None
            if not isinstance(rv, Obj):
                undecided += 1
                continue
            f_ = {**rv.kwargs, **rv.fields}
            gv = dict(f_.get("value") or {})
            gd = {a: {b: (dict(r)).get(b, None) for b in nodes} for a, r in (f_.get("distance_matrix") or {}).items()}
            problems = []
            if f_.get("depth") != L:
                problems.append(f"depth {vkey(f_.get('depth'))} (expected {L})")
            if gv != want_value:
                problems.append(f"values {gv} (expected {want_value})")
            if gd != want_dist:
                dd_ = [(a, b, gd.get(a, {}).get(b), want_dist[a][b]) for a in nodes for b in nodes if gd.get(a, {}).get(b) != want_dist[a][b]]
                problems.append(f"distance({dd_[0][0]}, {dd_[0][1]}) = {dd_[0][2]} (expected {dd_[0][3]})")
            if sorted(f_.get("nodes") or []) != nodes or sorted(f_.get("sources") or []) != sorted(sources):
                problems.append(f"nodes/sources {f_.get('nodes')}/{f_.get('sources')}")
            if problems:
                bad += 1
                ctx.violation(rid, fi.qual, loc(fi), "component summary of a small DAG" + (f" (numeric thresholds lowered to {scale[1]})" if scale else ""), (f"with every integer constant above {scale[2]} in the summary code lowered to {scale[1]} (a size threshold shows its effect inside the explored scope): " if scale else "") + f"component with edges {edges or '(single task)'}: enrich gives " + "; ".join(problems))
                break
        if bad:
            break
    if undecided:
        ctx.undecided(rid, loc(fi), f"{undecided} of {n} small DAGs: enrich is not a single completed path returning a ComponentCore")
    elif not bad:
        ctx.ok(rid, loc(fi), (f"[thresholds -> {scale[1]}] " if scale else "") + f"enrich == definitions (depth, value, distances, sources) on all {n} weakly connected DAGs with up to four tasks")
    ctx.floor(rid + ".dags", n, 40)


RULES.append(r5_enrich_small_scope)


SCALE_MODULES = frozenset({"cascade.scheduler.graph", "cascade.low.views", "cascade.scheduler.core"})


def r6_scaled_thresholds(ctx):
    """C16.R6: the small-scope rules explore components of up to four tasks; they say nothing about a behaviour that only starts beyond a
    numeric threshold written in the code (a horizon, a cut-off, a "large component" switch).  Every integer constant above the scope in
    the summary modules — literal or module-level name, including parameter defaults — is therefore lowered to 1, 2 and 3 in turn and the
    enrich obligations are decided again: a threshold that merely selects between equivalent computations stays silent, one that truncates
    or approximates shows its effect on a small DAG."""
    for k in (1, 2, 3):
        r5_enrich_small_scope(ctx, rid="C16.R6", scale=(SCALE_MODULES, k, 4))


RULES.append(r6_scaled_thresholds)

from .common import lazy  # noqa: E402
RULES.append(lazy("C03", "r8_initial_state_owned", "the preschedule stays a faithful summary while the job runs: the controller's working copies must not be the preschedule's own consumer sets"))
