"""C16 — the preschedule is a faithful structural summary of the job DAG (structural clauses only)."""
from __future__ import annotations

import itertools

from ..interp import Interp
from ..lib import is_call, loc
from ..stmts import _ConcreteIter
from ..terms import Atom, ModelFn, Obj, vkey
from .common import dsid

GR = "cascade.scheduler.graph"
VW = "cascade.low.views"
META = {
    "explanation": "Static structural analysis of cascade.low.views and cascade.scheduler.graph by abstract interpretation on model edge lists: "
                   "dependants / param_source / precompute record for every task its consumers, inputs and outputs exactly as the edges state "
                   "(keyword and positional edges, several consumers of one output, several outputs of one task; an edge that is both or neither "
                   "keyword and positional is refused); components are ordered heaviest first; the component flood fill starts from exactly the "
                   "tasks without inputs, follows in- and out-edges, puts every task in exactly one component and lists as a component's sources "
                   "its input-free tasks (decided on two model DAGs in every visiting order — the V shape a->c<-b needs the in-edge direction, "
                   "the isolated task needs its own component). "
                   "Not decided: that the partition is the weakly connected components of every DAG, task values, the distance matrix, depth "
                   "(graph-algorithm results over all DAGs; no structural necessary condition in reach that would not freeze today's source shape).",
    "assumptions": ["task ids are opaque (used only through equality / hashing)"],
}


def _edge(src_task, src_out, sink, kw=None, ps=None):
    return Obj("cascade.low.core.Task2TaskEdge", {"source": dsid(src_task, src_out), "sink_task": sink, "sink_input_kw": kw, "sink_input_ps": ps})


def _as_plain(v):
    if isinstance(v, dict):
        return {k: _as_plain(x) for k, x in v.items()}
    return v


def r1_projections(ctx):
    """C16.R1: consumers, inputs and outputs are recorded exactly as the edges state."""
    repo = ctx.repo
    A, B, C = "A", "B", "C"
    # A.0 has two consumers; C reads two different outputs of A (parallel edges between one pair of tasks) and one of B
    edges = [_edge(A, "0", B, kw="x"), _edge(A, "0", C, ps=0), _edge(B, "1", C, kw="y"), _edge(A, "1", C, kw="z")]
    fd = repo.func(f"{VW}.dependants")
    ctx.analysed(fd.qual)
    ps = Interp(repo).explore(fd, args={"edges": list(edges)})
    ctx.evals(len(ps))
    want = {dsid(A, "0"): {B, C}, dsid(B, "1"): {C}, dsid(A, "1"): {C}}
    got = _as_plain(ps[0].exit[1]) if len(ps) == 1 and ps[0].exit[0] == "return" else None
    if got is None or {k: set(v) for k, v in got.items() if v} != want:
        ctx.violation("C16.R1", fd.qual, loc(fd), "consumers per dataset", f"edges A.0->B, A.0->C, B.1->C, A.1->C: dependants = {vkey(got)[:160]}, expected {vkey(want)}")
    else:
        ctx.ok("C16.R1", loc(fd), "dependants: every edge adds its sink to its source dataset's consumers")
    fp = repo.func(f"{VW}.param_source")
    ctx.analysed(fp.qual)
    ps = Interp(repo).explore(fp, args={"edges": list(edges)})
    ctx.evals(len(ps))
    want = {B: {"x": dsid(A, "0")}, C: {0: dsid(A, "0"), "y": dsid(B, "1"), "z": dsid(A, "1")}}
    got = _as_plain(ps[0].exit[1]) if len(ps) == 1 and ps[0].exit[0] == "return" else None
    if got is None or {k: dict(v) for k, v in got.items()} != want:
        ctx.violation("C16.R1", fp.qual, loc(fp), "inputs per task", f"edges A.0->B[x], A.0->C[0], B.1->C[y]: param_source = {vkey(got)[:200]}, expected {vkey(want)}")
    else:
        ctx.ok("C16.R1", loc(fp), "param_source: every edge recorded under its sink task and its keyword / position")
    for label, e in (("both keyword and position", _edge(A, "0", B, kw="x", ps=0)), ("neither keyword nor position", _edge(A, "0", B))):
        ps = Interp(repo).explore(fp, args={"edges": [e]})
        if any(p.exit[0] != "raise" for p in ps):
            ctx.violation("C16.R1", fp.qual, loc(fp), f"edge with {label}", f"an edge with {label} is accepted: {[(p.exit[0], vkey(p.exit[1])[:60]) for p in ps]}")
        else:
            ctx.ok("C16.R1", loc(fp), f"an edge with {label} is refused")
    # precompute: the three maps of the Preschedule, and the order of the components
    fi = repo.func(f"{GR}.precompute")
    ctx.analysed(fi.qual)
    tdef = lambda outs: Obj("cascade.low.core.TaskInstance", {"definition": Obj("cascade.low.core.TaskDefinition", {"output_schema": {o: "Any" for o in outs}})})
    job = Obj("cascade.low.core.JobInstance", {"tasks": {A: tdef(["0", "1"]), B: tdef(["1"]), C: tdef(["0"]), "D": tdef(["0"])}, "edges": list(edges)}, name="JOB")
    plain = [(["D"], ["D"]), ([A, B, C], [A]), (["E1", "E2"], ["E1"])]

    def enrich(run, a, k, n, f):
        return Obj("cascade.scheduler.core.ComponentCore", {"nodes": list(a[0][0]), "sources": list(a[0][1]), "distance_matrix": {}, "value": {}, "depth": 1})

    def tpmap(run, a, k, n, f):
        return [run.call_value(a[0], None, [item], {}, n, f) for item in (a[1].items if isinstance(a[1], _ConcreteIter) else list(a[1]))]
    seen = {}

    def decompose(run, a, k, n, f):
        seen["args"] = a
        return _ConcreteIter(list(plain))
    ip = Interp(repo, call_models={f"{GR}.decompose": decompose, f"{GR}.enrich": enrich, ("method", "map"): tpmap},
                inline={"cascade.low.core.JobInstance.outputs_of", f"{VW}.dependants", f"{VW}.param_source", "cascade.scheduler.core.ComponentCore.weight"})
    ps = ip.explore(fi, args={"job_instance": job})
    ctx.evals(len(ps))
    if len(ps) != 1 or ps[0].exit[0] != "return" or not isinstance(ps[0].exit[1], Obj):
        ctx.undecided("C16.R1", loc(fi), f"precompute on the model job: {[(p.exit[0], vkey(p.exit[1])[:80]) for p in ps]}")
        return
    pre = ps[0].exit[1]
    f_ = pre.fields
    eo = {k: set(v) for k, v in _as_plain(f_.get("edge_o", {})).items() if v}
    ei = {k: set(v) for k, v in _as_plain(f_.get("edge_i", {})).items() if v}
    to = {k: set(v) for k, v in _as_plain(f_.get("task_o", {})).items()}
    want_eo = {dsid(A, "0"): {B, C}, dsid(B, "1"): {C}, dsid(A, "1"): {C}}
    want_ei = {B: {dsid(A, "0")}, C: {dsid(A, "0"), dsid(B, "1"), dsid(A, "1")}}
    want_to = {A: {dsid(A, "0"), dsid(A, "1")}, B: {dsid(B, "1")}, C: {dsid(C, "0")}, "D": {dsid("D", "0")}}
    for nm, got_, want_ in (("edge_o (consumers of each dataset)", eo, want_eo), ("edge_i (inputs of each task)", ei, want_ei), ("task_o (outputs of each task)", to, want_to)):
        if got_ != want_:
            ctx.violation("C16.R1", fi.qual, loc(fi), nm.split(" ")[0], f"model job (A.0->B, A.0->C, B.1->C, A.1->C; D isolated): {nm} = {vkey(got_)[:200]}, expected {vkey(want_)[:200]}")
        else:
            ctx.ok("C16.R1", loc(fi), f"precompute: {nm} as the edges state")
    # what the component search is given: every task, and task-level projections of the edges
    if "args" in seen:
        nodes, ein, eout = (list(seen["args"]) + [None, None, None])[:3]
        ein_p = {k: set(v) for k, v in _as_plain(ein).items() if v} if isinstance(ein, dict) else None
        eout_p = {k: set(v) for k, v in _as_plain(eout).items() if v} if isinstance(eout, dict) else None
        if sorted(nodes or []) != [A, B, C, "D"] or ein_p != {B: {A}, C: {A, B}} or eout_p != {A: {B, C}, B: {C}}:
            ctx.violation("C16.R1", fi.qual, loc(fi), "task-level projections handed to the component search",
                          f"decompose is given tasks {vkey(nodes)[:60]}, producers-of {vkey(ein_p)[:100]}, consumers-of {vkey(eout_p)[:100]}; expected all four tasks, "
                          f"{{B: {{A}}, C: {{A, B}}}} and {{A: {{B, C}}, B: {{C}}}}")
        else:
            ctx.ok("C16.R1", loc(fi), "the component search is given every task and the task-level in/out projections of the edges")
    comps = f_.get("components")
    sizes = [len(c.fields["nodes"]) for c in comps] if isinstance(comps, list) and all(isinstance(c, Obj) for c in comps) else None
    if sizes != [3, 2, 1]:
        ctx.violation("C16.R2", fi.qual, loc(fi), "heaviest component first", f"components of 1, 3 and 2 tasks come out in the order {sizes}; expected heaviest first [3, 2, 1]")
    else:
        ctx.ok("C16.R2", loc(fi), "components ordered heaviest first")


def r3_flood_fill(ctx):
    """C16.R3: the component search starts from exactly the input-free tasks, follows in- and out-edges, assigns every task to exactly
    one component, and reports each component's input-free tasks as its sources — on two model DAGs, every order of the task list."""
    repo = ctx.repo
    fi = repo.func(f"{GR}.decompose")
    ctx.analysed(fi.qual)
    models = [
        ("V shape a->c<-b plus isolated d", ["a", "b", "c", "d"], {"a": set(), "b": set(), "c": {"a", "b"}, "d": set()}, {"a": {"c"}, "b": {"c"}, "c": set(), "d": set()},
         [({"a", "b", "c"}, {"a", "b"}), ({"d"}, {"d"})]),
        ("chain a->b->c and diamond s->(l,r)->t", ["a", "b", "c", "s", "l", "r", "t"],
         {"a": set(), "b": {"a"}, "c": {"b"}, "s": set(), "l": {"s"}, "r": {"s"}, "t": {"l", "r"}},
         {"a": {"b"}, "b": {"c"}, "c": set(), "s": {"l", "r"}, "l": {"t"}, "r": {"t"}, "t": set()},
         [({"a", "b", "c"}, {"a"}), ({"s", "l", "r", "t"}, {"s"})]),
    ]
    n = 0
    for label, nodes, ei, eo, want in models:
        perms = list(itertools.permutations(nodes)) if len(nodes) <= 4 else [tuple(nodes), tuple(reversed(nodes)), tuple(nodes[3:] + nodes[:3]), tuple(sorted(nodes))]
        bad = None
        for perm in perms:
            ps = Interp(repo, max_while=40, max_concrete_iter=40).explore(fi, args={"nodes": list(perm), "edge_i": {k: set(v) for k, v in ei.items()},
                                                                                  "edge_o": {k: set(v) for k, v in eo.items()}})
            ctx.evals(len(ps))
            n += 1
            if len(ps) != 1 or ps[0].exit[0] != "return":
                bad = (perm, f"ends {[(p.exit[0], vkey(p.exit[1])[:60]) for p in ps]}")
                break
            rv = ps[0].exit[1]
            ys = [e.data.get("value") for e in ps[0].effects if e.kind == "yield"]
            items = rv.items if isinstance(rv, _ConcreteIter) else (list(rv) if isinstance(rv, (list, tuple)) else (ys if rv is None else None))
            if items is None:
                bad = (perm, f"returns {vkey(rv)[:80]}")
                break
            got = sorted(((frozenset(c[0]), frozenset(c[1]), len(c[0])) for c in items), key=lambda t: sorted(t[0]))
            exp = sorted(((frozenset(c), frozenset(s), len(c)) for c, s in want), key=lambda t: sorted(t[0]))
            if got != exp:
                bad = (perm, f"components {[(sorted(c), sorted(s)) for c, s, _ in got]} (sizes {[k for _, _, k in got]})")
                break
        if bad:
            ctx.violation("C16.R3", fi.qual, loc(fi), f"components of: {label}",
                          f"{label}, tasks listed as {list(bad[0])}: decompose {bad[1]}; expected {[(sorted(c), sorted(s)) for c, s in want]} — every task in exactly one "
                          f"component, tasks joined through a common consumer or producer together, each component's input-free tasks as its sources")
        else:
            ctx.ok("C16.R3", loc(fi), f"decompose | {label}: partition and sources as expected in {len(perms)} visiting orders")
    ctx.floor("C16.R3.runs", n, 8)


RULES = [r1_projections, r3_flood_fill]
