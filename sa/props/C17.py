"""C17 — every wire and file encoding round-trips over its whole domain (structural clauses)."""
from __future__ import annotations

import ast

from ..interp import Interp
from ..lib import loc, unparse
from ..repo import walk_scope
from ..terms import App, Attr, Obj, Op, Sub, Sym, Term, mentions, vkey

API = "cascade.shm.api"
META = {
    "explanation": "Static sibling-agreement analysis of writers and readers: the symbolic byte layout produced by every shm message's "
                   "ser() (field order, integer widths, byte order, string codec) equals the layout consumed by its deser(), cursor advances "
                   "match the widths read, every decoded field feeds the same-named constructor argument; string encoding is strict ASCII "
                   "on both sides; every concrete message class is registered under a unique one-byte tag with an inverse table; all "
                   "size-carrying integer fields have one width that holds the largest capacity constant; executor/report codecs are "
                   "pickle pairs; gateway JSON messages use one class tag with matching suffix checks; JSON-dumped job models use str keys. "
                   "Not decided: pickle's own fidelity, datagram size limits.",
    "assumptions": ["int.to_bytes/from_bytes, str.encode/str(bytes, codec) and pickle behave as documented"],
}
INL = lambda f: f.module.name == API and f.name not in ("ser_str", "deser_str", "ser", "deser")


def _flatten_add(t):
    if isinstance(t, Op) and t.op == "Add":
        out = []
        for o in t.operands:
            out += _flatten_add(o)
        return out
    return [t]


STRUCT_CODES = {"b": (1, True), "B": (1, False), "h": (2, True), "H": (2, False), "i": (4, True), "I": (4, False), "l": (4, True), "L": (4, False),
                "q": (8, True), "Q": (8, False)}


def _struct_fmt(fmt):
    """'>q' -> (width, byte order, signed) for single-integer formats, else None"""
    if not isinstance(fmt, str) or not fmt:
        return None
    order = {">": "big", "!": "big", "<": "little"}.get(fmt[0])
    code = fmt[1:] if order else fmt
    if order is None or code not in STRUCT_CODES:
        return None
    w, sg = STRUCT_CODES[code]
    return w, order, sg


def _struct_call(t, meth):
    """t = struct.Struct(fmt).<meth>(args...) or struct.<meth>(fmt, args...) -> (fmt, remaining args) or None"""
    if not isinstance(t, App):
        return None
    if isinstance(t.fn, Attr) and t.fn.attr == meth and isinstance(t.fn.base, App) and t.fn.base.fname == "struct.Struct" and t.fn.base.args:
        return t.fn.base.args[0], list(t.args)
    if t.fname == f"struct.{meth}" and t.args:
        return t.args[0], list(t.args[1:])
    return None


def _ser_layout(t):
    """symbolic bytes expression -> [('int', field, width, order) | ('str', field)] or None"""
    out = []
    for piece in _flatten_add(t):
        if piece == b"":
            continue
        if isinstance(piece, App) and piece.fname.endswith(".to_bytes") and isinstance(piece.fn, Attr):
            recv = vkey(piece.fn.base)
            kw = dict(piece.kwargs)
            w = piece.args[0] if piece.args else kw.get("length")
            o = piece.args[1] if len(piece.args) > 1 else kw.get("byteorder", "big")
            if isinstance(w, int):
                out.append(("int", recv.removeprefix("self."), w, o, bool(kw.get("signed", False))))
                continue
            return None
        sc = _struct_call(piece, "pack")
        if sc is not None and len(sc[1]) == 1 and _struct_fmt(sc[0]):
            w, o, sg = _struct_fmt(sc[0])
            out.append(("int", vkey(sc[1][0]).removeprefix("self."), w, o, sg))
            continue
        if isinstance(piece, App) and piece.fname == f"{API}.ser_str" and len(piece.args) == 1:
            out.append(("str", vkey(piece.args[0]).removeprefix("self.")))
            continue
        return None
    return out


def _ds_part(t):
    """Is `t` the k-th component of a deser_str(...) result (by index, or by field name if the function returns a NamedTuple / dataclass)?
    -> (k, the deser_str application) or None"""
    from ..terms import Attr as _Attr
    if isinstance(t, Sub) and t.index in (0, 1) and isinstance(t.base, App) and t.base.fname == f"{API}.deser_str":
        return t.index, t.base
    if isinstance(t, _Attr) and isinstance(t.base, App) and t.base.fname == f"{API}.deser_str":
        from ..repo import get_repo
        repo = get_repo()
        fi = repo.funcs.get(f"{API}.deser_str")
        ann = getattr(fi.node, "returns", None) if fi is not None else None
        if ann is not None:
            for n in ast.walk(ann):
                if isinstance(n, (ast.Name, ast.Attribute)):
                    q = repo.resolve_expr(fi.module, n)
                    if q in repo.classes:
                        names = [st.target.id for st in repo.classes[q].node.body if isinstance(st, ast.AnnAssign) and isinstance(st.target, ast.Name)]
                        if t.attr in names[:2]:
                            return names.index(t.attr), t.base
    return None


def _cursor(cur, root="data"):
    """cursor term -> list of consumed pieces before it, or None"""
    if isinstance(cur, Sym) and cur.name == root:
        return []
    if isinstance(cur, Sub) and isinstance(cur.index, slice) and cur.index.stop is None and cur.index.step is None and isinstance(cur.index.start, int):
        b = _cursor(cur.base, root)
        return None if b is None else b + [("int", cur.index.start)]
    part = _ds_part(cur)
    if part is not None and part[0] == 1:
        b = _cursor(part[1].args[0], root)
        return None if b is None else b + [("str",)]
    return None


def _deser_field(v):
    """decoded field value -> (kind, width/None, order/None, cursor) or None"""
    if isinstance(v, App) and v.fname.endswith(".from_bytes") and v.args and isinstance(v.args[0], Sub):
        s = v.args[0]
        if isinstance(s.index, slice) and s.index.start is None and isinstance(s.index.stop, int):
            order = v.args[1] if len(v.args) > 1 else dict(v.kwargs).get("byteorder", "big")
            return ("int", s.index.stop, order, s.base, bool(dict(v.kwargs).get("signed", False)))
        return None
    if isinstance(v, Sub) and v.index == 0:
        sc = _struct_call(v.base, "unpack")
        if sc is not None and len(sc[1]) == 1 and _struct_fmt(sc[0]) and isinstance(sc[1][0], Sub):
            w, o, sg = _struct_fmt(sc[0])
            sl = sc[1][0]
            if isinstance(sl.index, slice) and sl.index.start is None and sl.index.stop == w:
                return ("int", w, o, sl.base, sg)
            return None
    part = _ds_part(v)
    if part is not None and part[0] == 0:
        return ("str", None, None, part[1].args[0])
    if isinstance(v, App) and len(v.args) == 1 and not v.kwargs and v.fname.startswith(API):  # Enum(int)
        inner = _deser_field(v.args[0])
        if inner and inner[0] == "int":
            return ("enumint", inner[1], inner[2], inner[3], inner[4])
    return None


def _classes(repo):
    out = []
    for q, ci in repo.classes.items():
        if ci.module.name != API:
            continue
        if repo.find_method(q, "ser") and repo.find_method(q, "deser") and ci.name not in ("Comm",):
            out.append(ci)
    return out


def r1_layouts(ctx):
    repo = ctx.repo
    ip = Interp(repo, inline=INL)
    n = 0
    widths = {}
    for ci in _classes(repo):
        ser = repo.find_method(ci.qual, "ser")
        des = repo.find_method(ci.qual, "deser")
        ctx.analysed(ser.qual)
        ctx.analysed(des.qual)
        sp = ip.explore(ser)
        dp = ip.explore(des)
        ctx.evals(len(sp) + len(dp))
        # every text field goes on the wire through a strict ASCII encode — also when the string primitive grew an option and this class passes it
        lax = None
        sfi_ = repo.func(f"{API}.ser_str")
        extra_paths = []
        for p_ in sp:
            for e_ in p_.effects:
                if e_.kind == "call" and e_.data.get("qual") == sfi_.qual and (len(e_.data["args"]) > 1 or e_.data["kwargs"]):
                    bound = dict(zip(sfi_.params[1:], e_.data["args"][1:]))
                    bound.update({k_: v_ for k_, v_ in e_.data["kwargs"].items() if k_ in sfi_.params})
                    extra_paths += Interp(repo).explore(sfi_, args=bound)
        for p_ in list(sp) + extra_paths:
            for e_ in p_.effects:
                if e_.kind == "call" and e_.data.get("method") == "encode":
                    ea_, ek_ = list(e_.data["args"]), dict(e_.data["kwargs"])
                    codec_ = ea_[0] if ea_ else ek_.get("encoding")
                    errs_ = ea_[1] if len(ea_) > 1 else ek_.get("errors", "strict")
                    if codec_ != "ascii" or errs_ != "strict":
                        lax = (codec_, errs_)
        if lax:
            ctx.violation("C17.R1", ser.qual, loc(ser), "strict codec on every encoding path",
                          f"{ci.name}.ser encodes a text field with codec {vkey(lax[0])} / errors={vkey(lax[1])}: a string outside the admitted (ASCII) domain is replaced or "
                          f"escaped instead of being rejected, and the decoder returns a different text than the one encoded")
            continue
        if len(sp) != 1 or len(dp) != 1 or sp[0].exit[0] != "return" or dp[0].exit[0] != "return":
            # an encoder that takes different paths depending on a field's length is fine if it *rejects* on one of them; one that puts a slice of a
            # field on the wire truncates silently — the decoder then returns another message than the one encoded
            from ..terms import Sub as _Sub, subterms as _subterms
            cut = None
            for p_ in sp:
                if p_.exit[0] != "return":
                    continue
                for t in _subterms(p_.exit[1]):
                    if isinstance(t, _Sub) and "slice(" in vkey(t.index) and vkey(t.base).startswith(("self.", "str(self.")):
                        cut = (p_, t)
                        break
                if cut:
                    break
            if cut:
                ctx.violation("C17.R1", ser.qual, loc(ser), "no silent truncation when encoding",
                              f"{ci.name}.ser puts {vkey(cut[1])[:80]} on the wire on the path where {', '.join(f'{d.key[:50]}={d.value}' for d in cut[0].decisions[-2:])}: a value "
                              f"the field admits is cut instead of being rejected, and decoding returns a different message than the one encoded")
                continue
            ctx.undecided("C17.R1", loc(ser), f"{ci.name}: ser/deser are not single-path functions")
            continue
        lay = _ser_layout(sp[0].exit[1])
        rv = dp[0].exit[1]
        if lay is None:
            ctx.undecided("C17.R1", loc(ser), f"{ci.name}.ser: unrecognised byte-layout expression {vkey(sp[0].exit[1])[:160]}")
            continue
        if not (isinstance(rv, App) and rv.fname == "cls"):
            ctx.undecided("C17.R1", loc(des), f"{ci.name}.deser does not return cls(...): {vkey(rv)[:160]}")
            continue
        fields = {}
        bad = False
        names = [n_ for n_ in ci.fields] or []
        for i, a in enumerate(rv.args):
            fields[names[i] if i < len(names) else f"#{i}"] = a
        for k, v in rv.kwargs:
            fields[k] = v
        dl = []
        for k, v in fields.items():
            f = _deser_field(v)
            if f is None:
                ctx.undecided("C17.R1", loc(des), f"{ci.name}.deser: unrecognised decode of field {k}: {vkey(v)[:160]}")
                bad = True
                break
            cur = _cursor(f[3])
            if cur is None:
                ctx.undecided("C17.R1", loc(des), f"{ci.name}.deser: unrecognised cursor for field {k}: {vkey(f[3])[:160]}")
                bad = True
                break
            dl.append((len(cur), k, f, cur))
        if bad:
            continue
        dl.sort(key=lambda x: x[0])
        n += 1
        norm = lambda f: f.removesuffix(".value")
        ser_seq = [(p[0], norm(p[1])) + tuple(p[2:]) for p in lay]
        des_seq = [((("int",) if f[0] in ("int", "enumint") else ("str",)) + (k,) + ((f[1], f[2], f[4]) if f[0] != "str" else ())) for _, k, f, _ in dl]
        if ser_seq != des_seq:
            ctx.violation("C17.R1", des.qual, loc(des), f"{ci.name} layout",
                          f"{ci.name}: ser() writes {ser_seq} but deser() reads {des_seq} — field order / width / byte order / field name differ, "
                          f"so decode(encode(m)) != m for some m")
        else:
            # cursor advance must equal what was read
            okc = True
            for i, (pos, k, f, cur) in enumerate(dl):
                if pos != i:
                    okc = False
                exp = [("int", x[1][1]) if x[1][0] in ("int", "enumint") else ("str",) for x in [(None, y[2]) for y in dl[:i]]]
                if cur != exp:
                    okc = False
            if not okc:
                ctx.violation("C17.R1", des.qual, loc(des), f"{ci.name} cursor",
                              f"{ci.name}.deser advances its cursor by other amounts than it reads: {[(k, c) for _, k, _, c in dl]}")
            else:
                ctx.ok("C17.R1", loc(des), f"{ci.name}: writer layout {ser_seq} == reader layout")
        for p in lay:
            if p[0] == "int":
                widths[f"{ci.name}.{norm(p[1])}"] = p[2]
        if not hasattr(ctx, "_c17_lays"):
            ctx._c17_lays = []
        ctx._c17_lays.append((ci, lay))
        missing = set(ci.fields) - set(fields) if ci.fields else set()
        if missing:
            ctx.violation("C17.R1", des.qual, loc(des), f"{ci.name} fields", f"{ci.name}.deser does not set field(s) {sorted(missing)}")
    ctx.floor("C17.R1.classes", n, 13)
    ctx._c17_widths = widths
    ctx._c17_signed = {f"{ci.name}.{norm(p[1])}": p[4] for ci, lay_ in getattr(ctx, "_c17_lays", []) for p in lay_ if p[0] == "int"}
    # the string primitive: strict codec (structural) + mirror of layout on representative strings (the layout is data independent)
    s = repo.func(f"{API}.ser_str")
    d = repo.func(f"{API}.deser_str")
    ctx.analysed(s.qual)
    ctx.analysed(d.qual)
    encs = [e for p in ip.explore(s) for e in p.effects if e.kind == "call" and e.data.get("method") == "encode"]
    if not encs:
        ctx.undecided("C17.R1", loc(s), "ser_str: no encode call found")
    for enc in encs[:1]:
        ea, ek = list(enc.data["args"]), dict(enc.data["kwargs"])
        codec = ea[0] if ea else ek.get("encoding")
        errs = ea[1] if len(ea) > 1 else ek.get("errors", "strict")
        if codec != "ascii" or errs != "strict" or len(ea) > 2 or set(ek) - {"encoding", "errors"}:
            ctx.violation("C17.R1", s.qual, loc(s), "ser_str strict codec",
                          f"ser_str encodes with {vkey(enc.data['args'])} {enc.data['kwargs']}: a string outside the admitted (ASCII) domain must be rejected "
                          f"when encoding, never silently altered; only a plain strict 'ascii' encode does that")
        else:
            ctx.ok("C17.R1", loc(s), "ser_str: strict ascii encode")
    for text in ("", "k", "key.with.dots-and_more" * 12):
        sp = ip.explore(s, args={"s": text})
        wire = sp[0].exit[1] if len(sp) == 1 and sp[0].exit[0] == "return" else None
        if not isinstance(wire, bytes):
            ctx.undecided("C17.R1", loc(s), f"ser_str({text[:10]!r}…) not evaluable: {vkey(wire)[:80]}")
            continue
        dp = ip.explore(d, args={"b": wire + b"REST"})
        got = dp[0].exit[1] if len(dp) == 1 and dp[0].exit[0] == "return" else None
        if got != (text, b"REST"):
            ctx.violation("C17.R1", d.qual, loc(d), "deser_str mirrors ser_str",
                          f"deser_str(ser_str(s) + rest) for a {len(text)}-character ASCII string gives {vkey(got)[:100]}; expected (s, rest)")
        else:
            ctx.ok("C17.R1", loc(d), f"deser_str(ser_str(s) + rest) == (s, rest) for len(s)={len(text)}")


def r2_registry(ctx):
    from ..interp import module_globals
    from ..terms import ClassRef

    repo = ctx.repo
    mg = module_globals(repo, API)
    b2c, c2b = mg.get("b2c"), mg.get("c2b")
    site = "src/cascade/shm/api.py"
    if not isinstance(b2c, dict) or not isinstance(c2b, dict) or not b2c:
        ctx.undecided("C17.R2", site, f"cannot evaluate the b2c / c2b tables: {vkey(b2c)[:80]} / {vkey(c2b)[:80]}")
        return
    tags = list(b2c.keys())
    regs = [v.qual if isinstance(v, ClassRef) else vkey(v) for v in b2c.values()]
    if any(not isinstance(t, bytes) or len(t) != 1 for t in tags):
        ctx.violation("C17.R2", API, site, "tags", f"message tags must be single bytes: {tags}")
    else:
        ctx.ok("C17.R2", site, f"{len(tags)} distinct one-byte tags")
    # a class that only serves as base of registered message classes (EmptyCommand today) is not itself sent: it needs no tag
    bases_of_registered = {b for q in regs if q in repo.classes for b in repo.class_mro(q)[1:]}
    concrete = [ci for ci in _classes(repo) if ci.qual not in bases_of_registered or ci.qual in regs]
    for ci in concrete:
        if ci.qual not in regs:
            ctx.violation("C17.R2", API, site, f"registration of {ci.name}",
                          f"message class {ci.name} has ser/deser but no tag in b2c: api.ser({ci.name}(...)) raises KeyError")
        else:
            ctx.ok("C17.R2", site, f"{ci.name} registered")
    if len(set(regs)) != len(regs):
        ctx.violation("C17.R2", API, site, "duplicate class", "a class is registered under two tags: c2b keeps only one")
    inv = {(k.qual if isinstance(k, ClassRef) else vkey(k)): v for k, v in c2b.items()}
    if inv != {r: t for t, r in zip(tags, regs)}:
        ctx.violation("C17.R2", API, site, "c2b inverse of b2c", f"c2b is not the inverse of b2c: {vkey(inv)[:160]}")
    else:
        ctx.ok("C17.R2", site, "c2b is the inverse of b2c")
    ctx.floor("C17.R2.classes", len(concrete), 13)
    # top-level ser/deser use the tables with a 1-byte tag
    env = {f"{API}.b2c": b2c, f"{API}.c2b": c2b}
    ip = Interp(repo, inline=INL)
    sv = [p.exit[1] for p in ip.explore(repo.func(f"{API}.ser"), env=env, args={"comm": Sym("comm")}) if p.exit[0] == "return"]
    dv = [p.exit[1] for p in ip.explore(repo.func(f"{API}.deser"), env=env) if p.exit[0] == "return"]
    svk = vkey(sv[0]).replace("cascade.shm.api.", "") if sv else ""
    dvk = vkey(dv[0]) if dv else ""
    if not sv or "type(comm)" not in svk or not ("comm.ser()" in svk or "Comm.ser(comm)" in svk):
        ctx.undecided("C17.R2", site, f"api.ser: unrecognised {svk[:120]}")
    elif "slice(None, 1, None)" not in dvk or "slice(1, None, None)" not in dvk:
        ctx.violation("C17.R2", f"{API}.deser", loc(repo.func(f"{API}.deser")), "tag width", f"api.deser does not split a 1-byte tag from the body: {dvk[:160]}")
    else:
        ctx.ok("C17.R2", loc(repo.func(f"{API}.deser")), "api.ser/deser: 1-byte tag + body")


SIZE_FIELDS = ["AllocateRequest.l", "GetResponse.l", "FreeSpaceResponse.free_space"]


def r3_widths(ctx):
    """C17.R3: every integer field that carries a dataset size or a free-space figure has the same width, wide enough for the
    store's own largest capacity constant (128 GiB)."""
    repo = ctx.repo
    widths = getattr(ctx, "_c17_widths", None)
    if widths is None:
        ctx.undecided("C17.R3", "-", "layouts unavailable")
        return
    need_bits = (128 * 1024 ** 3).bit_length()
    cap = repo.func("cascade.shm.dataset.get_capacity")
    consts = [n for n in walk_scope(cap.node) if isinstance(n, ast.BinOp)]
    for c in consts:
        try:
            v = eval(compile(ast.Expression(c), "<c>", "eval"), {"__builtins__": {}})
            if isinstance(v, int):
                need_bits = max(need_bits, v.bit_length())
        except Exception:
            pass
    need = (need_bits + 7) // 8
    got = {f: widths.get(f) for f in SIZE_FIELDS}
    if any(v is None for v in got.values()):
        ctx.undecided("C17.R3", "-", f"size-carrying field not found in layouts: {got}")
        return
    widest = max(got.values())
    for f, w in got.items():
        if w < need or w != widest:
            ctx.violation("C17.R3", f"{API}.{f.split('.')[0]}", "src/cascade/shm/api.py", f"width of {f}",
                          f"{f} is encoded in {w} byte(s) but sizes flow through fields of {widest} bytes and the store's capacity constant needs "
                          f"{need} bytes: values >= 2**{8 * w} in the admitted domain cannot be encoded (OverflowError) — widths {got}")
        else:
            ctx.ok("C17.R3", "src/cascade/shm/api.py", f"{f}: {w} bytes (needed {need}, widest {widest})")


def r4_pickle_pairs(ctx):
    repo = ctx.repo
    ip = Interp(repo)
    for wq, rq, lib in (("cascade.executor.serde.ser_message", "cascade.executor.serde.des_message", "pickle"),
                        ("cascade.controller.report.serialize", "cascade.controller.report.deserialize", "pickle")):
        w, r = repo.func(wq), repo.func(rq)
        ctx.analysed(wq)
        ctx.analysed(rq)
        wv = [p.exit[1] for p in ip.explore(w) if p.exit[0] == "return"]
        rp = ip.explore(r)
        okw = len(wv) == 1 and isinstance(wv[0], App) and wv[0].fname == f"{lib}.dumps" and len(wv[0].args) == 1 and isinstance(wv[0].args[0], Sym)
        loads = [e for p in rp for e in p.effects if e.kind == "call" and e.data["name"] == f"{lib}.loads"]
        okr = bool(loads) and all(len(e.data["args"]) == 1 and isinstance(e.data["args"][0], Sym) for e in loads)
        rets = [p.exit[1] for p in rp if p.exit[0] == "return"]
        okr = okr and rets and all(isinstance(x, App) and x.fname == f"{lib}.loads" for x in rets)
        if not (okw and okr):
            ctx.violation("C17.R4", wq, loc(w), "codec pair", f"{wq} / {rq} are not a plain {lib}.dumps / {lib}.loads pair of their argument")
        else:
            ctx.ok("C17.R4", loc(w), f"{wq.rsplit('.', 1)[-1]} / {rq.rsplit('.', 1)[-1]}: {lib}.dumps / {lib}.loads of the argument")


def r4b_report_kind(ctx):
    """C17.R4 (reader's kind check): report.deserialize hands back exactly what was pickled when it is a ControllerReport, and refuses
    anything else."""
    repo = ctx.repo
    fi = repo.func("cascade.controller.report.deserialize")
    rep = Obj("cascade.controller.report.ControllerReport", {"job_id": "j", "current_status": "1", "timestamp": 1, "results": []}, name="REPORT")
    other = Obj("cascade.low.core.DatasetId", {"task": "t", "output": "0"}, name="OTHER")
    for what, val, want in (("a pickled ControllerReport", rep, "return"), ("a pickled object of another class", other, "raise")):
        ps = Interp(repo, call_models={"pickle.loads": lambda run, a, k, n, f, _v=val: _v}).explore(fi, args={"raw": b"x"})
        ctx.evals(len(ps))
        good = bool(ps) and all(p.exit[0] == want and (want == "raise" or getattr(p.exit[1], "name", None) == "REPORT") for p in ps)
        if not good:
            ctx.violation("C17.R4", fi.qual, loc(fi), f"deserialize on {what}", f"deserialize given {what} ends {[(p.exit[0], vkey(p.exit[1])[:50]) for p in ps]}; expected "
                          f"{'the report itself' if want == 'return' else 'a TypeError'}")
        else:
            ctx.ok("C17.R4", loc(fi), f"deserialize | {what} -> {'returned as is' if want == 'return' else 'refused'}")


def r5_gateway(ctx):
    """C17.R5: the gateway's JSON framing round-trips: what request_response puts on the wire is parsed by parse_request into the same
    request; what serialize_response puts on the wire is decoded by request_response into the same response; kinds and stems are
    checked on both sides.  Decided on a symbolic wire: orjson.dumps/loads are modelled as an exact pair."""
    import copy as _copy
    repo = ctx.repo
    C = "cascade.gateway.client"
    A = "cascade.gateway.api"
    for fn in ("request_response", "parse_request", "serialize_response"):
        ctx.analysed(f"{C}.{fn}")
    L = "src/cascade/gateway/client.py"

    def fields_of(run, a, k, n, f):
        recv = run.cur_call.get("recv_value")
        if not isinstance(recv, Obj):
            return Sym("dump")
        d = dict(recv.fields)
        kw = run.cur_call.get("kwargs") or {}
        if kw.get("exclude_unset") is True:
            for f_ in recv.kwargs.get("_filled_in_place", ()):  # a field left at its default by the constructor and filled afterwards is not "set" for pydantic
                d.pop(f_, None)
        if kw.get("exclude_none") is True:
            d = {k_: v_ for k_, v_ in d.items() if v_ is not None}
        for opt in ("exclude", "include"):
            if isinstance(kw.get(opt), (set, list, tuple, dict)):
                d = {k_: v_ for k_, v_ in d.items() if (k_ in kw[opt]) == (opt == "include")}
        return d

    def dumps(run, a, k, n, f):
        return ("json-wire", _copy.deepcopy(a[0]) if a and isinstance(a[0], dict) else a[0] if a else None)

    def loads(run, a, k, n, f):
        w = a[0] if a else None
        if isinstance(w, tuple) and len(w) == 2 and w[0] == "json-wire" and isinstance(w[1], dict):
            return _copy.deepcopy(w[1])
        return Sym("loaded")

    def run_fn(fn, args, recv=None):
        models = {("method", "model_dump"): fields_of, ("method", "dict"): fields_of, "orjson.dumps": dumps, "orjson.loads": loads}
        if recv is not None:
            models[("method", "recv")] = lambda run, a, k, n, f: recv
            models[("method", "poll")] = lambda run, a, k, n, f: 1
        ip = Interp(repo, call_models=models, inline=lambda f: f.qual.startswith(C + "."))
        return ip.explore(repo.func(f"{C}.{fn}"), args=args)

    def wire_of(paths):
        ws = []
        for p in paths:
            for e in p.effects:
                if e.kind == "call" and e.data.get("name") == "orjson.dumps":
                    ws.append(e.data.get("result"))
        return ws

    req = Obj(f"{A}.JobProgressRequest", {"job_ids": ["j1"]}, kwargs={"_filled_in_place": ("job_ids",)}, name="req")
    resp = Obj(f"{A}.JobProgressResponse", {"progresses": {"j1": "50.00"}, "error": None}, name="resp")
    other = Obj(f"{A}.ResultRetrievalResponse", {"result": None, "error": "e"}, name="other-resp")

    def same(v, o):
        return isinstance(v, Obj) and v.cls == o.cls and {k: vkey(x) for k, x in v.fields.items()} == {k: vkey(x) for k, x in o.fields.items()}

    # response -> wire
    ps = run_fn("serialize_response", {"m": resp})
    ctx.evals(len(ps))
    wr = [p.exit[1] for p in ps if p.exit[0] == "return"]
    if len(ps) != 1 or len(wr) != 1 or not (isinstance(wr[0], tuple) and wr[0][:1] == ("json-wire",)):
        ctx.undecided("C17.R5", L, f"serialize_response on a model response: {[(p.exit[0], vkey(p.exit[1])[:60]) for p in ps]}")
        return
    w_resp = wr[0]
    ps = run_fn("serialize_response", {"m": other})
    w_other = [p.exit[1] for p in ps if p.exit[0] == "return"][0] if any(p.exit[0] == "return" for p in ps) else None
    # request -> wire -> request, and the response back
    ps = run_fn("request_response", {"m": req, "url": "u"}, recv=w_resp)
    ctx.evals(len(ps))
    w_req = wire_of(ps)
    rets = [p for p in ps if p.exit[0] == "return"]
    if not ps or len(rets) != len(ps) or not all(same(r_.exit[1], resp) for r_ in rets):
        ctx.violation("C17.R5", f"{C}.request_response", L, "response decoded as sent",
                      f"gateway JSON framing disagrees — the response written by serialize_response ({vkey(w_resp)[:120]}) is decoded by request_response as "
                      f"{[(p.exit[0], vkey(p.exit[1])[:80], vkey(getattr(p.exit[1], 'fields', ''))[:80]) for p in ps]}; expected the same JobProgressResponse")
    else:
        ctx.ok("C17.R5", L, "response: serialize_response -> wire -> request_response returns the same message (class tag key and stem agree)")
    w_req = list({vkey(w_): w_ for w_ in w_req}.values())
    if len(w_req) != 1:
        ctx.undecided("C17.R5", L, f"request_response puts {len(w_req)} messages on the wire")
        return
    ps = run_fn("parse_request", {"rr": w_req[0]})
    ctx.evals(len(ps))
    rets = [p for p in ps if p.exit[0] == "return"]
    if not ps or len(rets) != len(ps) or not all(same(r_.exit[1], req) for r_ in rets):
        ctx.violation("C17.R5", f"{C}.parse_request", L, "request decoded as sent",
                      f"gateway JSON framing disagrees — the request written by request_response ({vkey(w_req[0])[:120]}) is parsed by parse_request as "
                      f"{[(p.exit[0], vkey(p.exit[1])[:80], vkey(getattr(p.exit[1], 'fields', ''))[:80]) for p in ps]}; expected the same JobProgressRequest")
    else:
        ctx.ok("C17.R5", L, "request: request_response -> wire -> parse_request returns the same message")
    # kinds are checked on both sides
    neg = [("parse_request refuses a response", "parse_request", {"rr": w_resp}, None),
           ("serialize_response refuses a request", "serialize_response", {"m": req}, None),
           ("request_response refuses to send a response", "request_response", {"m": resp, "url": "u"}, w_resp),
           ("request_response refuses a request as the answer", "request_response", {"m": req, "url": "u"}, w_req[0])]
    if w_other is not None:
        neg.append(("request_response refuses an answer of another stem", "request_response", {"m": req, "url": "u"}, w_other))
    for what, fn, args, rv in neg:
        ps = run_fn(fn, args, recv=rv)
        ctx.evals(len(ps))
        if any(p.exit[0] != "raise" for p in ps):
            ctx.violation("C17.R5", f"{C}.{fn}", L, what, f"gateway JSON framing disagrees — {what}: it ends {[(p.exit[0], vkey(p.exit[1])[:60]) for p in ps]} instead of an error")
        else:
            ctx.ok("C17.R5", L, what)


def r6_json_keys(ctx):
    """C17.R6: every dict in the type closure of JobInstance (dumped with orjson / loaded with JobInstance(**json)) has str keys."""
    repo = ctx.repo
    seen, todo, n = set(), ["cascade.low.core.JobInstance"], 0
    while todo:
        q = todo.pop()
        if q in seen or q not in repo.classes:
            continue
        seen.add(q)
        ci = repo.classes[q]
        for fname, ann in ci.fields.items():
            if ann is None:
                continue
            for node in ast.walk(ann):
                if isinstance(node, ast.Subscript) and isinstance(node.value, ast.Name) and node.value.id in ("dict", "Dict"):
                    elts = node.slice.elts if isinstance(node.slice, ast.Tuple) else [node.slice]
                    k = elts[0]
                    kq = repo.resolve_expr(ci.module, k) if isinstance(k, (ast.Name, ast.Attribute)) else None
                    kind = None
                    if isinstance(k, ast.Name) and k.id == "str":
                        kind = "str"
                    elif kq and kq in repo.consts:
                        kind = unparse(repo.consts[kq][1])
                    elif kq and kq in repo.classes:
                        kind = f"class {kq}"
                    else:
                        kind = unparse(k)
                    n += 1
                    if kind != "str":
                        ctx.violation("C17.R6", q, f"src/cascade/low/core.py:{getattr(ann, 'lineno', 0)}", f"{ci.name}.{fname} key type",
                                      f"{ci.name}.{fname} is a dict keyed by {kind}: JSON object keys are strings, so the job does not survive "
                                      f"orjson.dumps(job.dict()) / JobInstance(**orjson.loads(..))")
                    else:
                        ctx.ok("C17.R6", f"src/cascade/low/core.py:{getattr(ann, 'lineno', 0)}", f"{ci.name}.{fname}: str keys")
                if isinstance(node, (ast.Name, ast.Attribute)):
                    rq = repo.resolve_expr(ci.module, node)
                    if rq in repo.classes:
                        todo.append(rq)
    ctx.floor("C17.R6.dicts", n, 6)
    # the writers of the job-instance file: a `default=` fallback would silently write values JSON cannot represent
    import ast as _ast
    nw = 0
    for fi in repo.all_funcs():
        if not fi.module.name.startswith(("cascade.gateway", "cascade.benchmarks")):
            continue
        for c in walk_scope(fi.node):
            if isinstance(c, _ast.Call) and unparse(c.func) == "orjson.dumps" and c.args and "dict()" in unparse(c.args[0]).replace("model_dump()", "dict()"):
                nw += 1
                extra = [k.arg for k in c.keywords if k.arg in ("default", "option")]
                if extra:
                    ctx.violation("C17.R6", fi.qual, loc(fi, c), "job instance written without a lossy fallback",
                                  f"{unparse(c)[:90]}: with `{extra[0]}=` a value JSON cannot represent is written in another form instead of being rejected — the job read back differs silently")
                else:
                    ctx.ok("C17.R6", loc(fi, c), "job instance JSON writer: values JSON cannot represent are rejected")
    ctx.floor("C17.R6.writers", nw, 1)
    # no writer of a job instance goes through pydantic's own JSON encoder: it coerces what JSON cannot represent (bytes -> str, set -> list,
    # int / tuple keys -> str) instead of rejecting it, so the instance read back differs silently from the one submitted
    for fi in repo.all_funcs():
        if not fi.module.name.startswith(("cascade.gateway", "cascade.benchmarks")):
            continue
        for c in walk_scope(fi.node):
            if isinstance(c, _ast.Call) and isinstance(c.func, _ast.Attribute) and c.func.attr in ("model_dump_json", "json") and not c.args \
                    and ("job_instance" in unparse(c.func.value) or "instance" in unparse(c.func.value).lower()):
                ctx.violation("C17.R6", fi.qual, loc(fi, c), "job instance written by the strict encoder",
                              f"{unparse(c)[:90]}: pydantic's JSON dump silently converts values JSON cannot represent (bytes, sets, non-string keys); the sibling writer "
                              f"uses orjson.dumps(<instance>.dict()), which rejects them — a job submitted through this path is read back altered")


RULES = [r1_layouts, r2_registry, r3_widths, r4_pickle_pairs, r4b_report_kind, r5_gateway, r6_json_keys]

from .common import lazy  # noqa: E402
RULES.append(lazy("C06", "r6_frames", "the frames send_data / callback put on the wire are the ones the listener decodes, for every payload incl. the empty one"))


B64_PAIRS = {"b64encode": "b64decode", "urlsafe_b64encode": "urlsafe_b64decode", "standard_b64encode": "standard_b64decode", "b32encode": "b32decode",
             "b16encode": "b16decode", "b85encode": "b85decode", "a85encode": "a85decode", "encodebytes": "decodebytes", "b32hexencode": "b32hexdecode"}


def r7_result_codec(ctx):
    """C17.R7 / C18: a job result travels gateway -> frontend as text: the function that encodes it in handle_fe and the function that
    decodes it in api.decoded_result are an inverse pair of the same alphabet (b64decode silently skips '-' and '_', so a url-safe
    encoder paired with the standard decoder corrupts every result whose encoding contains those characters)."""
    repo = ctx.repo
    S = "cascade.gateway.server"
    A = "cascade.gateway.api"
    fe, dec = repo.func(f"{S}.handle_fe"), repo.func(f"{A}.decoded_result")
    ctx.analysed(fe.qual)
    ctx.analysed(dec.qual)
    req = Obj(f"{A}.ResultRetrievalRequest", {"job_id": "j1", "dataset_id": Obj("cascade.low.core.DatasetId", {"task": "t", "output": "0"}, frozen=True)}, name="req")
    RAW = Sym("RESULT_BYTES")
    ip = Interp(repo, call_models={"cascade.gateway.client.parse_request": lambda run, a, k, n, f: req, ("method", "get_result"): lambda run, a, k, n, f: RAW},
                inline=lambda f: f.qual.startswith(S + ".") and f.qual != fe.qual)
    enc = []
    for p in ip.explore(fe):
        for e in p.effects:
            if e.kind == "call" and (e.data.get("name") or "").startswith("base64.") and any(mentions(a, "RESULT_BYTES") for a in e.data["args"]):
                enc.append((e.data["name"].split(".", 1)[1], e))
    ip = Interp(repo)
    decs = []
    for p in ip.explore(dec, args={"result": Obj(f"{A}.ResultRetrievalResponse", {"result": Sym("RESULT_TEXT"), "error": None}, name="resp")}):
        for e in p.effects:
            if e.kind == "call" and (e.data.get("name") or "").startswith("base64.") and any(mentions(a, "RESULT_TEXT") for a in e.data["args"]):
                decs.append((e.data["name"].split(".", 1)[1], e))
    en, dn = sorted({n for n, _ in enc}), sorted({n for n, _ in decs})
    if len(en) != 1 or len(dn) != 1:
        ctx.undecided("C17.R7", loc(fe), f"cannot identify one text encoder / decoder of the result: encoders {en}, decoders {dn}")
        return
    whole = [e for _, e in enc if e.data["args"] and vkey(e.data["args"][0]) == "RESULT_BYTES"]
    if not whole:
        ctx.violation("C17.R7", fe.qual, loc(fe, enc[0][1].node), "the result is encoded in one piece",
                      f"base64.{en[0]} is applied to {vkey(enc[0][1].data['args'][0])[:80]}, a part of the result, and the pieces are put together afterwards: unless every piece "
                      f"is a multiple of 3 bytes long each carries its own '=' padding, and the decoder stops at the first one — long results come back truncated")
        return
    if B64_PAIRS.get(en[0]) != dn[0]:
        ctx.violation("C17.R7", fe.qual, loc(fe, enc[0][1].node), "result encoder and decoder are inverse",
                      f"the gateway encodes a result with base64.{en[0]} and the frontend decodes it with base64.{dn[0]}: not an inverse pair "
                      f"(expected base64.{B64_PAIRS.get(en[0], '?')}) — results are returned corrupted or truncated without any error")
    else:
        ctx.ok("C17.R7", loc(fe, enc[0][1].node), f"result codec: base64.{en[0]} / base64.{dn[0]}")


RULES.append(r7_result_codec)


def r8_concrete_roundtrip(ctx):
    """C17.R8: deser(ser(m)) == m on representative messages of every shm message class: strings '' / '0a1b2c3d' (a reader id with a
    leading zero) / a dotted key, integers 0 / 5 / 2**40+5, every enum member — evaluated by the interpreter on the source of ser and
    deser (int.to_bytes / from_bytes / encode / str(bytes, codec) computed exactly)."""
    repo = ctx.repo
    from ..terms import ClassRef, EnumVal
    ip = Interp(repo, inline=lambda f: f.module.name == API)
    n = 0
    for ci in _classes(repo):
        ser = repo.find_method(ci.qual, "ser")
        des = repo.find_method(ci.qual, "deser")
        anns = {k: (ast.unparse(v) if v is not None else "") for k, v in ci.fields.items()}
        variants = []
        for strs, ints in ((["", "", ""], [0, 0]), (["0a1b2c3d", "key.with.dots", "x"], [5, 2 ** 40 + 5]), (["00000000", "a", "0"], [2 ** 40 + 5, 1])):
            si, ii = iter(strs * 3), iter(ints * 3)
            inst = {}
            okv = True
            for k, a in anns.items():
                if a == "str":
                    inst[k] = next(si)
                elif a == "int":
                    inst[k] = next(ii)
                else:
                    q = repo.resolve_expr(ci.module, ci.fields[k]) if ci.fields[k] is not None else None
                    if q and q in repo.classes and repo.is_enum(q):
                        mem = repo.enum_members(q)
                        inst[k] = EnumVal(q, sorted(mem)[len(variants) % len(mem)])
                    else:
                        okv = False
            if okv:
                variants.append(inst)
        for inst in variants:
            me = Obj(ci.qual, dict(inst), name="MSG")
            sp = ip.explore(ser, args={"self": me})
            wire = sp[0].exit[1] if len(sp) == 1 and sp[0].exit[0] == "return" else None
            if not isinstance(wire, (bytes, bytearray)):
                continue  # not evaluable on concrete values (enum .value etc.): the symbolic layout rule decides this class
            dp = ip.explore(des, args={"cls": ClassRef(ci.qual), "data": bytes(wire)})
            ctx.evals(2)
            got = dp[0].exit[1] if len(dp) == 1 and dp[0].exit[0] == "return" else None
            gf = got.fields if isinstance(got, Obj) else None
            n += 1
            if gf is None or {k: vkey(v) for k, v in gf.items()} != {k: vkey(v) for k, v in inst.items()}:
                ctx.violation("C17.R8", des.qual, loc(des), f"{ci.name} round trip", f"{ci.name}{inst} -> ser -> deser gives {vkey(gf) if gf is not None else [(p.exit[0], vkey(p.exit[1])[:60]) for p in dp]}: "
                              f"decode(encode(m)) != m")
            else:
                ctx.ok("C17.R8", loc(des), f"{ci.name}: deser(ser(m)) == m for {vkey(inst)[:70]}")
    ctx.floor("C17.R8.roundtrips", n, 12)


RULES.append(r8_concrete_roundtrip)
RULES.append(lazy("C06", "r4_r5_listener", "the reader side of the frame encoding: every frame sequence the senders produce (also an empty value frame) decodes to the message sent"))
