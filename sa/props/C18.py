"""C18 — the gateway attributes progress/results to the right job and keeps the newest (structural clauses)."""
from __future__ import annotations

import ast

from ..interp import Interp
from ..lib import is_call, loc
from ..repo import walk_scope
from ..terms import App, Atom, Obj, Sym, vkey
from .common import ds, scan

R = "cascade.gateway.router"
S = "cascade.gateway.server"
META = {
    "explanation": "Static structural analysis of the gateway router/server on model jobs: truth table of the progress update (kept only "
                   "for a real progress value with a newer timestamp; the kept timestamp is stored; result-only and shutdown reports change "
                   "neither), results stored and read per (job, dataset) with no sharing between jobs, job table never shrinks and ids come "
                   "from next_uuid over the existing keys, each job gets a fresh result container, every request class has a branch whose "
                   "failure becomes the same-stem response with an error and the reply is always sent. "
                   "Not decided: malformed requests, reports for unknown jobs.",
    "assumptions": ["zmq sockets/poller are opaque"],
}


def _router():
    j1 = Obj(f"{R}.Job", {"socket": Atom("sock1"), "progress": "10.00", "last_seen": 100, "results": {}}, name="job1")
    j2 = Obj(f"{R}.Job", {"socket": Atom("sock2"), "progress": "20.00", "last_seen": 100, "results": {}}, name="job2")
    return Obj(f"{R}.JobRouter", {"jobs": {"j1": j1, "j2": j2}, "poller": Atom("poller")}, name="router"), j1, j2


def r1_progress(ctx):
    repo = ctx.repo
    fi = repo.func(f"{R}.JobRouter.maybe_update")
    ctx.analysed(fi.qual)
    table = []
    for prog in (None, "Shutdown", "50.00"):
        for ts in (50, 100, 200):
            router, j1, j2 = _router()
            paths = Interp(repo).explore(fi, args={"self": router, "job_id": "j1", "progress": prog, "timestamp": ts})
            ctx.evals(len(paths))
            atoms = {"progress": prog, "timestamp_vs_last_seen(100)": ts}
            for p in paths:
                if p.exit[0] != "return":
                    ctx.violation("C18.R1", fi.qual, loc(fi), "maybe_update completes", f"{atoms}: raises {vkey(p.exit[1])[:80]}", row=atoms)
                    continue
                # objects were deep-copied for the run: find them through the effects' receiver
                jobs_after = None
                for e in p.effects:
                    pass
                after = _find_job(p, "job1")
                other = _find_job(p, "job2")
                pr, ls = (after.fields["progress"], after.fields["last_seen"]) if after is not None else ("10.00", 100)
                table.append({**atoms, "progress_after": pr, "last_seen_after": ls})
                newer = prog == "50.00" and ts > 100
                dontcare = prog == "50.00" and ts == 100
                if other is not None and (other.fields["progress"], other.fields["last_seen"]) != ("20.00", 100):
                    ctx.violation("C18.R1", fi.qual, loc(fi), "other job untouched", f"{atoms}: a report for j1 changed job j2", row=atoms)
                elif newer and (pr, ls) != ("50.00", ts):
                    ctx.violation("C18.R1", fi.qual, loc(fi), "newer progress kept with its timestamp",
                                  f"{atoms}: after a newer progress report the job shows progress={pr!r} last_seen={ls} (expected '50.00', {ts}); "
                                  f"if the timestamp is not recorded a late older report overwrites a newer one", row=atoms)
                elif not newer and not dontcare and (pr, ls) != ("10.00", 100):
                    ctx.violation("C18.R1", fi.qual, loc(fi), "stale / non-progress report ignored",
                                  f"{atoms}: the job shows progress={pr!r} last_seen={ls} afterwards; an older, result-only or shutdown report must "
                                  f"change neither the shown progress nor the recorded timestamp (else newer progress reports are dropped later)", row=atoms)
                elif dontcare and (pr, ls) not in (("10.00", 100), ("50.00", 100)):
                    ctx.violation("C18.R1", fi.qual, loc(fi), "equal timestamp", f"{atoms}: inconsistent update progress={pr!r} last_seen={ls}", row=atoms)
                else:
                    ctx.ok("C18.R1", loc(fi), f"progress update | {atoms} -> progress={pr!r} last_seen={ls}")
    ctx.table("C18.R1", table)
    # who else writes Job.progress / last_seen
    n = 0
    for attr in ("progress", "last_seen"):
        for f2, node, kind, det in scan().attr_sites(attr, ("cascade.gateway",)):
            if kind in ("store", "aug"):
                n += 1
                from .common import helper_of as _helper_of
                if f2.qual != fi.qual and not _helper_of(repo, f2.qual, {fi.qual}):
                    ctx.violation("C18.R1", f2.qual, loc(f2, node), f"writer of Job.{attr}", f"{f2.qual} writes Job.{attr} outside maybe_update's timestamp guard")
    ctx.floor("C18.R1.writers", n, 1)


def _find_job(p, name):
    for e in p.effects:
        for v in list(e.data.values()):
            if isinstance(v, Obj) and v.name == name:
                return v
            if isinstance(v, Obj) and v.name == "router":
                for j in v.fields["jobs"].values():
                    if j.name == name:
                        return j
    return None


def r2_results(ctx):
    repo = ctx.repo
    fi = repo.func(f"{S}.handle_controller")
    ctx.analysed(fi.qual)
    D, D2 = ds("D", "T"), ds("D2", "T2")
    router, j1, j2 = _router()
    rep = Obj("cascade.controller.report.ControllerReport", {"job_id": "j1", "current_status": "50.00", "timestamp": 200,
                                                              "results": [(D, b"x"), (D2, b"y")]})
    seen = {}

    def des(run, args, kwargs, node, fr):
        return seen.setdefault("rep", rep)
    ip = Interp(repo, call_models={"cascade.controller.report.deserialize": des}, inline=lambda f: f.qual.startswith(f"{R}.JobRouter."))
    paths = ip.explore(fi, args={"jobs": router})
    ctx.evals(len(paths))
    for p in paths:
        a1, a2 = _find_job(p, "job1"), _find_job(p, "job2")
        if p.exit[0] != "return" or a1 is None:
            ctx.violation("C18.R2", fi.qual, loc(fi), "report handled", f"a well-formed controller report for a known job makes handle_controller end with {p.exit[0]} {vkey(p.exit[1])[:80] if p.exit[0] == 'raise' else ''}")
            continue
        if a1.fields["results"] != {D: b"x", D2: b"y"} or (a2 is not None and a2.fields["results"]):
            ctx.violation("C18.R2", fi.qual, loc(fi), "result attribution",
                          f"report of job j1 with results D->x, D2->y: j1.results={vkey(a1.fields['results'])} j2.results={vkey(a2.fields['results']) if a2 else '?'}")
        elif a1.fields["progress"] != "50.00":
            ctx.violation("C18.R2", fi.qual, loc(fi), "progress forwarded", f"the report's progress is not applied to its job: {a1.fields['progress']!r}")
        else:
            ctx.ok("C18.R2", loc(fi), "each (dataset, bytes) of the report stored under the report's job only; progress applied to that job")
    g = repo.func(f"{R}.JobRouter.get_result")
    ctx.analysed(g.qual)
    router, j1, j2 = _router()
    j1.fields["results"][D] = b"mine"
    j2.fields["results"][D] = b"other"
    for jid, want in (("j1", b"mine"), ("j2", b"other")):
        ps = Interp(repo).explore(g, args={"self": router, "job_id": jid, "dataset_id": D})
        if [p.exit for p in ps] != [("return", want)]:
            ctx.violation("C18.R2", g.qual, loc(g), "result lookup", f"get_result({jid}, D) returns {[vkey(p.exit[1]) for p in ps]}, expected {want!r}")
        else:
            ctx.ok("C18.R2", loc(g), f"get_result({jid}, D) returns that job's bytes")
    ps = Interp(repo).explore(g, args={"self": router, "job_id": "j1", "dataset_id": D2})
    if any(p.exit[0] != "raise" for p in ps):
        ctx.violation("C18.R2", g.qual, loc(g), "unknown dataset", "get_result for a dataset the job never uploaded returns a value instead of failing")
    else:
        ctx.ok("C18.R2", loc(g), "unknown dataset -> error")


def r3_job_table(ctx):
    repo = ctx.repo
    n = 0
    for fi, node, kind, det in scan().attr_sites("jobs", ("cascade.gateway",)):
        n += 1
        if kind in ("del", "subdel") or (kind == "mutcall" and det in ("pop", "clear", "popitem")):
            ctx.violation("C18.R3", fi.qual, loc(fi, node), "job table shrinks",
                          f"{fi.qual} removes entries from JobRouter.jobs: a job id could be handed out again / results of finished jobs vanish")
        elif kind == "store" and fi.name != "__init__":
            ctx.violation("C18.R3", fi.qual, loc(fi, node), "job table replaced", f"{fi.qual} replaces JobRouter.jobs")
        else:
            ctx.ok("C18.R3", loc(fi, node), f"jobs writer ({kind}) keeps existing entries")
    ctx.floor("C18.R3.sites", n, 2)
    fi = repo.func(f"{R}.JobRouter.spawn_job")
    ctx.analysed(fi.qual)

    def uuid4(run, a, k, n, f):
        run.model_u = getattr(run, "model_u", 0) + 1
        return "taken" if run.model_u == 1 else f"fresh{run.model_u}"
    router, j1, j2 = _router()
    router.fields["jobs"] = {"taken": j1}
    ip = Interp(repo, call_models={"uuid.uuid4": uuid4, f"{R}._spawn_subprocess": lambda run, a, k, n, f: None},
                inline={"cascade.low.func.next_uuid"}, max_while=4)
    paths = ip.explore(fi, args={"self": router})
    ctx.evals(len(paths))
    for p in paths:
        if p.exit[0] != "return":
            ctx.undecided("C18.R3", loc(fi), f"spawn_job on the model router: {p.exit[0]} {vkey(p.exit[1])[:80]}")
            continue
        jid = p.exit[1]
        st = [e for e in p.effects if e.kind == "store" and e.data.get("subscript") and e.data.get("index") == jid and isinstance(e.data.get("base"), dict)]
        if jid == "taken" or not isinstance(jid, str):
            ctx.violation("C18.R3", fi.qual, loc(fi), "fresh job id",
                          f"with a job 'taken' registered and the id generator drawing 'taken' first, spawn_job returns {vkey(jid)}: an id already in use must be redrawn (ids are never reused)")
            continue
        if len(st) != 1:
            ctx.violation("C18.R3", fi.qual, loc(fi), "job registered under its id", "the new job is not stored under the id that is returned")
            continue
        v = st[0].data["value"]
        fresh = None
        if isinstance(v, Obj) and v.cls == f"{R}.Job":
            res = v.fields.get("results")
            fresh = isinstance(res, dict) and not res
        elif isinstance(v, App) and v.fname.rsplit(".", 1)[-1] in ("replace", "copy", "model_copy"):
            res = v.kw("results")
            fresh = isinstance(res, dict) and not res
        jobs_after = st[0].data["base"]
        ls0 = v.fields.get("last_seen") if isinstance(v, Obj) else None
        pr0 = v.fields.get("progress") if isinstance(v, Obj) else None
        if isinstance(v, Obj) and not (isinstance(ls0, (int, float)) and not isinstance(ls0, bool) and ls0 <= 0):
            ctx.violation("C18.R3", fi.qual, loc(fi, st[0].node), "initial last_seen precedes every report",
                          f"a new job starts with last_seen={vkey(ls0)[:60]}; report timestamps come from the controller's own clock, so the initial mark must be a constant below every "
                          f"possible timestamp (e.g. -1) — otherwise genuine progress reports are dropped as 'older'")
            continue
        if fresh is None:
            ctx.undecided("C18.R3", loc(fi, st[0].node), f"cannot see how the new Job is built: {vkey(v)[:120]}")
        elif not fresh:
            ctx.violation("C18.R3", fi.qual, loc(fi, st[0].node), "fresh result container per job",
                          f"the new job is built as {vkey(v)[:140]}: its results mapping is not a fresh empty dict created for this job, so jobs "
                          f"share uploaded results (a result is returned for a job it was not uploaded for)")
        elif "taken" not in jobs_after:
            ctx.violation("C18.R3", fi.qual, loc(fi), "existing jobs kept", "registering a new job drops an existing one")
        else:
            ctx.ok("C18.R3", loc(fi, st[0].node), "new job: id redrawn until unused, stored under it, fresh empty results mapping, existing jobs kept")


def r4_frontend(ctx):
    repo = ctx.repo
    fi = repo.func(f"{S}.handle_fe")
    ctx.analysed(fi.qual)
    api = "cascade.gateway.api"
    reqs = [ci for q, ci in repo.classes.items() if ci.module.name == api and ci.name.endswith("Request")]
    ctx.floor("C18.R4.requests", len(reqs), 4)
    for ci in reqs:
        stem = ci.name[: -len("Request")]
        m = Obj(ci.qual, {"job": Atom("spec"), "job_ids": ["j1"], "job_id": "j1", "dataset_id": ds("D", "T")}, name=f"req-{stem}")
        ip = Interp(repo, call_models={"cascade.gateway.client.parse_request": lambda run, a, k, n, f, _m=m: _m},
                    raising=lambda d: (d.get("qual") or "").startswith(f"{R}.JobRouter."))
        paths = ip.explore(fi)
        ctx.evals(len(paths))
        for p in paths:
            failed = any(e.kind == "raise" and e.data.get("from_call") for e in p.effects)
            sends = [e for e in p.effects if e.kind == "call" and e.data.get("method") == "send"]
            sr = [e for e in p.effects if is_call(e, qual="cascade.gateway.client.serialize_response")]
            rv = sr[0].data["args"][0] if sr and sr[0].data["args"] else None
            what = f"{ci.name}{' (router call fails)' if failed else ''}"
            rc = [e for e in p.effects if e.kind == "call" and (e.data.get("qual") or "").startswith(f"{R}.JobRouter.")]
            want_args = {"get_result": ["j1", m.fields["dataset_id"]], "progress_of": [["j1"]], "spawn_job": [m.fields["job"]]}
            badarg = [e for e in rc if e.data["qual"].rsplit(".", 1)[-1] in want_args and list(e.data["args"]) != want_args[e.data["qual"].rsplit(".", 1)[-1]]]
            if badarg:
                ctx.violation("C18.R4", fi.qual, loc(fi, badarg[0].node), f"router arguments for {ci.name}",
                              f"{ci.name}: the router is called as {badarg[0].brief()[:120]}; expected the request's own fields in order {vkey(want_args[badarg[0].data['qual'].rsplit('.', 1)[-1]])} "
                              f"(a result must be looked up for the job and dataset the request names)")
                continue
            if p.exit[0] != "return" or not sends or not sr:
                ctx.violation("C18.R4", fi.qual, loc(fi), f"reply to {what}",
                              f"{what}: the handler ends with {p.exit[0]} / sends {len(sends)} replies — every request must be answered "
                              f"(a failing request must get an error response and the gateway must keep serving)")
            elif not (isinstance(rv, Obj) and rv.cls == f"{api}.{stem}Response"):
                ctx.violation("C18.R4", fi.qual, loc(fi), f"response class for {what}", f"{what}: answered with {vkey(rv)[:80]}, expected {stem}Response")
            elif failed and rv.fields.get("error") is None:
                ctx.violation("C18.R4", fi.qual, loc(fi), f"error reported for {what}", f"{what}: the response carries no error")
            elif not failed and rv.fields.get("error") is not None:
                ctx.violation("C18.R4", fi.qual, loc(fi), f"no error for {what}", f"{what}: a successful request is answered with an error")
            else:
                ctx.ok("C18.R4", loc(fi), f"{what}: {stem}Response, error={'set' if failed else 'None'}, reply sent")


RULES = [r1_progress, r2_results, r3_job_table, r4_frontend]
