"""C18 — the gateway attributes progress/results to the right job and keeps the newest (structural clauses)."""
from __future__ import annotations

import ast

from ..interp import Interp
from ..lib import is_call, loc
from ..repo import walk_scope
from ..terms import App, Atom, Obj, Sym, mentions, vkey
from .common import ds, dsid, scan

R = "cascade.gateway.router"
S = "cascade.gateway.server"
META = {
    "explanation": "Static analysis of the gateway router/server by abstract interpretation of report histories through the real entry "
                   "points (two model jobs created by spawn_job, reports fed through handle_controller, observed with progress_of / get_result; "
                   "no field of Job is named by the rules): the progress shown is the one of the progress report with the greatest timestamp; "
                   "older, result-only and shutdown reports neither change it nor advance the time mark; results are returned as uploaded per "
                   "(job, dataset) — including dataset ids with colliding printed forms — and never for another job; ids are redrawn until "
                   "unused, the job table never shrinks, jobs share no state; every request class is answered with the same-stem response, "
                   "with an error iff the router call failed, and the reply is always sent. "
                   "Not decided: malformed requests, arbitrary interleavings of frontend requests with reports.",
    "assumptions": ["zmq sockets/poller are opaque"],
}


def _uuid_model(draws):
    def m(run, a, k, n, f):
        i = getattr(run, "_u", 0)
        run._u = i + 1
        return draws[i] if i < len(draws) else f"extra{i}"
    return m


_INL = lambda f: f.qual.startswith(R + ".") and not f.name.startswith("_spawn")
_OPQ = {f"{R}._spawn_subprocess", f"{R}._spawn_local", f"{R}._spawn_slurm"}


class _Stuck(Exception):
    pass


def _one(paths, what):
    """The single outcome of a deterministic model step (several paths = the step depends on a value the model cannot know)."""
    if len(paths) != 1:
        raise _Stuck(f"{what}: {len(paths)} outcomes " + "; ".join(f"[{', '.join(f'{d.key}={d.value}' for d in p.decisions[-2:])}] -> {p.exit[0]} {vkey(p.exit[1])[:40]}" for p in paths[:4]))
    return paths[0]


def _world0(repo=None):
    """The router as its own constructor leaves it (falls back to the bare field list if the constructor cannot be evaluated)."""
    base = {"self.jobs": {}, "self.poller": Atom("poller")}
    if repo is None:
        from ..repo import get_repo
        repo = get_repo()
    from .common import ctor_env
    env = ctor_env(repo, f"{R}.JobRouter", {"poller": Atom("poller")})
    if isinstance(env.get("self.jobs"), dict):
        return {**base, **env}
    return base


def _spawn(repo, world, draws, all_paths=False):
    fi = repo.func(f"{R}.JobRouter.spawn_job")
    ip = Interp(repo, call_models={"uuid.uuid4": _uuid_model(draws), f"{R}._spawn_subprocess": lambda run, a, k, n, f: None},
                inline=lambda f: _INL(f) or f.qual == "cascade.low.func.next_uuid", opaque=_OPQ, max_while=5)
    paths = ip.explore(fi, env=world, args={"job_spec": Atom("spec")})
    if all_paths:
        return paths
    p = _one(paths, "spawn_job")
    if p.exit[0] != "return":
        raise _Stuck(f"spawn_job ends with {p.exit[0]} {vkey(p.exit[1])[:80]}")
    return p.exit[1], dict(p.heap)


def _router_of(world):
    return Obj(f"{R}.JobRouter", {k[5:]: v for k, v in world.items() if k.startswith("self.")}, name="router")


def _report(repo, world, job_id, progress, ts, results=()):
    """One controller report through server.handle_controller; returns the paths (each with the world afterwards)."""
    fi = repo.func(f"{S}.handle_controller")
    rep = Obj("cascade.controller.report.ControllerReport", {"job_id": job_id, "current_status": progress, "timestamp": ts, "results": list(results)}, name="report")
    env = {k: v for k, v in world.items() if not k.startswith("self.")}
    env["jobs"] = _router_of(world)
    ip = Interp(repo, call_models={"cascade.controller.report.deserialize": lambda run, a, k, n, f: rep}, inline=_INL, opaque=_OPQ)
    out = []
    for p in ip.explore(fi, env=env, args={"socket": Sym("ctrl_socket")}):
        w2 = {k: v for k, v in p.heap.items() if k != "jobs" and not k.startswith("self.")}
        r2 = p.heap.get("jobs")
        if isinstance(r2, Obj):
            w2.update({f"self.{k}": v for k, v in r2.fields.items()})
        out.append((p, w2))
    return out


def _shown(repo, world, ids):
    fi = repo.func(f"{R}.JobRouter.progress_of")
    p = _one(Interp(repo, inline=_INL).explore(fi, env=world, args={"job_ids": list(ids)}), "progress_of")
    if p.exit[0] != "return" or not isinstance(p.exit[1], dict):
        raise _Stuck(f"progress_of ends with {p.exit[0]} {vkey(p.exit[1])[:80]}")
    return p.exit[1]


def _fetch(repo, world, jid, d):
    fi = repo.func(f"{R}.JobRouter.get_result")
    p = _one(Interp(repo, inline=_INL).explore(fi, env=world, args={"job_id": jid, "dataset_id": d}), "get_result")
    return p.exit


def _two_jobs(repo):
    j1, w = _spawn(repo, _world0(), ["j1"])
    j2, w = _spawn(repo, w, ["j1", "j2"])
    return j1, j2, w


def r1_progress(ctx):
    """C18.R1: report histories through the real entry points (spawn_job -> handle_controller* -> progress_of): the progress shown is
    the one of the progress report with the greatest timestamp; result-only reports and the shutdown notice neither change it nor
    make later-arriving older-than-them progress reports look stale; the other job is untouched."""
    repo = ctx.repo
    fi = repo.func(f"{S}.handle_controller")
    for q in (fi.qual, f"{R}.JobRouter.spawn_job", f"{R}.JobRouter.progress_of"):
        ctx.analysed(q)
    if f"{R}.JobRouter.maybe_update" in repo.funcs:
        ctx.analysed(f"{R}.JobRouter.maybe_update")
    L = loc(fi)
    D = dsid("T", "0")
    hist = [
        [("50.00", 1, ())],
        [("50.00", 100, ())],
        [("50.00", 200, ()), ("30.00", 100, ())],
        [("30.00", 100, ()), ("50.00", 200, ())],
        [("50.00", 200, ()), (None, 300, ((D, b"x"),))],
        [("50.00", 200, ()), ("Shutdown", 300, ())],
        [("50.00", 200, ()), (None, 300, ((D, b"x"),)), ("60.00", 250, ())],
        [("50.00", 200, ()), (None, 300, ()), ("60.00", 250, ())],
        [("50.00", 200, ()), ("Shutdown", 300, ()), ("60.00", 250, ())],
        [(None, 300, ((D, b"x"),)), ("50.00", 200, ())],
        [("50.00", 200, ()), ("70.00", 200, ())],
        # the same value reported twice, then an older report arriving late: the second report is the newest even though it changed nothing
        [("50.00", 100, ()), ("50.00", 300, ()), ("49.00", 200, ())],
        # timestamps are opaque integers: the very first report of a job may carry 0
        [("50.00", 0, ())],
        [("50.00", 0, ()), ("60.00", 1, ())],
    ]
    table = []
    try:
        j1, j2, w0 = _two_jobs(repo)
        start = _shown(repo, w0, [j1, j2])
    except _Stuck as e:
        ctx.undecided("C18.R1", L, f"cannot set up two model jobs through spawn_job: {e}")
        return
    for h in hist:
        # specification: the set of admissible shown values
        best, allowed = None, {start[j1]}
        for prog, ts, _ in h:
            if prog is None or prog == "Shutdown":
                continue
            if best is None or ts > best:
                best, allowed = ts, {prog}
            elif ts == best:
                allowed = allowed | {prog}
        label = " ; ".join(f"{'result-only' if pr is None else pr}@{ts}" for pr, ts, _ in h)
        worlds = [(w0, [])]
        bad = None
        for prog, ts, res in h:
            nxt = []
            for w, trail in worlds:
                for p, w2 in _report(repo, w, j1, prog, ts, res):
                    ctx.evals(1)
                    if p.exit[0] != "return":
                        bad = f"the report {prog}@{ts} makes handle_controller end with {p.exit[0]} {vkey(p.exit[1])[:80]}"
                    nxt.append((w2, trail + [d for d in p.decisions]))
            worlds = nxt
        if bad:
            ctx.violation("C18.R1", fi.qual, L, f"history {label}", f"history [{label}] for job j1: {bad}", row={"history": label})
            continue
        verdict = "ok"
        for w, trail in worlds:
            try:
                sh = _shown(repo, w, [j1, j2])
            except _Stuck as e:
                ctx.undecided("C18.R1", L, f"history [{label}]: {e}")
                verdict = "undecided"
                break
            cond = ("" if not trail else " (on the path where " + ", ".join(f"{d.key} is {d.value}" for d in trail[:3]) + ")")
            table.append({"history": label, "shown": vkey(sh.get(j1)), "admissible": sorted(allowed)})
            if sh.get(j1) not in allowed:
                ctx.violation("C18.R1", fi.qual, L, f"history {label}",
                              f"after the reports [{label}] for job j1 the gateway shows {vkey(sh.get(j1))}{cond}; the progress report with the greatest timestamp "
                              f"carries {sorted(allowed)} — older, result-only and shutdown reports must neither overwrite it nor advance the job's time mark", row={"history": label})
                verdict = "bad"
                break
            if sh.get(j2) != start[j2]:
                ctx.violation("C18.R1", fi.qual, L, "other job untouched", f"reports for j1 [{label}] change what is shown for j2: {vkey(sh.get(j2))}", row={"history": label})
                verdict = "bad"
                break
        if verdict == "ok":
            ctx.ok("C18.R1", L, f"history [{label}] -> shows {sorted(allowed)}")
    ctx.table("C18.R1", table)
    # nothing on the frontend side changes what is shown
    from .common import callers_of
    fe = repo.func(f"{S}.handle_fe")
    try:
        for p, w in _report(repo, w0, j1, "50.00", 100):
            before = _shown(repo, w, [j1, j2])
            again = _shown(repo, w, [])
            if {k: again.get(k) for k in (j1, j2)} != before:
                ctx.violation("C18.R1", f"{R}.JobRouter.progress_of", loc(repo.func(f"{R}.JobRouter.progress_of")), "all-jobs query agrees",
                              f"progress_of([]) reports {vkey(again)} but progress_of([j1, j2]) reports {vkey(before)}")
            else:
                ctx.ok("C18.R1", L, "progress_of([]) lists every job with the same values")
    except _Stuck as e:
        ctx.undecided("C18.R1", L, f"all-jobs query: {e}")


def r2_results(ctx):
    """C18.R2: a result is returned exactly as uploaded and only for the job and dataset it was uploaded for (observed through
    handle_controller -> get_result on two jobs created by spawn_job; the two datasets have colliding printed forms)."""
    repo = ctx.repo
    fi = repo.func(f"{S}.handle_controller")
    g = repo.func(f"{R}.JobRouter.get_result")
    ctx.analysed(fi.qual)
    ctx.analysed(g.qual)
    L = loc(fi)
    D1, D2, D3 = dsid("a.b", "c"), dsid("a", "b.c"), dsid("z", "0")
    try:
        j1, j2, w0 = _two_jobs(repo)
        steps = _report(repo, w0, j1, "50.00", 200, ((D1, b"x"), (D3, b"")))  # an empty result is a result
        if len(steps) != 1 or steps[0][0].exit[0] != "return":
            ctx.violation("C18.R2", fi.qual, L, "report handled", f"a well-formed controller report for a known job makes handle_controller end with "
                          f"{[(p.exit[0], vkey(p.exit[1])[:60]) for p, _ in steps]}")
            return
        w = steps[0][1]
        want = {(j1, "D1"): ("return", b"x"), (j1, "D3"): ("return", b""), (j1, "D2"): "raise", (j2, "D1"): "raise", (j2, "D3"): "raise"}
        dsn = {"D1": D1, "D2": D2, "D3": D3}
        okk = True
        for (jid, dn), exp in want.items():
            got = _fetch(repo, w, jid, dsn[dn])
            ctx.evals(1)
            good = (got[0] == "raise") if exp == "raise" else (got == exp)
            if not good:
                ctx.violation("C18.R2", g.qual, loc(g), f"result of ({'own' if jid == j1 else 'other'} job, {dn})",
                              f"job j1 uploaded D1=DatasetId('a.b','c')->x and D3->b'' (empty); get_result({jid}, {dn}={vkey(dsn[dn])}) gives {got[0]} {vkey(got[1])[:60]}, expected "
                              f"{'an error (never uploaded for that job/dataset)' if exp == 'raise' else exp[1]!r}", row={"job": jid, "dataset": dn})
                okk = False
        # retrieving a result does not consume it: a second request (a client retry after a timeout, another user) gets the same bytes
        gfi = repo.func(f"{R}.JobRouter.get_result")
        w_twice = w
        seen = []
        for _ in range(2):
            gp = _one(Interp(repo, inline=_INL).explore(gfi, env=w_twice, args={"job_id": j1, "dataset_id": D1}), "get_result")
            seen.append(gp.exit)
            w_twice = {k: v for k, v in gp.heap.items() if k.startswith("self.")}
        ctx.evals(2)
        if seen != [("return", b"x"), ("return", b"x")]:
            ctx.violation("C18.R2", g.qual, loc(g), "a result can be retrieved again",
                          f"j1 uploaded D1 -> x; two successive get_result(j1, D1) give {[(a, vkey(b)[:30]) for a, b in seen]}: the second request must return the uploaded bytes too")
            okk = False
        sh = _shown(repo, w, [j1])
        if sh.get(j1) != "50.00":
            ctx.violation("C18.R2", fi.qual, L, "progress forwarded", f"the report's progress is not applied to its job: shown {vkey(sh.get(j1))}")
            okk = False
        # a second upload for the other job does not disturb the first
        steps2 = _report(repo, w, j2, None, 300, ((D1, b"other"),))
        if len(steps2) == 1 and steps2[0][0].exit[0] == "return":
            w2 = steps2[0][1]
            a, b = _fetch(repo, w2, j1, D1), _fetch(repo, w2, j2, D1)
            if a != ("return", b"x") or b != ("return", b"other"):
                ctx.violation("C18.R2", g.qual, loc(g), "same dataset id in two jobs", f"j1 uploaded D1->x, then j2 uploaded D1->other: get_result(j1, D1) = {vkey(a[1])[:40]}, "
                              f"get_result(j2, D1) = {vkey(b[1])[:40]}")
                okk = False
        else:
            ctx.violation("C18.R2", fi.qual, L, "result-only report handled", f"a result-only report ends {[(p.exit[0], vkey(p.exit[1])[:50]) for p, _ in steps2]}")
            okk = False
        # results are not progress: a result report overtaken by a newer (or equally stamped) progress report of its job still uploads its datasets
        for ts_res in (100, 200):
            w3 = w0
            hist_ok = True
            for prog, ts, res in (("50.00", 200, ()), (None, ts_res, ((D2, b"late"),))):
                st3 = _report(repo, w3, j1, prog, ts, res)
                if len(st3) != 1 or st3[0][0].exit[0] != "return":
                    hist_ok = False
                    break
                w3 = st3[0][1]
            got = _fetch(repo, w3, j1, D2) if hist_ok else ("stuck", None)
            ctx.evals(1)
            if got != ("return", b"late"):
                ctx.violation("C18.R2", fi.qual, L, "result report overtaken by a progress report",
                              f"job j1: progress report @200, then a result-only report stamped @{ts_res} (sent earlier, delivered later) uploading D2: get_result(j1, D2) gives "
                              f"{got[0]} {vkey(got[1])[:50]}; the dataset was uploaded and must be returned — staleness applies to the progress shown, not to results")
                okk = False
        if okk:
            ctx.ok("C18.R2", L, "results: returned as uploaded, per job and per dataset (colliding printed forms kept apart), unknown -> error")
    except _Stuck as e:
        ctx.undecided("C18.R2", L, str(e))
    # a progress request naming an unknown job fails (handle_fe turns the failure into an error response)
    try:
        j1, j2, w0 = _two_jobs(repo)
        pf = repo.func(f"{R}.JobRouter.progress_of")
        for ids in (["nobody"], [j1, "nobody"]):
            ps = Interp(repo, inline=_INL).explore(pf, env=w0, args={"job_ids": list(ids)})
            ctx.evals(len(ps))
            if any(p.exit[0] != "raise" for p in ps):
                ctx.violation("C18.R2", pf.qual, loc(pf), "progress of an unknown job",
                              f"progress_of({ids}) with jobs {{j1, j2}} known returns {[vkey(p.exit[1])[:60] for p in ps if p.exit[0] == 'return']} instead of failing: the frontend gets "
                              f"a response without an error for a job that does not exist")
                break
        else:
            ctx.ok("C18.R2", loc(pf), "progress_of: an unknown job id (alone or among known ones) -> error")
    except _Stuck as e:
        ctx.undecided("C18.R2", L, str(e))
    # unknown job -> error, nothing created
    try:
        j1, j2, w0 = _two_jobs(repo)
        for p, w in _report(repo, w0, "nobody", "50.00", 100, ((D1, b"x"),)):
            if p.exit[0] == "return":
                sh = _shown(repo, w, [])
                if "nobody" in sh:
                    ctx.violation("C18.R2", fi.qual, L, "report for an unknown job", "a report naming an unknown job creates a job entry")
                    break
        else:
            ctx.ok("C18.R2", L, "a report for an unknown job creates no job")
    except _Stuck as e:
        ctx.undecided("C18.R2", L, str(e))


def r3_job_table(ctx):
    repo = ctx.repo
    n = 0
    for fi, node, kind, det in scan().attr_sites("jobs", ("cascade.gateway",), owner="cascade.gateway.router.JobRouter"):
        n += 1
        if kind in ("del", "subdel") or (kind == "mutcall" and det in ("pop", "clear", "popitem")):
            ctx.violation("C18.R3", fi.qual, loc(fi, node), "job table shrinks",
                          f"{fi.qual} removes entries from JobRouter.jobs: a job id could be handed out again / results of finished jobs vanish")
        elif kind == "store" and fi.name != "__init__":
            ctx.violation("C18.R3", fi.qual, loc(fi, node), "job table replaced", f"{fi.qual} replaces JobRouter.jobs")
        else:
            ctx.ok("C18.R3", loc(fi, node), f"jobs writer ({kind}) keeps existing entries")
    ctx.floor("C18.R3.sites", n, 2)
    fi = repo.func(f"{R}.JobRouter.spawn_job")
    ctx.analysed(fi.qual)
    L = loc(fi)
    try:
        j1, w1 = _spawn(repo, _world0(), ["j1"])
        paths = _spawn(repo, w1, ["j1", "j1", "j2"], all_paths=True)
        ctx.evals(len(paths))
        for p in paths:
            if p.exit[0] != "return":
                ctx.undecided("C18.R3", L, f"spawn_job on the model router: {p.exit[0]} {vkey(p.exit[1])[:80]}")
                continue
            jid = p.exit[1]
            if jid == j1 or not isinstance(jid, str):
                ctx.violation("C18.R3", fi.qual, L, "fresh job id",
                              f"with job {j1!r} registered and the id generator drawing {j1!r} first, spawn_job returns {vkey(jid)}: an id already in use must be redrawn (ids are never reused)")
                continue
            sh = _shown(repo, dict(p.heap), [])
            if set(sh) != {j1, jid}:
                ctx.violation("C18.R3", fi.qual, L, "job registered under its id, existing jobs kept",
                              f"after spawning a second job (returned id {jid!r}) the gateway knows the jobs {sorted(map(str, sh))}; expected {sorted([j1, jid])}")
                continue
            # jobs do not share anything: an upload for one is invisible for the other, the first job's state survives
            D = dsid("T", "0")
            steps = _report(repo, dict(p.heap), jid, "40.00", 100, ((D, b"x"),))
            if len(steps) != 1 or steps[0][0].exit[0] != "return":
                ctx.undecided("C18.R3", L, f"cannot feed a report to the freshly spawned job: {[(q.exit[0], vkey(q.exit[1])[:60]) for q, _ in steps]}")
                continue
            w = steps[0][1]
            other = _fetch(repo, w, j1, D)
            sh2 = _shown(repo, w, [j1, jid])
            if other[0] != "raise" or sh2.get(j1) != sh.get(j1):
                ctx.violation("C18.R3", fi.qual, L, "fresh state per job",
                              f"a report (progress 40.00, result D) for the new job {jid!r} is visible on the older job {j1!r}: get_result({j1}, D) -> {other[0]} "
                              f"{vkey(other[1])[:40]}, progress shown {vkey(sh2.get(j1))} (was {vkey(sh.get(j1))}) — jobs must not share their result container or progress")
                continue
            started = None
            try:
                started = ast.literal_eval(repo.consts["cascade.controller.report.JobProgressStarted"][1])
            except Exception:
                pass
            if started is not None and (sh.get(jid) != started or sh.get(j1) != started):
                ctx.violation("C18.R3", fi.qual, L, "a new job shows the 'started' progress",
                              f"before any report the gateway shows {vkey(sh.get(jid))[:60]} for a new job; expected JobProgressStarted = {started!r}")
                continue
            # wiring: the socket the controller will report to is the one the gateway polls, and the subprocess is told this job's id and that socket's address
            reg = [e for e in p.effects if e.kind == "call" and e.data.get("method") == "register" and e.data["args"]]
            binds = [e for e in p.effects if e.kind == "call" and e.data.get("method") in ("bind_to_random_port", "bind")]
            sp = [e for e in p.effects if is_call(e, qual=f"{R}._spawn_subprocess")]
            socks = {vkey(e.data.get("recv_value") if e.data.get("recv_value") is not None else e.data.get("recv")) for e in binds}
            if len(sp) != 1 or not binds:
                ctx.undecided("C18.R3", L, f"cannot see how the controller process is started ({len(sp)} spawn calls, {len(binds)} binds)")
                continue
            spargs = list(sp[0].data["args"]) + list(sp[0].data["kwargs"].values())
            if not any(vkey(e.data["args"][0]) in socks for e in reg):
                ctx.violation("C18.R3", fi.qual, L, "report socket polled",
                              f"the socket bound for the new job's reports ({sorted(socks)}) is not registered with the gateway's poller "
                              f"(registered: {[vkey(e.data['args'][0])[:50] for e in reg]}): its reports are never read and the job shows 'started' for ever")
                continue
            if jid not in spargs or not any(any(mentions(a, vkey(b.data.get("result"))) for b in binds if b.data.get("result") is not None) or
                                            any(vkey(b.data.get("result")) in vkey(a) for b in binds) for a in spargs):
                ctx.violation("C18.R3", fi.qual, L, "controller told its job id and report address",
                              f"the controller process is started with {[vkey(a)[:60] for a in spargs]}; expected this job's id {jid!r} and the address of the socket just bound")
                continue
            ctx.ok("C18.R3", L, "new job: id redrawn until unused, registered, shows 'started', report socket polled, controller given id + address, nothing shared")
    except _Stuck as e:
        ctx.undecided("C18.R3", L, str(e))


def r4_frontend(ctx):
    repo = ctx.repo
    fi = repo.func(f"{S}.handle_fe")
    ctx.analysed(fi.qual)
    api = "cascade.gateway.api"
    reqs = [ci for q, ci in repo.classes.items() if ci.module.name == api and ci.name.endswith("Request")]
    ctx.floor("C18.R4.requests", len(reqs), 4)
    for ci in reqs:
        stem = ci.name[: -len("Request")]
        m = Obj(ci.qual, {"job": Atom("spec"), "job_ids": ["j1"], "job_id": "j1", "dataset_id": ds("D", "T")}, name=f"req-{stem}")
        ip = Interp(repo, call_models={"cascade.gateway.client.parse_request": lambda run, a, k, n, f, _m=m: _m},
                    raising=lambda d: (d.get("qual") or "").startswith(f"{R}.JobRouter."))
        paths = ip.explore(fi)
        ctx.evals(len(paths))
        for p in paths:
            failed = any(e.kind == "raise" and e.data.get("from_call") for e in p.effects)
            sends = [e for e in p.effects if e.kind == "call" and e.data.get("method") == "send"]
            sr = [e for e in p.effects if is_call(e, qual="cascade.gateway.client.serialize_response")]
            rv = sr[0].data["args"][0] if sr and sr[0].data["args"] else None
            what = f"{ci.name}{' (router call fails)' if failed else ''}"
            rc = [e for e in p.effects if e.kind == "call" and (e.data.get("qual") or "").startswith(f"{R}.JobRouter.")]
            want_args = {"get_result": ["j1", m.fields["dataset_id"]], "progress_of": [["j1"]], "spawn_job": [m.fields["job"]]}
            badarg = [e for e in rc if e.data["qual"].rsplit(".", 1)[-1] in want_args and list(e.data["args"]) != want_args[e.data["qual"].rsplit(".", 1)[-1]]]
            if badarg:
                ctx.violation("C18.R4", fi.qual, loc(fi, badarg[0].node), f"router arguments for {ci.name}",
                              f"{ci.name}: the router is called as {badarg[0].brief()[:120]}; expected the request's own fields in order {vkey(want_args[badarg[0].data['qual'].rsplit('.', 1)[-1]])} "
                              f"(a result must be looked up for the job and dataset the request names)")
                continue
            if p.exit[0] != "return" or not sends or not sr:
                ctx.violation("C18.R4", fi.qual, loc(fi), f"reply to {what}",
                              f"{what}: the handler ends with {p.exit[0]} / sends {len(sends)} replies — every request must be answered "
                              f"(a failing request must get an error response and the gateway must keep serving)")
            elif not (isinstance(rv, Obj) and rv.cls == f"{api}.{stem}Response"):
                ctx.violation("C18.R4", fi.qual, loc(fi), f"response class for {what}", f"{what}: answered with {vkey(rv)[:80]}, expected {stem}Response")
            elif failed and rv.fields.get("error") is None:
                ctx.violation("C18.R4", fi.qual, loc(fi), f"error reported for {what}", f"{what}: the response carries no error")
            elif not failed and rv.fields.get("error") is not None:
                ctx.violation("C18.R4", fi.qual, loc(fi), f"no error for {what}", f"{what}: a successful request is answered with an error")
            else:
                ctx.ok("C18.R4", loc(fi), f"{what}: {stem}Response, error={'set' if failed else 'None'}, reply sent")


RULES = [r1_progress, r2_results, r3_job_table, r4_frontend]
from .common import lazy  # noqa: E402
RULES.append(lazy("C17", "r7_result_codec", "a result is returned exactly as uploaded: encoder and decoder of its text form are an inverse pair"))
