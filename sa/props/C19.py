"""C19 — a job accepted by the builder is well formed and carries the values given (structural clauses)."""
from __future__ import annotations

from ..calls import MUTATORS
from ..interp import Interp
from ..lib import is_call, loc
from ..terms import App, Atom, Attr, Mut, Obj, Sub, Sym, Term, vkey

B = "cascade.low.builders"
CORE = "cascade.low.core."
META = {
    "explanation": "Static structural analysis of cascade.low.builders by abstract interpretation on model tasks/edges: with_values stores "
                   "positional values under their own index and keyword values under their names; the edge validator yields a problem for "
                   "every dangling endpoint (truth table over source task / source output / sink task / keyword parameter, positional and "
                   "keyword edges) and never reads an unbound variable; build returns the error list iff there is one; builder methods never "
                   "mutate the receiver or a shallow copy in place; with_edge maps str -> keyword, int -> position. "
                   "Later rules: dangling endpoints with dotted names, with_values declares no keyword of its own, with_node stores the task given, job-level validators leave bound values alone, no state kept between builder calls. Not decided: signature inspection of arbitrary callables (from_callable), type-compatibility via eval.",
    "assumptions": ["pyrsistent set/append and pydantic model_copy/dataclasses.replace are persistent (return new objects)"],
}


def _tb(ps=None, kw=None, ins=None, outs=None):
    return Obj(B + ".TaskBuilder", {"static_input_ps": ps or {}, "static_input_kw": kw or {},
                                    "definition": Obj(CORE + "TaskDefinition", {"input_schema": ins or {}, "output_schema": outs or {"0": "int"}})})


def r1_with_values(ctx):
    repo = ctx.repo
    fi = repo.func(f"{B}.TaskBuilder.with_values")
    ctx.analysed(fi.qual)
    # the schema lists keyword-bindable parameters only (positional-only / *args parameters are not in it), so a position says
    # nothing about a schema name: values given by keyword must survive whatever positions are bound
    me = _tb({"0": "old0", "5": "old5"}, {"a": 1}, ins={"a": "int", "k": "int"})
    cases = [((7, 8), {"k": 2}, {"0": 7, "1": 8, "5": "old5"}, {"a": 1, "k": 2}),
             (((7, 8),), {}, {"0": (7, 8), "5": "old5"}, {"a": 1}),
             ((), {"a": 9}, {"0": "old0", "5": "old5"}, {"a": 9})]
    for args, kwargs, want_ps, want_kw in cases:
        paths = Interp(repo, inline={"cascade.low.func.pyd_replace"}).explore(fi, args={"self": me, "args": args, "kwargs": kwargs})
        ctx.evals(len(paths))
        for p in paths:
            dumped = [e for e in p.effects if e.kind == "call" and e.data.get("method") in ("model_dump", "dict", "model_dump_json", "json")
                      and any(isinstance(r_, Obj) and r_.cls.endswith(("TaskBuilder", "TaskInstance")) for r_ in (e.data.get("recv"), e.data.get("recv_value")))]
            if dumped:
                ctx.violation("C19.R1", fi.qual, loc(fi, dumped[0].node), "bound values are carried over as they are",
                              f"with_values{args} {kwargs} re-creates the task from its serialised form ({dumped[0].data.get('method')}()): values bound earlier go through a "
                              f"conversion (models and dataclasses become dicts, named tuples become tuples) and the job no longer carries the values that were given")
                continue
            if p.exit[0] != "return":
                ctx.violation("C19.R1", fi.qual, loc(fi), "with_values completes",
                              f"with_values{args} {kwargs} does not return: {p.exit[0]} {vkey(p.exit[1])[:100]}")
                continue
            rv = p.exit[1]
            upd = None
            for e in p.effects:
                if e.kind == "call" and e.data.get("method") in ("model_copy", "copy") and "update" in e.data["kwargs"] and e.data.get("result") is rv:
                    upd = e.data["kwargs"]["update"]
            if isinstance(rv, Obj):
                upd = {"static_input_ps": rv.fields.get("static_input_ps"), "static_input_kw": rv.fields.get("static_input_kw")}
            if not isinstance(upd, dict):
                ctx.undecided("C19.R1", loc(fi), f"cannot see the values carried by the result of with_values: {vkey(rv)[:150]}")
                continue
            if upd.get("static_input_ps") != want_ps or upd.get("static_input_kw") != want_kw:
                ctx.violation("C19.R1", fi.qual, loc(fi), "values carried by with_values",
                              f"with_values{args} {kwargs} on a task with ps={{'0':'old0','5':'old5'}}, kw={{'a':1}} carries "
                              f"ps={vkey(upd.get('static_input_ps'))} kw={vkey(upd.get('static_input_kw'))}; expected ps={want_ps} kw={want_kw}")
            else:
                ctx.ok("C19.R1", loc(fi), f"with_values{args} {kwargs}: positions and names as given")


def _edge(src_task, src_out, sink, kw=None, ps=None):
    return Obj(CORE + "Task2TaskEdge", {"source": Obj(CORE + "DatasetId", {"task": src_task, "output": src_out}, frozen=True),
                                        "sink_task": sink, "sink_input_kw": kw, "sink_input_ps": ps})


def _build_paths(repo, nodes, edges):
    fi = repo.func(f"{B}.JobBuilder.build")
    me = Obj(B + ".JobBuilder", {"nodes": dict(nodes), "edges": list(edges)})
    ip = Interp(repo, inline=lambda f: f.qual.startswith(f"{B}."))
    return fi, ip.explore(fi, args={"self": me})


def r2_r3_edge_errors(ctx):
    """C19.R2/R3: truth table of the edge validation as performed by JobBuilder.build (whatever helpers it is made of): a dangling
    endpoint yields a problem list, a well-formed edge yields the job; an unbound local read on any row is a violation."""
    repo = ctx.repo
    fi = repo.func(f"{B}.JobBuilder.build")
    ctx.analysed(fi.qual)
    if f"{B}.JobBuilder.build.get_edge_errors" in repo.funcs:
        ctx.analysed(f"{B}.JobBuilder.build.get_edge_errors")
    nodes = {"src": _tb(outs={"0": "int"}), "snk": _tb(ins={"x": "int"})}
    table = []
    for st_ok in (True, False):
        for so_ok in (True, False):
            for sk_ok in (True, False):
                for kind in ("kw-existing", "kw-missing", "positional"):
                    e = _edge("src" if st_ok else "nosuch", "0" if so_ok else "9", "snk" if sk_ok else "nosink",
                              kw={"kw-existing": "x", "kw-missing": "zz", "positional": None}[kind], ps=0 if kind == "positional" else None)
                    _, paths = _build_paths(repo, nodes, [e])
                    ctx.evals(len(paths))
                    atoms = {"source_task": st_ok, "source_output": so_ok, "sink_task": sk_ok, "edge": kind}
                    bad = (not st_ok) or (st_ok and not so_ok) or (not sk_ok) or (sk_ok and kind == "kw-missing")
                    for p in paths:
                        rv = p.exit[1] if p.exit[0] == "return" else None
                        is_err = isinstance(rv, App) and rv.fname.endswith("Either.error")
                        is_ok = isinstance(rv, App) and rv.fname.endswith("Either.ok")
                        probs = rv.args[0] if is_err and rv.args and isinstance(rv.args[0], list) else []
                        ub = [x for x in p.effects if x.kind == "unbound"]
                        table.append({**atoms, "problems": len(probs), "exit": p.exit[0], "result": "problems" if is_err else "job" if is_ok else "?"})
                        if ub:
                            ctx.violation("C19.R2", ub[0].func, loc(fi, ub[0].node), f"unbound local {ub[0].data['name']}",
                                          f"edge {atoms}: the validator reads local '{ub[0].data['name']}' before it is bound (UnboundLocalError instead of a problem list)", row=atoms)
                        elif p.exit[0] != "return":
                            ctx.violation("C19.R3", fi.qual, loc(fi), "validator completes", f"edge {atoms}: build raises {vkey(p.exit[1])[:100]}", row=atoms)
                        elif not (is_err or is_ok):
                            ctx.undecided("C19.R3", loc(fi), f"edge {atoms}: build returns {vkey(rv)[:100]}, neither Either.ok nor Either.error")
                        elif bad and not probs:
                            ctx.violation("C19.R3", fi.qual, loc(fi), "dangling endpoint reported",
                                          f"edge {atoms} has a dangling endpoint but build reports no problem: the builder accepts the job", row=atoms)
                        elif not bad and is_err:
                            ctx.violation("C19.R3", fi.qual, loc(fi), "well-formed edge accepted", f"edge {atoms} is well formed but {len(probs)} problem(s) are reported: "
                                          f"{vkey(probs)[:120]}", row=atoms)
                        else:
                            ctx.ok("C19.R3", loc(fi), f"edge validation | {atoms} -> {len(probs)} problem(s)")
    ctx.table("C19.R3", table)
    # names are arbitrary: a dangling endpoint whose task / name *concatenation* reads like an existing endpoint is still dangling
    nodes3 = {"ens.mean": _tb(outs={"0": "int"}), "snk": _tb(ins={"x": "int"}), "snk.x": _tb(ins={"y": "int"}), "src": _tb(outs={"0": "int"})}
    for label, e in (("source task 'ens' (missing) with output 'mean.0' — reads like output '0' of the existing task 'ens.mean'", _edge("ens", "mean.0", "snk", kw="x")),
                     ("sink task 'snk' with keyword 'x.y' (missing) — reads like parameter 'y' of the existing task 'snk.x'", _edge("src", "0", "snk", kw="x.y"))):
        _, paths = _build_paths(repo, nodes3, [e])
        ctx.evals(len(paths))
        for p in paths:
            rv = p.exit[1] if p.exit[0] == "return" else None
            is_err = isinstance(rv, App) and rv.fname.endswith("Either.error")
            probs = rv.args[0] if is_err and rv.args and isinstance(rv.args[0], list) else []
            if p.exit[0] != "return" or not probs:
                ctx.violation("C19.R3", fi.qual, loc(fi), "dangling endpoint with a dotted name reported",
                              f"edge with {label}: build reports no problem ({p.exit[0]} {vkey(rv)[:60]}) — endpoints are identified by (task, name) pairs, not by the text "
                              f"'task.name'; the job is accepted with an edge that starts or ends nowhere")
                break
        else:
            ctx.ok("C19.R3", loc(fi), f"dangling endpoint reported | {label.split(' — ')[0]}")
    # direction of the declared-type compatibility test: the *output* type must be a subclass of the *input* type
    nodes2 = {"src": _tb(outs={"0": "bool"}), "snk": _tb(ins={"x": "int"})}
    _, paths = _build_paths(repo, nodes2, [_edge("src", "0", "snk", kw="x")])
    calls = [e for p in paths for e in p.effects if e.kind == "call" and e.data["name"] == "builtins.issubclass"]
    if not calls:
        ctx.undecided("C19.R3", loc(fi), "type compatibility of an edge (bool -> int) is not decided through issubclass")
    else:
        a = [vkey(x) for x in calls[0].data["args"]]
        if not ("'bool'" in a[0] and "'int'" in a[1]):
            ctx.violation("C19.R3", calls[0].func, loc(fi, calls[0].node), "compatibility direction",
                          f"edge from an output declared `bool` into a parameter declared `int`: compatibility is tested as issubclass({a[0]}, {a[1]}); it must be "
                          f"issubclass(output type, parameter type) — reversed, bool -> int is rejected and int -> bool accepted")
        else:
            ctx.ok("C19.R3", loc(fi), "edge compatibility: issubclass(output type, parameter type)")


def r4_build(ctx):
    repo = ctx.repo
    fi = repo.func(f"{B}.JobBuilder.build")
    ctx.analysed(fi.qual)
    nodes = {"src": _tb(outs={"0": "int"}), "snk": _tb(ins={"x": "Any"}, kw={"x": 1})}
    for name, edges, expect_err in (("well-formed job", [_edge("src", "0", "snk", kw="x")], False),
                                    ("edge to a missing task", [_edge("src", "0", "nosink", ps=0)], True),
                                    ("edge from a missing output", [_edge("src", "7", "snk", kw="x")], True),
                                    ("no edges", [], False)):
        me = Obj(B + ".JobBuilder", {"nodes": dict(nodes), "edges": list(edges)})
        ip = Interp(repo, inline=lambda f: f.qual.startswith(f"{B}.JobBuilder.build."))
        paths = ip.explore(fi, args={"self": me})
        ctx.evals(len(paths))
        for p in paths:
            rv = p.exit[1] if p.exit[0] == "return" else None
            is_err = isinstance(rv, App) and rv.fname.endswith("Either.error")
            is_ok = isinstance(rv, App) and rv.fname.endswith("Either.ok")
            if any(x.kind == "unbound" for x in p.effects):
                ctx.violation("C19.R2", fi.qual, loc(fi), "unbound local in build", f"build on '{name}' reads an unbound local")
            elif expect_err and not is_err:
                ctx.violation("C19.R4", fi.qual, loc(fi), "problems returned",
                              f"build on '{name}' returns {vkey(rv)[:120] if rv is not None else p.exit}; it must return the list of problems")
            elif not expect_err and not is_ok:
                ctx.violation("C19.R4", fi.qual, loc(fi), "job returned", f"build on '{name}' returns {vkey(rv)[:120] if rv is not None else p.exit}; it must return the job")
            elif is_err and not (rv.args and isinstance(rv.args[0], list) and rv.args[0]):
                ctx.violation("C19.R4", fi.qual, loc(fi), "problem list content", f"build on '{name}' returns an empty / non-list error payload {vkey(rv.args)[:100]}")
            elif is_ok and not (rv.args and isinstance(rv.args[0], Obj) and rv.args[0].cls.endswith("JobInstance")
                                and {"tasks", "edges"} <= set(rv.args[0].fields) | set(rv.args[0].kwargs)):
                ctx.violation("C19.R4", fi.qual, loc(fi), "job content", f"build on '{name}' does not wrap a JobInstance(tasks=…, edges=…): {vkey(rv.args)[:120]}")
            else:
                ctx.ok("C19.R4", loc(fi), f"build | {name} -> {'problems' if is_err else 'job'}")


def _root(t):
    for _ in range(12):
        if isinstance(t, (Attr, Sub)):
            t = t.base
        elif isinstance(t, Mut):
            t = t.prev
        else:
            break
    return t


SHALLOW = ("model_copy", "copy", "replace")


def r5_no_inplace(ctx):
    """C19.R5: builder methods never store into / mutate in place the receiver, nor an object obtained by a shallow copy of it."""
    repo = ctx.repo
    n = 0
    for cq in (f"{B}.TaskBuilder", f"{B}.JobBuilder"):
        for name, fi in repo.cls(cq).methods.items():
            if name.startswith("__") or "classmethod" in fi.decorators:
                continue
            ctx.analysed(fi.qual)
            n += 1
            ip = Interp(repo, inline=lambda f: f.parent is not None)
            paths = ip.explore(fi)
            ctx.evals(len(paths))
            bad = None
            for p in paths:
                for e in p.effects:
                    if e.func != fi.qual:
                        continue
                    ref = None
                    if e.kind in ("store", "aug", "del") and not e.data.get("local"):
                        ref = e.data.get("ref")
                    elif e.kind == "call" and e.data.get("method") in MUTATORS and e.data.get("discarded"):
                        ref = e.data.get("recv_ref") if e.data.get("recv_ref") is not None else e.data.get("recv")
                    if ref is None:
                        continue
                    root = _root(ref)
                    shallow = isinstance(root, App) and root.fname.rsplit(".", 1)[-1] in SHALLOW
                    if (isinstance(root, Sym) and root.name == "self") or shallow:
                        if isinstance(root, Sym) and ref == root:
                            continue
                        bad = (e, ref, shallow)
            if bad:
                e, ref, shallow = bad
                ctx.violation("C19.R5", fi.qual, loc(fi, e.node), "in-place update of builder state",
                              f"{fi.qual} updates {vkey(ref)[:120]} in place ({e.brief()[:100]}); "
                              f"{'a shallow copy shares the container with the original task' if shallow else 'the receiver is modified'}: "
                              f"previously built tasks/jobs change")
            else:
                ctx.ok("C19.R5", loc(fi), f"{name}: no in-place update of the receiver or of a shallow copy")
    ctx.floor("C19.R5.methods", n, 4)


def r6_with_edge(ctx):
    repo = ctx.repo
    fi = repo.func(f"{B}.JobBuilder.with_edge")
    ctx.analysed(fi.qual)
    for into, wkw, wps in (("x", "x", None), (3, None, 3), (0, None, 0)):
        paths = Interp(repo).explore(fi, args={"source": "s", "sink": "t", "into": into, "frum": "o"})
        ctx.evals(len(paths))
        for p in paths:
            es = [a for e in p.effects if e.kind == "call" for a in e.data["args"] if isinstance(a, Obj) and a.cls.endswith("Task2TaskEdge")]
            ok_ = p.exit[0] == "return" and es and es[0].fields.get("sink_input_kw") == wkw and es[0].fields.get("sink_input_ps") == wps \
                and es[0].fields.get("sink_task") == "t" and isinstance(es[0].fields.get("source"), Obj) \
                and es[0].fields["source"].fields == {"task": "s", "output": "o"}
            if not ok_:
                ctx.violation("C19.R6", fi.qual, loc(fi), "with_edge mapping",
                              f"with_edge('s','t', into={into!r}, frum='o') builds {vkey(es[0].fields) if es else p.exit}; expected kw={wkw!r} ps={wps!r} source=s.o sink=t")
            else:
                ctx.ok("C19.R6", loc(fi), f"with_edge into={into!r}: keyword/position as given")


RULES = [r1_with_values, r2_r3_edge_errors, r4_build, r5_no_inplace, r6_with_edge]


def r7_models_take_values_verbatim(ctx):
    """C19.R7: the job model classes store what the builder gives them: a validator / __init__ / post-init hook defined on
    Task2TaskEdge, TaskInstance, TaskDefinition, JobInstance or DatasetId must return its input unchanged on the rule's model inputs
    (in particular a keyword edge whose parameter name consists of digits stays a keyword edge)."""
    repo = ctx.repo
    hooks = ("model_validator", "field_validator", "validator", "root_validator")
    n = 0
    for cname in ("Task2TaskEdge", "TaskInstance", "TaskDefinition", "JobInstance", "DatasetId"):
        ci = repo.cls(CORE + cname)
        for mname, fi in ci.methods.items():
            is_hook = any(d.split("(")[0].split(".")[-1] in hooks for d in fi.decorators) or mname in ("__init__", "model_post_init", "__post_init__", "__new__")
            if not is_hook:
                continue
            n += 1
            ctx.analysed(fi.qual)
            if cname == "JobInstance" and fi.params[:1] == ["self"] and mname not in ("__init__", "__new__"):
                # an "after" hook sees the finished job: it must leave the tasks' bound values alone — they are the values the caller gave, and the
                # TaskInstance objects are shared with the builder and with every other job built from it
                TI = Obj(CORE + "TaskInstance", {"definition": Obj(CORE + "TaskDefinition", {"input_schema": {"a": "int", "b": "int"}, "output_schema": {"0": "int"}}, name="DEF"),
                                                 "static_input_kw": {"a": 1, "b": 2}, "static_input_ps": {"0": 7}}, name="TASK")
                SRC = Obj(CORE + "TaskInstance", {"definition": Obj(CORE + "TaskDefinition", {"input_schema": {}, "output_schema": {"0": "int"}}, name="DEF0"),
                                                  "static_input_kw": {}, "static_input_ps": {}}, name="SRC")
                edge = Obj(CORE + "Task2TaskEdge", {"source": Obj(CORE + "DatasetId", {"task": "s", "output": "0"}, frozen=True), "sink_task": "t", "sink_input_kw": "a", "sink_input_ps": None})
                job = Obj(CORE + "JobInstance", {"tasks": {"s": SRC, "t": TI}, "edges": [edge], "ext_outputs": [], "serdes": {}}, name="JOB")
                bad = None
                for p in Interp(repo, max_concrete_iter=8).explore(fi, args={"self": job}):
                    if p.exit[0] != "return":
                        continue
                    t2 = None
                    for e in p.effects:
                        for v in e.data.values():
                            if isinstance(v, Obj) and v.name == "TASK":
                                t2 = v
                    rvj = p.exit[1]
                    tt = (rvj.fields.get("tasks") or {}).get("t") if isinstance(rvj, Obj) else None
                    for cand in (t2, tt):
                        if isinstance(cand, Obj) and (cand.fields.get("static_input_kw") != {"a": 1, "b": 2} or cand.fields.get("static_input_ps") != {"0": 7}):
                            bad = cand
                if bad is not None:
                    ctx.violation("C19.R7", fi.qual, loc(fi), "a finished job's bound values are left alone",
                                  f"{ci.name}.{mname} runs on a job whose task t has a=1, b=2 bound by keyword, 7 at position 0 and a keyword edge into `a`: afterwards the task holds "
                                  f"kw={vkey(bad.fields.get('static_input_kw'))} ps={vkey(bad.fields.get('static_input_ps'))} — values given through the builder are gone, and the "
                                  f"task object is shared with the builder and with jobs built earlier from it")
                else:
                    ctx.ok("C19.R7", loc(fi), f"{ci.name}.{mname}: bound values of the job's tasks unchanged")
                continue
            if cname != "Task2TaskEdge" or mname in ("__init__", "__new__"):
                ctx.undecided("C19.R7", loc(fi), f"{ci.name}.{mname} is a construction hook the rule has no model input for")
                continue
            datas = [{"source": Obj(CORE + "DatasetId", {"task": "s", "output": "0"}, frozen=True), "sink_task": "t", "sink_input_kw": kw, "sink_input_ps": ps}
                     for kw, ps in (("7", None), ("x", None), (None, 0))]
            bad = None
            for d in datas:
                params = [p_ for p_ in fi.params if p_ not in ("cls", "self")]
                if not params:
                    continue
                for p in Interp(repo).explore(fi, args={params[0]: dict(d)}):
                    rv = p.exit[1] if p.exit[0] == "return" else None
                    if p.exit[0] != "return" or not isinstance(rv, dict) or {k: vkey(v) for k, v in rv.items()} != {k: vkey(v) for k, v in d.items()}:
                        bad = (d, p.exit[0], rv)
                        break
                if bad:
                    break
            if bad:
                ctx.violation("C19.R7", fi.qual, loc(fi), "edge fields stored as given",
                              f"{ci.name}.{mname} turns the edge fields kw={bad[0]['sink_input_kw']!r} ps={bad[0]['sink_input_ps']!r} into {vkey(bad[2])[:140]} ({bad[1]}): "
                              f"an edge bound by keyword must stay a keyword edge (positional edges are not validated against the parameter list)")
            else:
                ctx.ok("C19.R7", loc(fi), f"{ci.name}.{mname}: model inputs returned unchanged")
    if n == 0:
        ctx.ok("C19.R7", "src/cascade/low/core.py", "the job model classes define no validators / construction hooks: fields hold the constructor arguments")


RULES.append(r7_models_take_values_verbatim)


def r8_no_cross_call_state(ctx):
    """C19.R8: the builders keep no state between calls: no function of cascade.low.builders writes into a module-level container or
    rebinds a module global (a memo keyed by id(callable) hands a later callable the schema and default values of an earlier one; a
    cached dict of defaults is shared by every builder made from it)."""
    import ast as _ast
    from ..calls import MUTATORS
    repo = ctx.repo
    m = repo.module(B)
    glob = set()
    for st in m.tree.body:
        tg = []
        if isinstance(st, _ast.Assign):
            tg = st.targets
        elif isinstance(st, _ast.AnnAssign):
            tg = [st.target]
        for t in tg:
            if isinstance(t, _ast.Name):
                glob.add(t.id)
    n = bad = 0
    for fi in repo.all_funcs():
        if fi.module is not m:
            continue
        n += 1
        local = {a.arg for a in _ast.walk(fi.node) if isinstance(a, _ast.arg)}
        for node in _ast.walk(fi.node):
            hit = None
            if isinstance(node, _ast.Global):
                hit = f"declares `global {', '.join(node.names)}`"
            elif isinstance(node, _ast.Subscript) and isinstance(node.ctx, (_ast.Store, _ast.Del)) and isinstance(node.value, _ast.Name) and node.value.id in glob - local:
                hit = f"stores into the module-level container `{node.value.id}`"
            elif isinstance(node, _ast.Call) and isinstance(node.func, _ast.Attribute) and isinstance(node.func.value, _ast.Name) \
                    and node.func.value.id in glob - local and node.func.attr in MUTATORS:
                hit = f"mutates the module-level container `{node.func.value.id}` (.{node.func.attr})"
            if hit:
                bad += 1
                ctx.violation("C19.R8", fi.qual, loc(fi, node), "no state kept between builder calls",
                              f"{fi.qual} {hit}: what one call records is used by later calls, so a built task/job depends on earlier, unrelated calls")
                break
        else:
            continue
    ctx.floor("C19.R8.functions", n, 8)
    if not bad:
        ctx.ok("C19.R8", "src/cascade/low/builders.py", f"{n} builder functions: none writes module-level state")


RULES.append(r8_no_cross_call_state)


def r9_from_callable(ctx):
    """C19.R9: the task definition derived from a callable's signature lists exactly the keyword-bindable parameters, each with *its own*
    declared type and — if it has one — its own default; positional-only and variadic parameters are in neither.  Decided on a model
    signature `(first, /, *rest: list, factor: float, label: str = "x", **extra)` (inspect.signature modelled, the rest interpreted)."""
    from ..terms import ClassRef
    repo = ctx.repo
    fi = repo.func(f"{B}.TaskBuilder.from_callable")
    ctx.analysed(fi.qual)
    EMPTY = Sym("inspect.Parameter.empty")
    kinds = {k: Sym(f"inspect.Parameter.{k}") for k in ("POSITIONAL_ONLY", "POSITIONAL_OR_KEYWORD", "VAR_POSITIONAL", "KEYWORD_ONLY", "VAR_KEYWORD")}

    def par(name, kind, ann, default=EMPTY):
        return Obj("inspect.Parameter", {"name": name, "kind": kinds[kind], "annotation": ann, "default": default}, name=f"param:{name}")
    params = {"first": par("first", "POSITIONAL_ONLY", "bytes"), "rest": par("rest", "VAR_POSITIONAL", "list"), "factor": par("factor", "KEYWORD_ONLY", "float"),
              "label": par("label", "KEYWORD_ONLY", "str", "x"), "extra": par("extra", "VAR_KEYWORD", "dict")}
    sig = Obj("inspect.Signature", {"parameters": params, "return_annotation": "int"}, name="SIG")
    ip = Interp(repo, call_models={"inspect.signature": lambda run, a, k, n, f: sig, f"{CORE}TaskDefinition.func_enc": lambda run, a, k, n, f: "ENC"},
                inline=lambda f: f.qual.startswith(fi.qual + "."))
    paths = ip.explore(fi, args={"cls": ClassRef(f"{B}.TaskBuilder"), "f": Sym("F"), "environment": None})
    ctx.evals(len(paths))
    done = False
    for p in paths:
        rv = p.exit[1] if p.exit[0] == "return" else None
        if not isinstance(rv, Obj):
            continue
        f_ = {**rv.kwargs, **rv.fields}
        d = f_.get("definition")
        schema = ({**d.kwargs, **d.fields}.get("input_schema") if isinstance(d, Obj) else None)
        skw = f_.get("static_input_kw")
        done = True
        if schema != {"factor": "float", "label": "str"} or skw != {"label": "x"}:
            ctx.violation("C19.R9", fi.qual, loc(fi), "schema of a callable with positional-only / variadic parameters",
                          f"def f(first: bytes, /, *rest: list, factor: float, label: str = 'x', **extra: dict): input_schema = {vkey(schema)[:120]}, static_input_kw = "
                          f"{vkey(skw)[:80]}; expected {{'factor': 'float', 'label': 'str'}} and {{'label': 'x'}} — a parameter listed with another parameter's type makes the "
                          f"builder accept incompatible edges and refuse compatible ones")
        else:
            ctx.ok("C19.R9", loc(fi), "from_callable: keyword-bindable parameters only, each with its own type and default")
    if not done:
        ctx.undecided("C19.R9", loc(fi), f"from_callable on the model signature: {[(p.exit[0], vkey(p.exit[1])[:60]) for p in paths][:3]}")


RULES.append(r9_from_callable)


def r10_binding_entry_points(ctx):
    """C19.R10: the two entry points through which values enter a job keep them as given.
    (a) TaskBuilder.with_values(*args, **kwargs): every keyword the caller writes is a parameter name of the *task*; the method therefore
    must not declare named keyword parameters of its own — such a name would be taken out of **kwargs, the task's parameter of that name
    silently keeps its default and the caller's value switches an option of the builder instead.
    (b) JobBuilder.with_node(name, task): the job holds the task that was given, or one whose definition and bound values are the very same
    objects; a copy made through a serialised form (model_dump / dict / json) converts nested values (models and dataclasses become
    dicts) and the job no longer carries the values that were bound."""
    repo = ctx.repo
    fi = repo.func(f"{B}.TaskBuilder.with_values")
    ctx.analysed(fi.qual)
    a = fi.node.args
    own = [x.arg for x in a.args if x.arg not in ("self", "cls")] + [x.arg for x in a.kwonlyargs]
    if a.kwarg is None:
        ctx.undecided("C19.R10", loc(fi), "with_values takes no **kwargs: the rule's model of keyword binding does not apply")
    elif own:
        ctx.violation("C19.R10", fi.qual, loc(fi), "with_values binds every keyword to the task",
                      f"with_values declares the keyword parameter(s) {own} next to **kwargs: with_values({own[0]}=v) on a task whose callable has a parameter called "
                      f"{own[0]!r} does not bind it (the value is consumed by the builder), so the job carries the signature default instead of the value given")
    else:
        ctx.ok("C19.R10", loc(fi), "with_values: only *args / **kwargs — every keyword reaches the task's bound values")
    wn = repo.func(f"{B}.JobBuilder.with_node")
    ctx.analysed(wn.qual)
    n = 0
    for cls in (f"{B}.TaskBuilder", CORE + "TaskInstance"):
        flds = {"definition": Atom("DEF"), "static_input_kw": {"a": Atom("VALUE-A")}, "static_input_ps": {"0": Atom("VALUE-0")}}
        T = Obj(cls, dict(flds), name="TASK")
        for p in Interp(repo).explore(wn, args={"name": "n", "task": T}, env={"self.nodes": {}, "self.edges": []}):
            if p.exit[0] != "return":
                continue
            sets = [e for e in p.effects if e.kind == "call" and e.data.get("method") in ("set", "__setitem__", "update", "assoc") and e.data["args"]]
            stored = [x for e in sets for x in e.data["args"] if not isinstance(x, str)]
            if not stored:
                ctx.undecided("C19.R10", loc(wn), f"cannot see what with_node stores ({[e.brief()[:60] for e in sets]})")
                continue
            n += 1
            v = stored[-1]
            same = isinstance(v, Obj) and (v.name == "TASK" or all(vkey(({**v.kwargs, **v.fields}).get(k)) == vkey(x) for k, x in flds.items()))
            if not same:
                ctx.violation("C19.R10", wn.qual, loc(wn), "with_node stores the task given",
                              f"with_node(name, <{cls.rsplit('.', 1)[-1]} with bound values a=VALUE-A, 0=VALUE-0>) stores {vkey(v)[:140]}: not the task given nor one holding the "
                              f"same definition and value objects — a re-created task whose fields went through a serialised form carries converted values")
            else:
                ctx.ok("C19.R10", loc(wn), f"with_node keeps the {cls.rsplit('.', 1)[-1]} (or its very fields) as given")
    ctx.floor("C19.R10.with_node_paths", n, 2)


RULES.append(r10_binding_entry_points)
