"""Shared model values and rule fragments used by several properties."""
from __future__ import annotations

import ast
from collections import defaultdict

from ..evalx import AnyKeyDict
from ..interp import Interp
from ..lib import Scan, gtt, is_call, is_store, loc, unparse
from ..repo import AnalysisError, get_repo, walk_scope
from ..terms import Atom, EnumVal, Obj, Sym, Term, vkey

DSQ = "cascade.low.core.DatasetId"
WQ = "cascade.low.core.WorkerId"
SDS = "cascade.scheduler.core.DatasetStatus"


def ds(name="DS", task="T", output="0"):
    return Atom(name, cls=DSQ, task=task if not isinstance(task, str) else Atom(task), output=output)


def worker(host="H1", w="w0"):
    h = host if not isinstance(host, str) else Atom(host)
    return Obj(WQ, {"host": h, "worker": w}, name=f"W_{vkey(h)}_{w}", frozen=True)


def st(member):
    return EnumVal(SDS, member)


def ddict(factory, init=None):
    d = defaultdict(factory)
    if init:
        d.update(init)
    return d


_scan = None


def scan():
    global _scan
    if _scan is None:
        _scan = Scan(get_repo())
    return _scan


def base_name(call_or_attr) -> str | None:
    """`state.purging_queue.append(x)` -> 'state' (the Name at the root of the receiver)."""
    n = call_or_attr
    if isinstance(n, ast.Call):
        n = n.func
    while isinstance(n, (ast.Attribute, ast.Subscript)):
        n = n.value
    return n.id if isinstance(n, ast.Name) else None


def callers_of(repo, qual: str) -> list:
    """(fi, call node) for every syntactic call whose callee resolves to `qual` (incl. timer(F, k)(...))."""
    out = []
    short = qual.rsplit(".", 1)[-1]
    for fi in repo.all_funcs():
        for n in walk_scope(fi.node):
            if not isinstance(n, ast.Call):
                continue
            f = n.func
            if isinstance(f, ast.Call) and f.args and isinstance(f.func, (ast.Name, ast.Attribute)):
                if repo.resolve_expr(fi.module, f.func) == "cascade.low.tracing.timer":
                    f = f.args[0]
            if isinstance(f, ast.Name) and f.id == short:
                if repo.resolve_expr(fi.module, f) == qual:
                    out.append((fi, n))
            elif isinstance(f, ast.Attribute) and f.attr == short:
                q = repo.resolve_expr(fi.module, f)
                if q == qual:
                    out.append((fi, n))
                elif q is None and "." in qual:
                    # method call on an object: match by method name + owning class having that method
                    cls = qual.rsplit(".", 1)[0]
                    if cls in repo.classes:
                        out.append((fi, n))
    return out


def r_last_output_order(ctx):
    """Completion of a task is inferred from the publication of its *last* output.  The runner publishes a task's
    outputs in key-sorted order (runner.run: outputs.sort()), so `is_last_output_of` must name the greatest key in
    that same order, whatever the declaration order of the schema."""
    repo = ctx.repo
    rid = f"{ctx.pid}.LASTOUT"
    fi = repo.func("cascade.controller.notify.is_last_output_of")
    ctx.analysed(fi.qual)
    ip = Interp(repo)
    cases = [(["b", "a"], "b"), (["0", "1"], "1"), (["z", "m", "a"], "z"), (["0"], "0"), (["10", "9", "2"], "9")]
    for keys, last in cases:
        schema = {k: "Any" for k in keys}
        T = Atom("T")
        job = Obj("cascade.low.core.JobInstance", {"tasks": {T: Obj("cascade.low.core.TaskInstance", {
            "definition": Obj("cascade.low.core.TaskDefinition", {"output_schema": schema})})}})
        for k in keys:
            d = Atom(f"T.{k}", cls=DSQ, task=T, output=k)
            paths = ip.explore(fi, args={"dataset": d, "job": job})
            ctx.evals(len(paths))
            if len(paths) != 1 or paths[0].exit[0] != "return" or not isinstance(paths[0].exit[1], bool):
                ctx.undecided(rid, loc(fi), f"is_last_output_of not decidable on a concrete schema {keys}: {[p.exit for p in paths][:2]}")
                continue
            got = paths[0].exit[1]
            if got != (k == last):
                ctx.violation(rid, fi.qual, loc(fi), "last output order",
                              f"schema declared as {keys}: is_last_output_of(output {k!r}) = {got}, but the runner publishes in "
                              f"key-sorted order so the last publication is {last!r}; completion would be inferred at the wrong moment")
            else:
                ctx.ok(rid, loc(fi), f"schema {keys}: output {k!r} last={got}")
    # two jobs in one controller process that reuse a task name: no stale answer may survive
    T = Atom("T")
    mk = lambda keys: Obj("cascade.low.core.JobInstance", {"tasks": {T: Obj("cascade.low.core.TaskInstance", {
        "definition": Obj("cascade.low.core.TaskDefinition", {"output_schema": {k: "Any" for k in keys}})})}})
    p1 = ip.explore(fi, args={"dataset": Atom("T.0", cls=DSQ, task=T, output="0"), "job": mk(["0"])})
    if len(p1) == 1 and p1[0].exit[0] == "return":
        env2 = {k: v for k, v in p1[0].heap.items() if k.startswith("cascade.")}
        p2 = ip.explore(fi, env=env2, args={"dataset": Atom("T.0", cls=DSQ, task=T, output="0"), "job": mk(["0", "1"])})
        got = [p.exit[1] for p in p2 if p.exit[0] == "return"]
        if got != [False]:
            ctx.violation(rid, fi.qual, loc(fi), "last output per job",
                          f"job 1 declares task T with output ['0'], job 2 (same process) declares T with outputs ['0','1']: for job 2, is_last_output_of(T.0) = {vkey(got)} "
                          f"(must be False: an answer remembered from another job infers completion too early)")
        else:
            ctx.ok(rid, loc(fi), "no answer is carried over between jobs that reuse a task name")
    # the runner side of the contract: the outputs are stored (hence published) in plain key order — observed on the runner itself, wherever
    # the ordering is computed (in run, or in the context the worker builds for it)
    from .C10 import _explore_run, _task
    from ..stmts import _ConcreteIter
    run = repo.func("cascade.executor.runner.runner.run")
    for outs, order in ((("b", "a", "c"), ["a", "b", "c"]), (("10", "9", "2"), ["10", "2", "9"])):
        paths, _calls = _explore_run(repo, _task({}, {}, outs), {}, set(), lambda: _ConcreteIter(["r0", "r1", "r2"]))
        done = [p for p in paths if p.exit[0] == "return"]
        if len(done) != 1:
            ctx.undecided(rid, loc(run), f"runner.run on a task with outputs {outs}: {[p.exit[0] for p in paths]}")
            continue
        hs = [e.data["args"] for e in done[0].effects if is_call(e, qual="cascade.executor.runner.memory.Memory.handle")]
        got = [getattr(a_[0], "fields", {}).get("output") for a_ in hs if a_]
        if got != order:
            ctx.violation(rid, run.qual, loc(run), "runner output order",
                          f"outputs declared as {list(outs)}: the runner stores / publishes them in the order {got}; is_last_output_of infers completion from the greatest key in "
                          f"plain key order ({order[-1]!r}), which must be the last one published")
        else:
            ctx.ok(rid, loc(run), f"runner publishes outputs {list(outs)} in plain key order {order}")

def dsid(task, output="0"):
    """A DatasetId as the repo's own constructor would build it (structural equality)."""
    return Obj(DSQ, {"task": task, "output": output}, frozen=True)


def users_of(repo, qual: str) -> set:
    """qualified names of the functions that call *or reference* (e.g. in a dispatch table) the function `qual`."""
    short = qual.rsplit(".", 1)[-1]
    out = set()
    for fi in repo.all_funcs():
        if fi.qual == qual:
            continue
        for n in walk_scope(fi.node):
            if isinstance(n, ast.Name) and n.id == short and isinstance(n.ctx, ast.Load):
                if repo.resolve_expr(fi.module, n) == qual:
                    out.add(fi.qual)
            elif isinstance(n, ast.Attribute) and n.attr == short and isinstance(n.ctx, ast.Load):
                q = repo.resolve_expr(fi.module, n)
                cls = qual.rsplit(".", 1)[0]
                if q == qual or (q is None and cls in repo.classes):
                    out.add(fi.qual)
    # module-level tables referencing it
    for m in repo.modules.values():
        for st in m.tree.body:
            if isinstance(st, (ast.Assign, ast.AnnAssign)) and st.value is not None:
                for n in ast.walk(st.value):
                    if isinstance(n, ast.Name) and n.id == short and repo.resolve_expr(m, n) == qual:
                        out.add(f"{m.name}.<module>")
    return out


def helper_of(repo, qual: str, covered: set, depth: int = 3) -> bool:
    """True if `qual` is only used (transitively, up to `depth` levels) from functions in `covered` — i.e. it is a helper
    split off one of them.  Module-level tables count as users of the module's covered functions."""
    seen = set()
    todo = [(qual, 0)]
    while todo:
        q, d = todo.pop()
        if q in seen:
            continue
        seen.add(q)
        us = users_of(repo, q)
        if not us:
            return False
        for u in us:
            if u in covered or u.endswith(".<module>") and any(c.startswith(u[: -len("<module>")]) for c in covered):
                continue
            if d + 1 >= depth:
                return False
            todo.append((u, d + 1))
    return True


def model_elem(repo, cls_qual: str, field: str, values: tuple):
    """An element of the container field `cls.field` built the way the code declares it: a NamedTuple / dataclass instance if the
    annotation names one, else a plain tuple."""
    from ..terms import NTuple
    ci, ann = repo.field_ann(cls_qual, field)
    if ann is not None:
        for n in ast.walk(ann):
            if isinstance(n, (ast.Name, ast.Attribute)):
                q = repo.resolve_expr(ci.module, n)
                if q in repo.classes and q not in (DSQ, WQ):
                    c2 = repo.classes[q]
                    names = [st.target.id for st in c2.node.body if isinstance(st, ast.AnnAssign) and isinstance(st.target, ast.Name)]
                    if any(b.split(".")[-1] == "NamedTuple" for b in repo.class_mro(q)[1:]) and len(names) == len(values):
                        return NTuple(values, names, q)
                    if len(names) == len(values) and any("dataclass" in ast.unparse(d) for d in c2.node.decorator_list):
                        return Obj(q, dict(zip(names, values)), frozen=True)
    return tuple(values)


def model_coll(repo, cls_qual: str, field: str, items):
    """An initially populated 'set-like' field in the representation the class declares for it (set, or dict with True values)."""
    ci, ann = repo.field_ann(cls_qual, field)
    txt = ast.unparse(ann) if ann is not None else ""
    if txt.startswith(("dict", "Dict")):
        return {k: True for k in items}
    return set(items)


def host_entry(repo, sock, addr):
    return model_elem(repo, "cascade.executor.comms.ReliableSender", "hosts", (sock, addr))


def model_ret(repo, func_qual: str, values: tuple):
    """A return value of `func_qual` in the representation its return annotation declares (NamedTuple / dataclass / plain tuple)."""
    from ..terms import NTuple
    fi = repo.funcs.get(func_qual)
    ann = fi.node.returns if fi is not None else None
    if ann is not None:
        for n in ast.walk(ann):
            if isinstance(n, (ast.Name, ast.Attribute)):
                q = repo.resolve_expr(fi.module, n)
                if q in repo.classes:
                    c2 = repo.classes[q]
                    names = [st.target.id for st in c2.node.body if isinstance(st, ast.AnnAssign) and isinstance(st.target, ast.Name)]
                    if any(b.split(".")[-1] == "NamedTuple" for b in repo.class_mro(q)[1:]) and len(names) == len(values):
                        return NTuple(values, names, q)
                    if len(names) == len(values) and any("dataclass" in ast.unparse(d) for d in c2.node.decorator_list):
                        return Obj(q, dict(zip(names, values)))
    return tuple(values)


def lazy(module: str, rule: str, why: str):
    """A rule of another property's module, imported at call time (avoids import cycles); `why` says what it has to do with this property."""
    def run(ctx):
        import importlib
        getattr(importlib.import_module(f"sa.props.{module}"), rule)(ctx)
    run.__name__ = f"{rule}__from_{module}"
    run.__doc__ = f"{why} (rule {rule} of {module}, imported lazily)"
    return run


VALUE_TYPES = {"str", "int", "float", "bool", "bytes", "None", "TaskId", "HostId", "DatasetId", "WorkerId", "Type", "type"}


def memo_by_identity(ctx, rid: str, modules: tuple, why: str):
    """Functions of `modules` must not memoise on the identity of mutable arguments: (a) a caching decorator (functools.lru_cache / cache)
    on a function one of whose parameters is not declared as a plain value type — the cache then answers for *that object as it was at
    the first call* (a closure whose captured state changed, a callable re-created at a recycled address, a dict that was updated); (b) a
    write into a module-level container from inside a function (a hand-made memo).  `why` says what goes wrong for this property."""
    import ast as _ast
    from ..calls import MUTATORS
    repo = ctx.repo
    n = bad = 0
    for mn in modules:
        m = repo.modules.get(mn)
        if m is None:
            continue
        glob = set()
        for st_ in m.tree.body:
            tg = st_.targets if isinstance(st_, _ast.Assign) else [st_.target] if isinstance(st_, _ast.AnnAssign) else []
            for t in tg:
                if isinstance(t, _ast.Name) and isinstance(getattr(st_, "value", None), (_ast.Dict, _ast.List, _ast.Set, _ast.Call, _ast.DictComp)):
                    glob.add(t.id)
        for fi in repo.all_funcs():
            if fi.module is not m or isinstance(fi.node, _ast.Lambda):
                continue
            n += 1
            hit = None
            for d in fi.node.decorator_list:
                txt = _ast.unparse(d.func if isinstance(d, _ast.Call) else d)
                if txt.rsplit(".", 1)[-1] in ("lru_cache", "cache"):
                    a = fi.node.args
                    loose = []
                    for p in a.posonlyargs + a.args + a.kwonlyargs:
                        if p.arg in ("self", "cls"):
                            loose.append(p.arg)
                            continue
                        names = {x.id for x in _ast.walk(p.annotation) if isinstance(x, _ast.Name)} | {x.attr for x in _ast.walk(p.annotation) if isinstance(x, _ast.Attribute)} \
                            | {str(x.value) for x in _ast.walk(p.annotation) if isinstance(x, _ast.Constant)} if p.annotation is not None else {"<unannotated>"}
                        if not names <= VALUE_TYPES | {"Optional", "Union", "tuple", "frozenset", "Literal"}:
                            loose.append(f"{p.arg}: {_ast.unparse(p.annotation) if p.annotation is not None else '<unannotated>'}")
                    if loose or a.vararg or a.kwarg:
                        hit = (d, f"is memoised with @{txt} although its argument(s) {loose or ['*args/**kwargs']} are arbitrary objects: the cache is keyed by object "
                                  f"identity / hash and keeps answering with what that object was at the first call")
            local = {a_.arg for a_ in _ast.walk(fi.node) if isinstance(a_, _ast.arg)} | {t.id for x in _ast.walk(fi.node) if isinstance(x, _ast.Assign) for t in x.targets if isinstance(t, _ast.Name)}
            declared_global = {nm for x in _ast.walk(fi.node) if isinstance(x, _ast.Global) for nm in x.names}
            for node in _ast.walk(fi.node):
                if hit:
                    break
                if isinstance(node, _ast.Global):
                    hit = (node, f"declares `global {', '.join(node.names)}`")
                elif isinstance(node, _ast.Subscript) and isinstance(node.ctx, (_ast.Store, _ast.Del)) and isinstance(node.value, _ast.Name) and node.value.id in (glob - local) | declared_global:
                    hit = (node, f"stores into the module-level container `{node.value.id}`")
                elif isinstance(node, _ast.Call) and isinstance(node.func, _ast.Attribute) and isinstance(node.func.value, _ast.Name) \
                        and node.func.value.id in (glob - local) | declared_global and node.func.attr in MUTATORS:
                    hit = (node, f"mutates the module-level container `{node.func.value.id}` (.{node.func.attr})")
            if hit:
                bad += 1
                ctx.violation(rid, fi.qual, loc(fi, hit[0]), "no memo across calls", f"{fi.qual} {hit[1]}: {why}")
    ctx.floor(rid + ".functions", n, 5)
    if not bad:
        ctx.ok(rid, modules[0], f"{n} functions of {', '.join(modules)}: no caching decorator on object-typed arguments, no write into module-level containers")


def ctor_env(repo, cls_qual: str, args: dict, models: dict | None = None) -> dict:
    """`self.*` heap entries as the class's own `__init__` leaves them on the given arguments (parameters the rule does not know — added
    later — take their defaults): rules that explore a method on a hand-made `self` start from this and override what they model."""
    fi = repo.find_method(cls_qual, "__init__") if cls_qual in repo.classes else None
    if fi is None:
        return {}
    known = set(fi.params)
    try:
        ps = [p for p in Interp(repo, call_models=models or {}).explore(fi, args={k: v for k, v in args.items() if k in known}, defaults=True) if p.exit[0] == "return"]
    except AnalysisError:
        return {}
    if len(ps) != 1:
        return {}
    return {k: v for k, v in ps[0].heap.items() if k.startswith("self.")}


def mutable_defaults_untouched(ctx, rid: str, modules_prefix: tuple, why: str):
    """A parameter whose default is a mutable literal (`{}`, `[]`, `set()`, `dict()`, `list()`) is one object shared by every call that
    omits it: the function must not mutate it — directly (subscript store, `.setdefault/.update/.append/...`) or by handing it to a
    repository function that mutates the corresponding parameter (one level).  What one call leaves in it is seen by every later call."""
    import ast as _ast
    from ..calls import MUTATORS
    repo = ctx.repo

    def mutated_params(fi):
        """names of fi's parameters that fi mutates in place"""
        ps = set(fi.params)
        out = {}
        rebound = {t.id for x in walk_scope(fi.node) if isinstance(x, _ast.Assign) for t in x.targets if isinstance(t, _ast.Name)} | \
                  {x.target.id for x in walk_scope(fi.node) if isinstance(x, (_ast.AugAssign, _ast.AnnAssign)) and isinstance(x.target, _ast.Name)}
        for x in walk_scope(fi.node):
            nm = None
            if isinstance(x, _ast.Subscript) and isinstance(x.ctx, (_ast.Store, _ast.Del)) and isinstance(x.value, _ast.Name):
                nm = x.value.id
            elif isinstance(x, _ast.Call) and isinstance(x.func, _ast.Attribute) and isinstance(x.func.value, _ast.Name) and x.func.attr in MUTATORS:
                nm = x.func.value.id
            elif isinstance(x, _ast.AugAssign) and isinstance(x.target, _ast.Name) and isinstance(x.op, (_ast.Add, _ast.BitOr)):
                nm = x.target.id  # += / |= on a list / dict / set mutates in place
                if nm in ps and nm not in out:
                    out[nm] = x
                continue
            if nm in ps and nm not in rebound and nm not in out:
                out[nm] = x
        return out
    n = bad = 0
    for fi in repo.all_funcs():
        if not fi.module.name.startswith(modules_prefix) or isinstance(fi.node, _ast.Lambda):
            continue
        a = fi.node.args
        pos = a.posonlyargs + a.args
        dflt = {}
        for i, x in enumerate(pos):
            di = i - (len(pos) - len(a.defaults))
            if di >= 0:
                dflt[x.arg] = a.defaults[di]
        for x, d in zip(a.kwonlyargs, a.kw_defaults):
            if d is not None:
                dflt[x.arg] = d
        shared = {p for p, d in dflt.items() if isinstance(d, (_ast.Dict, _ast.List, _ast.Set)) or
                  (isinstance(d, _ast.Call) and isinstance(d.func, _ast.Name) and d.func.id in ("dict", "list", "set") and not d.args and not d.keywords)}
        if not shared:
            continue
        n += 1
        hit = None
        own = mutated_params(fi)
        for p in sorted(shared):
            if p in own:
                hit = (p, own[p], "mutates it in place")
                break
        if hit is None:
            for x in walk_scope(fi.node):
                if not isinstance(x, _ast.Call):
                    continue
                q = repo.resolve_expr(fi.module, x.func)
                callee = repo.funcs.get(q) if q else None
                if callee is None or isinstance(callee.node, _ast.Lambda):
                    continue
                cps = [c for c in callee.params if c not in ("self", "cls")] if callee.cls is not None else list(callee.params)
                cm = mutated_params(callee)
                for i, arg in enumerate(x.args):
                    if isinstance(arg, _ast.Name) and arg.id in shared and i < len(cps) and cps[i] in cm:
                        hit = (arg.id, x, f"hands it to {callee.qual.rsplit('.', 1)[-1]}(), which mutates its parameter `{cps[i]}` in place")
                for kw in x.keywords:
                    if kw.arg and isinstance(kw.value, _ast.Name) and kw.value.id in shared and kw.arg in cm:
                        hit = (kw.value.id, x, f"hands it to {callee.qual.rsplit('.', 1)[-1]}(), which mutates its parameter `{kw.arg}` in place")
                if hit:
                    break
        if hit:
            bad += 1
            ctx.violation(rid, fi.qual, loc(fi, hit[1]), "a shared default argument is not mutated",
                          f"{fi.qual}: parameter `{hit[0]}` defaults to a mutable literal (one object for every call that omits it) and the function {hit[2]}: {why}")
    ctx.floor(rid + ".functions_with_mutable_defaults", n, 3)
    if not bad:
        ctx.ok(rid, modules_prefix[0], f"{n} functions with a mutable default argument: none mutates it (directly or through a helper)")
