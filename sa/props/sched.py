"""Scheduler rules shared by C02 / C03 / C04."""
from __future__ import annotations

from ..interp import Interp
from ..lib import is_call, loc
from ..terms import Atom, Obj, vkey
from .common import ddict, ds, st, worker

ASSIGN = "cascade.scheduler.assign"
API = "cascade.scheduler.api"
STATUSES = ("missing", "preparing", "available")


def _ba_env(D, T, W, H1, H2, w, h, o):
    w2 = {D: st(w)} if w != "missing" else {}
    h2 = {D: st(h)} if h != "missing" else {}
    d2h = {}
    if h != "missing":
        d2h[H1] = st(h)
    if o != "missing":
        d2h[H2] = st(o)
    return {"state.edge_i": {T: {D}}, "state.worker2ds": ddict(dict, {W: w2}), "state.host2ds": ddict(dict, {H1: h2}),
            "state.ds2host": ddict(dict, {D: d2h}), "state.task_o": {T: set()}}


def r_transfer_source(ctx):
    """C02.R3 / C04.R5 GTT-exact on build_assignment: for every input of the task exactly one of — already at the worker,
    local prep, remote prep from a host whose status is `available`, or an error; never a silent skip, never a transfer
    from a host that does not hold the dataset; a host's `available` record is never downgraded."""
    repo = ctx.repo
    fi = repo.func(f"{ASSIGN}.build_assignment")
    ctx.analysed(fi.qual)
    rid = "C04.R5" if ctx.pid == "C04" else "C02.R3"
    D, T = ds("D", "P"), Atom("T")
    H1, H2 = Atom("H1"), Atom("H2")
    W = worker(H1)
    table = []
    ip = Interp(repo)
    for w in STATUSES:
        for h in STATUSES:
            for o in STATUSES:
                env = _ba_env(D, T, W, H1, H2, w, h, o)
                paths = ip.explore(fi, env=env, args={"worker": W, "task": T})
                ctx.evals(len(paths))
                if len(paths) != 1:
                    ctx.undecided(rid, loc(fi), f"build_assignment is not deterministic on a concrete model state ({len(paths)} paths; {paths[0].cond_text()})")
                    continue
                p = paths[0]
                if w in ("preparing", "available"):
                    want = ("prep", [])
                elif h in ("preparing", "available"):
                    want = ("prep", [(D, H1)])
                elif o == "available":
                    want = ("prep", [(D, H2)])
                else:
                    want = ("raise", None)
                if p.exit[0] == "raise":
                    got = ("raise", None)
                elif p.exit[0] == "return" and isinstance(p.exit[1], Obj):
                    got = ("prep", list(p.exit[1].fields.get("prep", p.exit[1].kwargs.get("prep", "?"))))
                else:
                    got = (p.exit[0], vkey(p.exit[1]))
                atoms = {"at_worker": w, "at_host": h, "at_other_host": o}
                table.append({**atoms, "outcome": vkey(got), "spec": vkey(want)})
                if got != want:
                    ctx.violation(rid, fi.qual, loc(fi), "input preparation decision",
                                  f"with the input {atoms} build_assignment yields {vkey(got)}; the property needs {vkey(want)} "
                                  f"(a transfer may only be commanded from a host holding the dataset, an unobtainable input must be an error)",
                                  row=atoms)
                else:
                    ctx.ok(rid, loc(fi), f"input preparation | {atoms} -> {vkey(want)}")
                if p.exit[0] == "return" and want == ("prep", [(D, H2)]):
                    d2h = p.heap.get("state.ds2host", {}).get(D, {}).get(H1)
                    h2d = p.heap.get("state.host2ds", {}).get(H1, {}).get(D)
                    if d2h is not st("preparing") or h2d is not st("preparing"):
                        ctx.violation(rid, fi.qual, loc(fi), "commanded transfer recorded in both views",
                                      f"{atoms}: after commanding a transfer to the worker's host, host2ds[H1][D]={vkey(h2d)} ds2host[D][H1]={vkey(d2h)}; both must be `preparing` "
                                      f"(the local-availability test reads host2ds: otherwise a second worker of that host commands a redundant transfer in the same round)", row=atoms)
                # downgrade check
                if p.exit[0] == "return":
                    after = p.heap.get("state.ds2host", {}).get(D, {})
                    for host, was in ((H1, h), (H2, o)):
                        if was == "available" and after.get(host) is not st("available"):
                            ctx.violation(rid, fi.qual, loc(fi), "ds2host downgrade",
                                          f"host {host} held the dataset (available) and is recorded as {after.get(host)} afterwards", row=atoms)
    ctx.table(rid, table)


def r_no_downgrade(ctx):
    """ds2host[ds][host] == available is never overwritten by `preparing` in scheduler.api._set_preparing_at
    (it is the only record from which transfer sources are chosen)."""
    repo = ctx.repo
    fi = repo.func(f"{API}._set_preparing_at")
    ctx.analysed(fi.qual)
    rid = f"{ctx.pid}.DS2HOST"
    D = ds("D", "P")
    H1 = Atom("H1")
    W = worker(H1)
    ip = Interp(repo)
    for cur in STATUSES:
        d2h = {H1: st(cur)} if cur != "missing" else {}
        env = {"state.host2ds": ddict(dict, {H1: dict(d2h)}), "state.ds2host": ddict(dict, {D: dict(d2h)}),
               "state.worker2ds": ddict(dict), "state.ds2worker": ddict(dict), "state.ts2component": {}}
        paths = ip.explore(fi, env=env, args={"dataset": D, "worker": W, "children": set()})
        ctx.evals(len(paths))
        for p in paths:
            if p.exit[0] != "return":
                ctx.violation(rid, fi.qual, loc(fi), "_set_preparing_at completes", f"_set_preparing_at ends with {p.exit[0]} {vkey(p.exit[1])[:60]} on a consistent state")
                continue
            after = p.heap.get("state.ds2host", {}).get(D, {}).get(H1)
            if cur == "available" and after is not st("available"):
                ctx.violation(rid, fi.qual, loc(fi), "ds2host downgrade in plan",
                              f"a host holding the dataset (available) is recorded as {after} after planning a no-op load: "
                              f"later transfers find no source")
            elif cur != "available" and after is not st("preparing"):
                ctx.violation(rid, fi.qual, loc(fi), "ds2host preparing mark",
                              f"ds2host not marked preparing (was {cur}, now {after})")
            else:
                ctx.ok(rid, loc(fi), f"ds2host[{D}][{H1}] {cur} -> {after}")


def r_assignment_outputs(ctx):
    """C02.R11: an assignment asks the worker to publish *every* output of the task — consumed, requested or neither: completion of the
    task is inferred from the publication of its last output (key order), so an output trimmed from the publish set can keep the task
    'running' for ever, and its worker busy."""
    repo = ctx.repo
    fi = repo.func(f"{ASSIGN}.build_assignment")
    ctx.analysed(fi.qual)
    T = Atom("T")
    W = worker(Atom("H1"))
    O0, O1, O2 = ds("O0", T, "0"), ds("O1", T, "1"), ds("O2", T, "2")
    env = {"state.edge_i": {T: set()}, "state.worker2ds": {W: {}}, "state.host2ds": {Atom("H1"): {}}, "state.ds2host": {},
           "state.task_o": {T: {O0, O1, O2}}, "state.edge_o": {O0: {Atom("C")}, O1: set()}, "state.outputs": {O1: None}}
    paths = Interp(repo).explore(fi, env=env, args={"worker": W, "task": T})
    ctx.evals(len(paths))
    for p in paths:
        rv = p.exit[1] if p.exit[0] == "return" else None
        outs = rv.fields.get("outputs", rv.kwargs.get("outputs")) if isinstance(rv, Obj) else None
        names = sorted(getattr(o, "name", vkey(o)) for o in outs) if isinstance(outs, (set, list, tuple, frozenset)) else None
        if names != ["O0", "O1", "O2"]:
            ctx.violation("C02.R11", fi.qual, loc(fi), "every output of the task is published",
                          f"task with outputs O0 (consumed), O1 (requested by the user), O2 (neither; last in key order): the assignment publishes {names}; expected all "
                          f"three — the controller waits for the publication of O2 to consider the task complete")
        else:
            ctx.ok("C02.R11", loc(fi), "assignment outputs = all outputs of the task")
