"""Rules on the shared-memory store (cascade.shm.dataset / disk / algorithms), shared by C08, C09 and C05."""
from __future__ import annotations

import ast

from ..interp import Interp
from ..lib import is_call, loc
from ..repo import walk_scope
from ..terms import App, Atom, BoundMethod, Closure, EnumVal, Obj, Partial, Sub, Sym, mentions, subterms, vkey
from .common import callers_of, scan

DS = "cascade.shm.dataset"
SST = f"{DS}.DatasetStatus"
STATES = ("created", "in_memory", "paging_out", "on_disk", "paged_in")
NOW = 10 ** 13
OLD = NOW - 10 ** 12  # older than the 15-minute staleness windows (9e11 ns)


def sst(m):
    return EnumVal(SST, m)


def dset(status="in_memory", size=4, readers=None, created=NOW - 5, name="d", delayed=False, rf=0, rl=0):
    return Obj(f"{DS}.Dataset", {"shmid": f"shm-{name}", "size": size, "status": sst(status), "created": created,
                                 "ongoing_reads": dict(readers or {}), "retrieved_first": rf, "retrieved_last": rl,
                                 "deser_fun": "df", "delayed_purge": delayed}, name=name)


INL = lambda f: f.qual.startswith(f"{DS}.Manager.") or f.qual.startswith(f"{DS}.Dataset.")
MODELS = {"time.time_ns": lambda run, a, k, n, f: NOW}


def final_ds(p, name):
    for e in p.effects:
        for v in e.data.values():
            if isinstance(v, Obj) and v.name == name:
                return v
    d = p.heap.get("self.datasets")
    if isinstance(d, dict):
        for v in d.values():
            if isinstance(v, Obj) and v.name == name:
                return v
    return None


# ---------------------------------------------------------------------------------- C08
def r_add(ctx):
    """C08.R1: admission table of Manager.add over all orderings of size / free space / capacity and key presence."""
    repo = ctx.repo
    fi = repo.func(f"{DS}.Manager.add")
    ctx.analysed(fi.qual)
    table = []
    cap = 10
    for present in (False, True):
        for free in (10, 4, 0):
            for size in (0, 3, 4, 5, 10, 11, 12):
                datasets = {"k": dset(name="old")} if present else {}
                env = {"self.datasets": datasets, "self.capacity": cap, "self.free_space": free, "self.prefix": "p"}
                ip = Interp(repo, call_models=MODELS)
                paths = ip.explore(fi, env=env, args={"key": "k", "size": size, "deser_fun": "df"})
                ctx.evals(len(paths))
                atoms = {"key_present": present, "capacity": cap, "free_space": free, "size": size}
                if len(paths) != 1 or paths[0].exit[0] != "return":
                    ctx.undecided("C08.R1", loc(fi), f"Manager.add not deterministic on {atoms}: {[p.exit[0] for p in paths]}")
                    continue
                p = paths[0]
                rv = p.exit[1]
                f_after = p.heap["self.free_space"]
                d_after = p.heap["self.datasets"]
                po = [e for e in p.effects if is_call(e, qual=f"{DS}.Manager.page_out_at_least")]
                if present:
                    want = ("conflict", free, False, False)
                elif size > cap:
                    want = ("capacity exceeded", free, False, False)
                elif size > free:
                    want = ("wait", free, False, True)
                else:
                    want = ("", free - size, True, False)
                created = (not present) and "k" in d_after
                err = rv[1] if isinstance(rv, tuple) and len(rv) == 2 else vkey(rv)
                got = (err, f_after, created, bool(po))
                table.append({**atoms, "answer": err, "free_after": f_after, "created": created, "evict": bool(po)})
                if got != want:
                    ctx.violation("C08.R1", fi.qual, loc(fi), "admission decision",
                                  f"{atoms}: add answers {err!r}, free_space afterwards {vkey(f_after)}, dataset created={created}, eviction triggered={bool(po)}; "
                                  f"expected answer {want[0]!r}, free {want[1]}, created={want[2]}, eviction={want[3]} — a request that does not fit must "
                                  f"never be granted and granted space must be reserved", row=atoms)
                else:
                    if created:
                        d = d_after["k"]
                        if d.fields.get("size") != size or d.fields.get("status") is not sst("created") or d.fields.get("ongoing_reads") != {}:
                            ctx.violation("C08.R1", fi.qual, loc(fi), "new dataset record", f"{atoms}: dataset recorded as {vkey(d.fields)[:160]}", row=atoms)
                            continue
                        if rv[0] == "":
                            ctx.violation("C08.R1", fi.qual, loc(fi), "granted segment id", f"{atoms}: grant without a segment id", row=atoms)
                            continue
                    if po and po[0].data["args"][:1] != [size - free]:
                        ctx.violation("C08.R1", fi.qual, loc(fi), "eviction amount", f"{atoms}: asks to evict {vkey(po[0].data['args'])}, needs {size - free}", row=atoms)
                        continue
                    ctx.ok("C08.R1", loc(fi), f"admission | {atoms} -> {want[0]!r}")
    ctx.table("C08.R1", table)


def r_segment_name(ctx):
    """C09.R12: the segment a key's bytes live in is named after the key (and only recorded once): the name stored in the
    dataset record is the one handed to the writer, and it is computed from the key, so two keys never share a segment."""
    repo = ctx.repo
    fi = repo.func(f"{DS}.Manager.add")
    ctx.analysed(fi.qual)
    rid = "C09.R12"
    env = {"self.datasets": {}, "self.capacity": 10, "self.free_space": 10, "self.prefix": "p"}
    paths = Interp(repo, call_models=MODELS).explore(fi, env=env, args={"key": Sym("key"), "size": 3, "deser_fun": "df"})
    ctx.evals(len(paths))
    granted = [p for p in paths if p.exit[0] == "return" and isinstance(p.exit[1], tuple) and len(p.exit[1]) == 2 and p.exit[1][1] == ""]
    if not granted:
        ctx.undecided(rid, loc(fi), f"no granting path of Manager.add on a symbolic key: {[(p.exit[0], vkey(p.exit[1])[:60]) for p in paths]}")
        return
    for p in granted:
        name = p.exit[1][0]
        recs = [v for v in (p.heap.get("self.datasets") or {}).values() if isinstance(v, Obj)]
        if len(recs) != 1 or vkey(recs[0].fields.get("shmid")) != vkey(name):
            ctx.violation(rid, fi.qual, loc(fi), "name handed out = name recorded", f"add returns segment {vkey(name)[:90]} but records "
                          f"{[vkey(r.fields.get('shmid'))[:90] for r in recs]}: readers would attach a different segment than the writer filled")
            return
        # key dependence: the name mentions the key, or a hash object in it was fed the key before being read
        dep = mentions(name, "key")
        if not dep:
            hs = [t for t in subterms(name) if isinstance(t, App) and t.uid is not None]
            for e in p.effects:
                if e.kind == "call" and e.data.get("method") in ("update",) and any(vkey(e.data.get("recv")) == vkey(h) for h in hs) \
                        and any(mentions(a, "key") for a in e.data["args"]):
                    dep = True
        if not dep:
            ctx.violation(rid, fi.qual, loc(fi), "segment name derived from the key", f"the segment name {vkey(name)[:100]} does not depend on the key: "
                          f"every dataset would be written to the same shared-memory segment")
            return
        from ..terms import Sub as _Sub
        cut = [t for t in subterms(name) if isinstance(t, _Sub) and vkey(t.base) in ("key", "str(key)")]
        if cut:
            ctx.violation(rid, fi.qual, loc(fi), "segment name identifies the key",
                          f"on the path where {', '.join(f'{d.key[:40]}={d.value}' for d in p.decisions[-2:])} the segment name {vkey(name)[:100]} contains only a piece of the key "
                          f"({vkey(cut[0])[:40]}): two keys that agree on that piece share one segment and one spill file, and a reader of the first gets the bytes of the "
                          f"second — a truncated *digest* of the whole key is fine, a truncated key is not")
            return
        if not mentions(name, "self.prefix") and "'p'" not in vkey(name):
            ctx.violation(rid, fi.qual, loc(fi), "segment name carries the store prefix", f"the segment name {vkey(name)[:100]} lacks the store's prefix "
                          f"(stores of different hosts on one machine would collide)")
            return
    ctx.ok(rid, loc(fi), "segment name: recorded == returned, derived from the key and the prefix")


def r_get_pagein(ctx):
    """C08.R2 / C09.R1: Manager.get per status: only an in-memory dataset is handed out (a reader is registered); an on-disk
    dataset is paged in only if it fits, and then its space is reserved at once; everything else answers 'wait'."""
    repo = ctx.repo
    fi = repo.func(f"{DS}.Manager.get")
    ctx.analysed(fi.qual)
    rid = "C08.R2" if ctx.pid == "C08" else "C09.R1"
    table = []
    for status in STATES:
        for free in (10, 4, 3):
            d = dset(status, size=4, name="d")
            env = {"self.datasets": {"k": d}, "self.free_space": free, "self.capacity": 10}
            ip = Interp(repo, call_models=MODELS, inline={f"{DS}.Manager.page_in"})
            paths = ip.explore(fi, env=env, args={"key": "k"})
            ctx.evals(len(paths))
            atoms = {"status": status, "size": 4, "free_space": free}
            for p in paths:
                if p.exit[0] != "return":
                    ctx.violation(rid, fi.qual, loc(fi), f"get completes in state {status}", f"{atoms}: Manager.get ends with {p.exit[0]} {vkey(p.exit[1])[:80]} instead of answering", row=atoms)
                    continue
                rv = p.exit[1]
                if not (isinstance(rv, tuple) and len(rv) == 5):
                    ctx.undecided(rid, loc(fi), f"Manager.get returns {vkey(rv)[:80]} on {atoms}: not a (shmid, size, rdid, deser_fun, error) tuple the rule can read")
                    continue
                da = final_ds(p, "d") or d
                f_after = p.heap["self.free_space"]
                granted = isinstance(rv, tuple) and rv[0] != ""
                sub = [e for e in p.effects if e.kind == "call" and e.data.get("method") == "page_in" and e.data.get("field", "") and e.data["field"].endswith("Manager.disk")]
                evict = [e for e in p.effects if is_call(e, qual=f"{DS}.Manager.page_out_at_least")]
                table.append({**atoms, "granted": granted, "status_after": vkey(da.fields["status"]), "free_after": f_after, "page_in": bool(sub)})
                if status == "in_memory":
                    okk = granted and rv[0] == "shm-d" and rv[1] == 4 and len(da.fields["ongoing_reads"]) == 1 and rv[4] == "" and f_after == free
                    what = "handed out with a registered reader"
                    if okk and (list(da.fields["ongoing_reads"].values()) != [NOW] or da.fields["retrieved_last"] != NOW):
                        ctx.violation(rid, fi.qual, loc(fi), "reader timestamp clock",
                                      f"{atoms}: the reader is registered with timestamp {vkey(list(da.fields['ongoing_reads'].values()))} / retrieved_last {vkey(da.fields['retrieved_last'])}, not with "
                                      f"time.time_ns() — the eviction predicate compares reader ages against time.time_ns(), so every open read would look stale (or eternal)", row=atoms)
                        continue
                elif status == "on_disk" and free >= 4:
                    okk = (not granted) and rv[4] == "wait" and da.fields["status"] is sst("paged_in") and f_after == free - 4 and len(sub) == 1
                    what = "page-in issued, space reserved at once, answer wait"
                elif status == "on_disk":
                    okk = (not granted) and rv[4] == "wait" and da.fields["status"] is sst("on_disk") and f_after == free and not sub and len(evict) == 1
                    what = "does not fit: eviction requested, answer wait, nothing reserved"
                else:
                    okk = (not granted) and rv[4] == "wait" and da.fields["status"] is sst(status) and f_after == free and not sub
                    what = "transitional state: answer wait"
                if not okk:
                    ctx.violation(rid, fi.qual, loc(fi), f"get in state {status}",
                                  f"{atoms}: get returns {vkey(rv)[:100]}, status afterwards {vkey(da.fields['status'])}, free_space {free}->{vkey(f_after)}, "
                                  f"page-in jobs {len(sub)}; expected: {what}", row=atoms)
                else:
                    ctx.ok(rid, loc(fi), f"get | {atoms} -> {what}")
    ctx.table(rid, table)


def _closure_paths(repo, parent, env, locals_, ok, extra_inline=(), between=None):
    """Explore the completion callback that Manager.<parent>(key) hands to the disk pool, with the variables it captured
    at submission (found by exploring the parent on the model store — independent of how the locals are called)."""
    pfi = repo.func(f"{DS}.Manager.{parent}")
    env0 = dict(env)
    d = env0["self.datasets"]["k"]
    d.fields["status"] = sst("in_memory" if parent == "page_out" else "on_disk")
    if parent == "page_in":
        env0["self.free_space"] = env0.get("self.free_space", 0) + d.fields["size"]
    pp = Interp(repo, call_models=MODELS).explore(pfi, env=env0, args={"key": "k"})
    cb = None
    heap = None
    for p in pp:
        for e in p.effects:
            if e.kind == "call" and e.data.get("method") == parent and (e.data.get("field") or "").endswith("Manager.disk"):
                for a in e.data["args"]:
                    if isinstance(a, (Closure, Partial)):
                        cb, heap = a, p.heap
    if cb is None:
        from ..repo import AnalysisError

        raise AnalysisError(f"Manager.{parent} does not submit a disk job with a completion callback on the model store")
    env2 = {k: v for k, v in heap.items() if k.startswith("self.")}
    for k in ("self.pageout_count",):
        if k in env:
            env2[k] = env[k]
    ip = Interp(repo, call_models=MODELS, inline=lambda f: f.qual == f"{DS}.Manager.purge" or f.qual in extra_inline)
    swap = None
    if between is not None:
        # another request is served between the submission of the job and its completion: the completion runs on the state that request left
        env2, swap = between(env2)

    def _sw(v):
        return swap if (swap is not None and isinstance(v, Obj) and v.name == swap.name) else v
    if isinstance(cb, Partial):
        cb = Partial(cb.fn, [_sw(a) for a in cb.args], {k: _sw(v) for k, v in cb.kwargs.items()})
        # functools.partial(self.<method>, captured...): the completion handler is a method; its last parameter is the outcome
        tgt = cb.fn
        tfi = tgt.fi if isinstance(tgt, BoundMethod) and tgt.fi is not None else (tgt.fi if hasattr(tgt, "fi") else None)
        if tfi is None:
            from ..repo import AnalysisError
            raise AnalysisError(f"completion handler of Manager.{parent} is not resolvable: {vkey(tgt)}")
        names = [p_ for p_ in tfi.params if p_ != "self"]
        args = dict(zip(names, list(cb.args)))
        args.update(cb.kwargs)
        free = [n_ for n_ in names if n_ not in args]
        if len(free) != 1:
            from ..repo import AnalysisError
            raise AnalysisError(f"cannot tell the outcome parameter of {tfi.qual}: free parameters {free}")
        args[free[0]] = ok
        return tfi, ip.explore(tfi, env=env2, args=args)
    cl = {k: _sw(c.value) for k, c in cb.frame.locals.items()}
    cl.setdefault("self", Sym("self"))
    return cb.fi, ip.explore(cb.fi, env=env2, args={"ok": ok}, closure_locals=cl)


def _lock_reentry(p):
    held = []
    for e in p.effects:
        if e.kind == "with_enter" and (e.data.get("field") or "").endswith(("Manager.pageout_one", "Manager.pageout_all")):
            if e.data["field"] in held:
                return e
            held.append(e.data["field"])
        elif e.kind == "with_exit" and e.data.get("field") in held:
            held.remove(e.data["field"])
    return None


def r_pageout_callback(ctx):
    """C08.R3 / C09.R7: completion of a page-out job — success: dataset on_disk, its size credited exactly once; failure: dataset
    purged, its size credited exactly once; the job counter drops by one and the eviction lock is released when it reaches
    zero; the non-reentrant counter lock is never taken twice on one path."""
    repo = ctx.repo
    rid = f"{ctx.pid}.PAGEOUT"
    for ok in (True, False):
        for count in (1, 2):
            d = dset("paging_out", size=4, name="d")
            env = {"self.datasets": {"k": d}, "self.free_space": 3, "self.pageout_count": count}
            fi, paths = _closure_paths(repo, "page_out", env, {"ds": d, "key": "k", "self": Sym("self")}, ok)
            ctx.analysed(fi.qual)
            ctx.evals(len(paths))
            atoms = {"job_ok": ok, "jobs_outstanding": count}
            for p in paths:
                if any(e.kind == "raise" and e.data.get("implicit") and "SharedMemory" in vkey(e.data.get("value")) for e in p.effects):
                    continue
                re = _lock_reentry(p)
                if re is not None:
                    ctx.violation(rid, fi.qual, loc(fi, re.node), "lock re-entry",
                                  f"{atoms}: {re.data['field'].rsplit('.', 1)[-1]} (a non-reentrant threading.Lock) is acquired while already held on this path: "
                                  f"the disk thread deadlocks, the space is never credited and the eviction lock is never released", row=atoms)
                    continue
                if p.exit[0] != "return":
                    ctx.undecided(rid, loc(fi), f"page-out callback raises on {atoms}: {vkey(p.exit[1])[:100]}")
                    continue
                free, cnt = p.heap["self.free_space"], p.heap["self.pageout_count"]
                rel = [e for e in p.effects if e.kind == "call" and e.data.get("method") == "release" and (e.data.get("field") or "").endswith("Manager.pageout_all")]
                da = final_ds(p, "d")
                still = "k" in p.heap["self.datasets"]
                if free != 7:
                    ctx.violation(rid, fi.qual, loc(fi), "space credited exactly once",
                                  f"{atoms}: free_space 3 -> {vkey(free)} after a dataset of size 4 left shared memory (expected 7): "
                                  f"{'crediting twice lets the store hand out more than its capacity' if isinstance(free, int) and free > 7 else 'the space is lost'}", row=atoms)
                elif cnt != count - 1 or (len(rel) == 1) != (count == 1):
                    ctx.violation(rid, fi.qual, loc(fi), "job counter / eviction lock",
                                  f"{atoms}: pageout_count {count}->{vkey(cnt)}, eviction lock released {len(rel)}x (must drop by one and release exactly when it reaches 0)", row=atoms)
                elif ok and (not still or da.fields["status"] is not sst("on_disk")):
                    ctx.violation(rid, fi.qual, loc(fi), "status after page-out", f"{atoms}: dataset status {vkey(da.fields['status']) if da else '?'} / still tracked={still}", row=atoms)
                elif (not ok) and still:
                    ctx.violation(rid, fi.qual, loc(fi), "failed page-out purged", f"{atoms}: a dataset whose page-out failed stays in the table", row=atoms)
                else:
                    ctx.ok(rid, loc(fi), f"page-out completion | {atoms}")


def r_purge_races_pageout(ctx):
    """C08.R8: a purge served while the dataset's page-out job is still running.  The disk thread unlinks the segment before it reports
    completion, so the purge finds the dataset in `paging_out` with its segment either still there or already gone.  History on the model
    store (size 4, free space 3): page_out submitted -> purge(key) [segment gone: opening it raises FileNotFoundError] -> the job's
    completion(ok=True).  Whatever the purge does, the dataset's size is credited exactly once over the whole history."""
    repo = ctx.repo
    rid = f"{ctx.pid}.R8" if ctx.pid in ("C08",) else f"{ctx.pid}.PURGERACE"
    pfi = repo.func(f"{DS}.Manager.purge")
    ctx.analysed(pfi.qual)
    seen = {}

    def between(env2):
        ip = Interp(repo, call_models=MODELS, raising=lambda d: "builtins.FileNotFoundError" if d["name"].rsplit(".", 1)[-1] == "SharedMemory" else None)
        ps = [p for p in ip.explore(pfi, env=env2, args={"key": "k", "is_exit": False})
              if any(e.kind == "raise" and e.data.get("from_call") for e in p.effects)]
        if len(ps) != 1 or ps[0].exit[0] not in ("return", "raise"):  # a purge that reports the failure to its caller is as good as one that logs it
            from ..repo import AnalysisError
            raise AnalysisError(f"purge with a vanished segment: {[(p.exit[0], vkey(p.exit[1])[:60]) for p in ps]}")
        p = ps[0]
        seen["free_after_purge"] = p.heap.get("self.free_space")
        seen["tracked_after_purge"] = "k" in p.heap.get("self.datasets", {})
        d3 = final_ds(p, "d")
        return {k: v for k, v in p.heap.items() if k.startswith("self.")}, d3

    d = dset("paging_out", size=4, name="d")
    env = {"self.datasets": {"k": d}, "self.free_space": 3, "self.pageout_count": 1}
    fi, paths = _closure_paths(repo, "page_out", env, {"ds": d, "key": "k", "self": Sym("self")}, True, between=between)
    ctx.analysed(fi.qual)
    ctx.evals(len(paths))
    n = 0
    for p in paths:
        if p.exit[0] != "return":
            continue
        n += 1
        free = p.heap["self.free_space"]
        if free != 7:
            ctx.violation(rid, pfi.qual, loc(pfi), "purge racing a finished page-out",
                          f"dataset of size 4 being paged out, free space 3; the disk thread has already unlinked the segment when purge(key) is served (free space "
                          f"afterwards {vkey(seen.get('free_after_purge'))}, still tracked={seen.get('tracked_after_purge')}), then the job reports success: free space ends at "
                          f"{vkey(free)} (expected 7) — {'the size is credited twice, the store now grants more than its capacity' if isinstance(free, int) and free > 7 else 'the space is lost'}")
        else:
            ctx.ok(rid, loc(pfi), "page_out -> purge (segment already gone) -> completion: the size is credited exactly once")
    ctx.floor(rid + ".histories", n, 1)


def r_pageout_failed_with_reader(ctx):
    """C08.R3b: a page-out job that fails while a reader is still registered (a stale reader made the dataset evictable): the purge of the bad dataset
    is deferred to the reader's close, so the dataset is still resident when the callback returns — its size must not be credited yet (it is credited
    when the deferred purge finally unlinks the segment)."""
    repo = ctx.repo
    rid = f"{ctx.pid}.PAGEOUT"
    d = dset("paging_out", size=4, name="d", readers={"r": OLD})
    env = {"self.datasets": {"k": d}, "self.free_space": 3, "self.pageout_count": 1}
    fi, paths = _closure_paths(repo, "page_out", env, {"ds": d, "key": "k", "self": Sym("self")}, False)
    ctx.evals(len(paths))
    n = 0
    for p in paths:
        if p.exit[0] != "return" or _lock_reentry(p) is not None:
            continue
        if any(e.kind == "raise" and e.data.get("implicit") and "SharedMemory" in vkey(e.data.get("value")) for e in p.effects):
            continue
        n += 1
        free = p.heap["self.free_space"]
        still = "k" in p.heap["self.datasets"]
        want = 3 if still else 7
        if free != want:
            ctx.violation(rid, fi.qual, loc(fi), "failed page-out of a dataset that is still being read",
                          f"page-out job failed, a reader is still registered: the dataset is {'kept (purge deferred to the reader)' if still else 'dropped'} and free_space goes "
                          f"3 -> {vkey(free)} (expected {want}): crediting the size of a dataset that is still resident lets the store hand out more than its capacity")
        else:
            ctx.ok(rid, loc(fi), f"failed page-out with a registered reader: dataset {'kept' if still else 'dropped'}, free space {want}")
    ctx.floor(rid + ".failed_with_reader_paths", n, 1)


def r_pagein_callback(ctx):
    """page-in completion: success -> in_memory (space was reserved at issue time, untouched now); failure -> purged and the
    reservation returned exactly once."""
    repo = ctx.repo
    rid = f"{ctx.pid}.PAGEIN"
    for ok in (True, False):
        d = dset("paged_in", size=4, name="d")
        env = {"self.datasets": {"k": d}, "self.free_space": 3}
        fi, paths = _closure_paths(repo, "page_in", env, {"ds": d, "key": "k", "self": Sym("self")}, ok)
        ctx.analysed(fi.qual)
        ctx.evals(len(paths))
        for p in paths:
            if _lock_reentry(p) is not None:
                ctx.violation(rid, fi.qual, loc(fi), "lock re-entry", f"page-in callback(ok={ok}) re-acquires a held non-reentrant lock")
                continue
            if p.exit[0] != "return":
                continue
            free = p.heap["self.free_space"]
            still = "k" in p.heap["self.datasets"]
            da = final_ds(p, "d")
            if ok and (free != 3 or not still or da.fields["status"] is not sst("in_memory")):
                ctx.violation(rid, fi.qual, loc(fi), "page-in success",
                              f"page-in finished: free_space 3->{vkey(free)}, status {vkey(da.fields['status']) if da else '?'} (space is reserved when the page-in is issued; "
                              f"completion must only flip the status to in_memory)")
            elif (not ok) and (free != 7 or still):
                ctx.violation(rid, fi.qual, loc(fi), "page-in failure", f"page-in failed: free_space 3->{vkey(free)} (expected 7), still tracked={still}")
            else:
                ctx.ok(rid, loc(fi), f"page-in completion ok={ok}")


def r_space_writers(ctx):
    """C08.R4: capacity / free_space are written only inside Manager (capacity only in __init__), and the server reports
    the manager's own free_space."""
    repo = ctx.repo
    n = 0
    for attr in _space_fields(repo) + ["capacity"]:
        for fi, node, kind, det in scan().attr_sites(attr, ("cascade.shm", "cascade.executor"), owner=f"{DS}.Manager"):
            if kind not in ("store", "aug"):
                continue
            n += 1
            inside = fi.qual.startswith(f"{DS}.Manager.")
            if not inside:
                ctx.violation("C08.R4", fi.qual, loc(fi, node), f"writer of {attr}", f"{fi.qual} writes Manager.{attr} from outside the Manager")
            elif attr == "capacity" and fi.name != "__init__":
                ctx.violation("C08.R4", fi.qual, loc(fi, node), "capacity changed", f"{fi.qual} changes the capacity after construction")
            else:
                ctx.ok("C08.R4", loc(fi, node), f"{attr} written inside Manager ({fi.name})")
    ctx.floor("C08.R4.sites", n, 6)
    srv = repo.func("cascade.shm.server.LocalServer.start")
    ctx.analysed(srv.qual)
    req = Obj("cascade.shm.api.FreeSpaceRequest", {})
    ip = Interp(repo, call_models={"cascade.shm.server.LocalServer.receive": lambda run, a, k, n, f: (req, "client")}, max_while=1)
    paths = ip.explore(srv)
    found = False
    for p in paths:
        for e in p.effects:
            if is_call(e, qual="cascade.shm.server.LocalServer.respond"):
                r = e.data["args"][0]
                if isinstance(r, Obj) and r.cls.endswith("FreeSpaceResponse"):
                    found = True
                    want_keys = {"self.manager.free_space"}
                    from ..interp import _prop_defs
                    g_, _s = _prop_defs(repo, f"{DS}.Manager", "free_space")
                    if g_ is not None:
                        from ..terms import Attr as _Attr
                        for q_ in Interp(repo).explore(g_, args={"self": _Attr(Sym("self"), "manager")}):
                            if q_.exit[0] == "return":
                                want_keys.add(vkey(q_.exit[1]))
                    if vkey(r.fields.get("free_space")) not in want_keys:
                        ctx.violation("C08.R4", srv.qual, loc(srv, e.node), "reported free space",
                                      f"the server reports {vkey(r.fields.get('free_space'))} instead of the manager's free_space")
                    else:
                        ctx.ok("C08.R4", loc(srv, e.node), "FreeSpaceResponse carries manager.free_space")
    if not found:
        ctx.undecided("C08.R4", loc(srv), "FreeSpaceRequest branch not found")


def _free_space_of(repo, p):
    """The store's free space at the end of path `p`: the stored field, or — if the tree computes it — what the property getter returns on that state."""
    if "self.free_space" in p.heap:
        return p.heap["self.free_space"]
    from ..interp import _prop_defs
    g_, _s = _prop_defs(repo, f"{DS}.Manager", "free_space")
    if g_ is None:
        return None
    qs = [q for q in Interp(repo).explore(g_, env={k: v for k, v in p.heap.items() if k.startswith("self.")}) if q.exit[0] == "return"]
    return qs[0].exit[1] if len(qs) == 1 else None


def _space_fields(repo):
    """The stored field(s) that carry the store's space accounting: `free_space` itself, or — if it is a property with a setter in this tree — the
    fields its setter writes (e.g. a `_used_space` counter)."""
    import ast as _ast
    from ..interp import _prop_defs
    g_, s_ = _prop_defs(repo, f"{DS}.Manager", "free_space")
    if g_ is None or s_ is None:
        return ["free_space"]
    out = [t.attr for n in _ast.walk(s_.node) if isinstance(n, (_ast.Assign, _ast.AugAssign)) for t in (n.targets if isinstance(n, _ast.Assign) else [n.target])
           if isinstance(t, _ast.Attribute) and isinstance(t.value, _ast.Name) and t.value.id == "self"]
    return sorted(set(out)) or ["free_space"]


def r_residency_pairing(ctx):
    """C08.R3 (sites): every += / -= on free_space sits in a function whose residency pairing is decided by a model rule."""
    covered = {f"{DS}.Manager.add", f"{DS}.Manager.page_in", f"{DS}.Manager.page_out.callback", f"{DS}.Manager.purge",
               f"{DS}.Manager.page_out", f"{DS}.Manager.page_in.callback", f"{DS}.Manager.get"}
    n = 0
    sites = [x for f_ in _space_fields(ctx.repo) for x in scan().attr_sites(f_, ("cascade.shm",), owner=f"{DS}.Manager")]
    for fi, node, kind, det in sites:
        if kind != "aug":
            continue
        n += 1
        from .common import helper_of as _helper_of
        if fi.qual in covered or _helper_of(ctx.repo, fi.qual, covered):
            ctx.ok("C08.R3", loc(fi, node), f"free_space {det} in {fi.qual.rsplit('Manager.', 1)[-1]} (pairing decided by a model rule)")
        else:
            ctx.undecided("C08.R3", loc(fi, node), f"new free_space update site in {fi.qual}: no pairing rule covers it")
    ctx.floor("C08.R3.sites", n, 4)


# ---------------------------------------------------------------------------------- C09
def r_pageoutable(ctx):
    repo = ctx.repo
    fi = repo.func(f"{DS}.Dataset.is_pageoutable")
    ctx.analysed(fi.qual)
    table = []
    for status in STATES:
        for created in ("fresh", "stale"):
            for readers in ("none", "fresh", "stale", "fresh+stale"):
                rd = {"none": {}, "fresh": {"r": NOW - 9}, "stale": {"r": OLD}, "fresh+stale": {"a": OLD, "b": NOW - 9}}[readers]
                me = dset(status, readers=rd, created=NOW - 5 if created == "fresh" else OLD)
                paths = Interp(repo).explore(fi, args={"self": me, "ref_time": NOW})
                ctx.evals(len(paths))
                want = (status == "created" and created == "stale") or (status == "in_memory" and readers in ("none", "stale"))
                got = [p.exit[1] for p in paths if p.exit[0] == "return"]
                atoms = {"status": status, "created": created, "readers": readers}
                table.append({**atoms, "pageoutable": vkey(got), "spec": want})
                if len(got) != 1 or bool(got[0]) != want:
                    ctx.violation("C09.R2", fi.qual, loc(fi), "eviction candidate predicate",
                                  f"{atoms}: is_pageoutable = {vkey(got)}, must be {want} (only a finished dataset without a fresh reader, or a stale "
                                  f"unfinished one, may be evicted)", row=atoms)
                else:
                    ctx.ok("C09.R2", loc(fi), f"is_pageoutable | {atoms} -> {want}")
    ctx.table("C09.R2", table)


def r_eviction_flow(ctx):
    """C09.R3 / R7: page_out_at_least offers exactly the pageoutable datasets to the lottery, pages out exactly the winners, sets the
    job counter to their number, and — when it holds the eviction lock — either submits at least one job or releases the lock."""
    repo = ctx.repo
    fi = repo.func(f"{DS}.Manager.page_out_at_least")
    ctx.analysed(fi.qual)
    cs = callers_of(repo, f"{DS}.Manager.page_out")
    bad = [c for c in cs if c[0].qual != fi.qual and c[1].func.attr == "page_out" and isinstance(c[1].func.value, ast.Name) and c[1].func.value.id == "self"]
    if bad:
        ctx.violation("C09.R3", bad[0][0].qual, loc(*bad[0]), "page_out caller", f"{bad[0][0].qual} calls Manager.page_out directly, bypassing the eviction-candidate filter")
    else:
        ctx.ok("C09.R3", loc(fi), "Manager.page_out is only called from page_out_at_least")
    for nwin in (0, 1, 2):
        dsets = {"a": dset("in_memory", name="a"), "b": dset("in_memory", readers={"r": NOW - 9}, name="b"),
                 "c": dset("created", name="c"), "d": dset("in_memory", readers={"r": OLD}, name="d")}
        offered = []

        def lottery(run, args, kwargs, node, fr, _n=nwin):
            ents = run.concrete_iter(args[0]) or []
            offered.append(sorted(e.fields.get("key", e.args[0] if e.args else "?") for e in ents if isinstance(e, Obj)))
            return offered[-1][:_n]
        ip = Interp(repo, call_models={**MODELS, "cascade.shm.algorithms.lottery": lottery},
                    inline=lambda f: f.qual in (f"{DS}.Dataset.is_pageoutable",))
        paths = ip.explore(fi, env={"self.datasets": dsets, "self.pageout_count": 0}, args={"amount": 5})
        ctx.evals(len(paths))
        for p in paths:
            acq = [e for e in p.effects if e.kind == "call" and e.data.get("method") == "acquire"]
            got_lock = any(d.key.startswith("truthy(") and "acquire" in d.key and d.value for d in p.decisions)
            po = [e.data["args"][0] for e in p.effects if is_call(e, qual=f"{DS}.Manager.page_out")]
            rel = [e for e in p.effects if e.kind == "call" and e.data.get("method") == "release" and (e.data.get("field") or "").endswith("Manager.pageout_all")]
            if not acq:
                ctx.violation("C09.R7", fi.qual, loc(fi), "eviction lock", "page_out_at_least no longer takes the eviction lock")
                continue
            if not got_lock:
                if po:
                    ctx.violation("C09.R7", fi.qual, loc(fi), "eviction without the lock", "page-outs are submitted although the eviction lock was not obtained")
                else:
                    ctx.ok("C09.R7", loc(fi), "lock busy: nothing submitted")
                continue
            if p.exit[0] != "return":
                ctx.undecided("C09.R7", loc(fi), f"page_out_at_least raises: {vkey(p.exit[1])[:80]}")
                continue
            if offered and offered[-1] != ["a", "d"]:
                ctx.violation("C09.R3", fi.qual, loc(fi), "eviction candidates",
                              f"datasets offered for eviction {offered[-1]}; only a (idle) and d (stale reader) are evictable — b has a fresh reader, c is being written")
                continue
            want = ["a", "d"][:nwin]
            if sorted(po) != want or p.heap["self.pageout_count"] != nwin:
                ctx.violation("C09.R3", fi.qual, loc(fi), "winners paged out",
                              f"{nwin} winner(s) {want}: page_out called for {po}, pageout_count={vkey(p.heap['self.pageout_count'])}")
            elif nwin == 0 and len(rel) != 1:
                ctx.violation("C09.R7", fi.qual, loc(fi), "lock released when nothing is evictable",
                              "the eviction lock was obtained, nothing could be evicted and no job was submitted, but the lock is not released: every later "
                              "eviction attempt returns at once and a satisfiable request answers 'wait' for ever")
            elif nwin > 0 and rel:
                ctx.violation("C09.R7", fi.qual, loc(fi), "lock handed to the jobs", "the eviction lock is released while page-out jobs are still outstanding")
            elif nwin > 0 and _counter_after_launch(p):
                ctx.violation("C09.R7", fi.qual, loc(fi), "job counter set before the jobs are launched",
                              "pageout_count is (re)written after a page-out job was submitted: a job that completes first decrements the old value and the late store "
                              "overwrites its decrement, so the counter never returns to 0, the eviction lock is never released, and every later request that needs an "
                              "eviction answers 'wait' for ever")
            else:
                ctx.ok("C09.R3", loc(fi), f"{nwin} winner(s): candidates filtered, winners paged out, counter set, lock {'released' if nwin == 0 else 'handed to the jobs'}")


def _counter_after_launch(p) -> bool:
    """is Manager.pageout_count stored after the first page-out job of this path was submitted?"""
    first = [e.seq for e in p.effects if is_call(e, qual=f"{DS}.Manager.page_out")]
    stores = [e.seq for e in p.effects if e.kind in ("store", "aug") and (e.data.get("field") or "").endswith("Manager.pageout_count")]
    return bool(first) and any(sq > min(first) for sq in stores)


def r_purge(ctx):
    """C09.R4 / C05.R7: purge unlinks a segment only without readers (a purge during a read is deferred) — except at exit, where
    every segment that is in shared memory is unlinked; the space is credited once; on-disk datasets have no segment."""
    repo = ctx.repo
    fi = repo.func(f"{DS}.Manager.purge")
    ctx.analysed(fi.qual)
    rid = "C09.R4" if ctx.pid != "C05" else "C05.SHM"
    table = []
    for status in STATES:
        for readers, delayed in ((False, False), (True, False), (True, True)):  # the third: a purge was already deferred once and the reader is still there
            for is_exit in (False, True):
                d = dset(status, readers={"r": NOW - 9} if readers else {}, name="d", delayed=delayed)
                env = {"self.datasets": {"k": d}, "self.free_space": 3}
                paths = Interp(repo, call_models=MODELS).explore(fi, env=env, args={"key": "k", "is_exit": is_exit})
                ctx.evals(len(paths))
                atoms = {"status": status, "readers": readers, "is_exit": is_exit, **({"purge_already_deferred": True} if delayed else {})}
                for p in paths:
                    unl = [e for e in p.effects if e.kind == "call" and e.data.get("method") == "unlink"]
                    da = final_ds(p, "d") or d
                    still = "k" in p.heap["self.datasets"]
                    free = p.heap["self.free_space"]
                    in_shm = status != "on_disk"
                    want_unlink = in_shm and (is_exit or not readers)
                    table.append({**atoms, "unlinked": bool(unl), "tracked_after": still, "free_after": free})
                    if bool(unl) != want_unlink:
                        ctx.violation(rid, fi.qual, loc(fi), "segment unlinked",
                                      f"{atoms}: segment {'unlinked' if unl else 'not unlinked'}; expected {'unlink' if want_unlink else 'no unlink'} "
                                      f"({'at exit no segment may be left behind' if is_exit else 'a reader still holds it: defer' if readers else 'no reader: drop it'})", row=atoms)
                    elif readers and not is_exit and in_shm and (da.fields["delayed_purge"] is not True or not still):
                        ctx.violation(rid, fi.qual, loc(fi), "deferred purge recorded", f"{atoms}: purge during a read must mark the dataset for a delayed purge and keep it", row=atoms)
                    elif status == "on_disk" and free != 3:
                        ctx.violation(rid, fi.qual, loc(fi), "no space credited for an on-disk dataset",
                                      f"{atoms}: free_space 3->{vkey(free)}; a paged-out dataset holds no shared memory (its size was credited when the page-out finished)", row=atoms)
                    elif want_unlink and (still or (not is_exit and free != 7)):
                        ctx.violation(rid, fi.qual, loc(fi), "accounting after purge", f"{atoms}: still tracked={still}, free_space 3->{vkey(free)} (expected 7)", row=atoms)
                    else:
                        ctx.ok(rid, loc(fi), f"purge | {atoms}")
    ctx.table(rid, table)
    # atexit purges every key with is_exit=True
    ax = repo.func(f"{DS}.Manager.atexit")
    ctx.analysed(ax.qual)
    model = {f"k-{s_}": dset(s_, name=f"d-{s_}") for s_ in STATES}  # one dataset in every status: each but on_disk owns a segment
    paths = Interp(repo, max_concrete_iter=40).explore(ax, env={"self.datasets": model})
    for p in paths:
        pc = [e for e in p.effects if is_call(e, qual=f"{DS}.Manager.purge")]
        keys = sorted(e.data["args"][0] for e in pc if e.data["args"])
        flags = [e.data["kwargs"].get("is_exit", e.data["args"][1] if len(e.data["args"]) > 1 else False) for e in pc]
        dk = [e for e in p.effects if e.kind == "call" and e.data.get("method") == "atexit" and (e.data.get("field") or "").endswith("Manager.disk")]
        need = sorted(f"k-{s_}" for s_ in STATES if s_ != "on_disk")
        if not set(need) <= set(keys) or any(f is not True for f in flags) or not dk:
            ctx.violation(rid, ax.qual, loc(ax), "exit cleanup", f"one dataset per status {list(STATES)}: Manager.atexit purges {keys} with is_exit={flags}, disk.atexit called={bool(dk)}; "
                          f"every dataset that may own a segment ({need}: being written, readable, being paged out or in) must be purged with is_exit=True, else the segment stays in /dev/shm")
        else:
            ctx.ok(rid, loc(ax), "atexit purges every dataset with is_exit=True, then cleans the disk area")
    # one segment is already gone (a writer killed before it created it, a page-out that just unlinked it): the clean-up goes on with the others
    model2 = {f"k-{i}": dset("in_memory", name=f"d-{i}") for i in range(3)}
    ip = Interp(repo, call_models=MODELS, inline=INL, max_concrete_iter=40,
                raising=lambda d: "builtins.FileNotFoundError" if d["name"].rsplit(".", 1)[-1] == "SharedMemory" and any(
                    getattr(a, "fields", {}).get("shmid") == "shm-d-0" or a == "shm-d-0" for a in list(d["args"]) + list(d["kwargs"].values())) else None)
    n2 = 0
    for p in ip.explore(ax, env={"self.datasets": model2, "self.free_space": 0}):
        if not any(e.kind == "raise" and e.data.get("from_call") for e in p.effects):
            continue
        n2 += 1
        unl = [e for e in p.effects if e.kind == "call" and e.data.get("method") == "unlink"]
        dk = [e for e in p.effects if e.kind == "call" and e.data.get("method") == "atexit" and (e.data.get("field") or "").endswith("Manager.disk")]
        if p.exit[0] != "return" or len(unl) != 2 or not dk:
            ctx.violation(rid, ax.qual, loc(ax), "exit cleanup survives a vanished segment",
                          f"three resident datasets, the segment of the first is already gone (opening it raises FileNotFoundError): Manager.atexit ends with {p.exit[0]}, "
                          f"unlinks {len(unl)} of the 2 remaining segments, disk.atexit called={bool(dk)} — the clean-up must go on, else the other segments stay in /dev/shm "
                          f"after the executor has exited")
        else:
            ctx.ok(rid, loc(ax), "atexit: a vanished segment does not stop the clean-up of the others")
    ctx.floor(rid + ".atexit_fault_paths", n2, 1)


def r_close_callback(ctx):
    """C09.R5 / R6: writer close: created -> in_memory only; reader close: removes that reader; a delayed purge is executed by the
    last reader's close and not before."""
    repo = ctx.repo
    fi = repo.func(f"{DS}.Manager.close_callback")
    ctx.analysed(fi.qual)
    for status in STATES:
        d = dset(status, name="d")
        paths = Interp(repo).explore(fi, env={"self.datasets": {"k": d}}, args={"key": "k", "rdid": ""})
        ctx.evals(len(paths))
        for p in paths:
            da = final_ds(p, "d") or d
            if status == "created":
                good = p.exit[0] == "return" and da.fields["status"] is sst("in_memory")
            else:
                good = p.exit[0] == "raise" and da.fields["status"] is sst(status)
            if not good:
                ctx.violation("C09.R6", fi.qual, loc(fi), "writer close transition",
                              f"writer close in state {status}: exit={p.exit[0]}, status afterwards {vkey(da.fields['status'])} (only created -> in_memory is legal)")
            else:
                ctx.ok("C09.R6", loc(fi), f"writer close in {status}: {'-> in_memory' if status == 'created' else 'rejected'}")
    for delayed in (False, True):
        for others in (False, True):
            rd = {"r1": NOW - 9, **({"r2": NOW - 8} if others else {})}
            d = dset("in_memory", readers=rd, delayed=delayed, name="d")
            paths = Interp(repo).explore(fi, env={"self.datasets": {"k": d}}, args={"key": "k", "rdid": "r1"})
            ctx.evals(len(paths))
            for p in paths:
                da = final_ds(p, "d") or d
                pc = [e for e in p.effects if is_call(e, qual=f"{DS}.Manager.purge")]
                atoms = {"delayed_purge": delayed, "other_readers": others}
                if p.exit[0] != "return" or "r1" in da.fields["ongoing_reads"]:
                    ctx.violation("C09.R5", fi.qual, loc(fi), "reader removed", f"{atoms}: reader r1 not removed (exit {p.exit[0]})", row=atoms)
                elif bool(pc) != (delayed and not others):
                    ctx.violation("C09.R5", fi.qual, loc(fi), "delayed purge at last close",
                                  f"{atoms}: purge {'executed' if pc else 'not executed'} on this close; a purge requested during a read takes effect exactly when the last reader closes", row=atoms)
                else:
                    ctx.ok("C09.R5", loc(fi), f"reader close | {atoms}")


def r_pageout_transition(ctx):
    """C09.R6: page_out marks the dataset paging_out before the job is submitted; page_in requires on_disk."""
    repo = ctx.repo
    fi = repo.func(f"{DS}.Manager.page_out")
    ctx.analysed(fi.qual)
    d = dset("in_memory", name="d")
    paths = Interp(repo).explore(fi, env={"self.datasets": {"k": d}}, args={"key": "k"})
    for p in paths:
        sub = [e for e in p.effects if e.kind == "call" and e.data.get("method") == "page_out" and (e.data.get("field") or "").endswith("Manager.disk")]
        st_ = [e for e in p.effects if e.kind == "store" and e.data.get("attr") == "status"]
        if len(sub) != 1 or not st_ or st_[0].data["value"] is not sst("paging_out") or st_[0].seq > sub[0].seq or sub[0].data["args"][0] != "shm-d" \
                or not isinstance(sub[0].data["args"][1], (Closure, Partial)):
            ctx.violation("C09.R6", fi.qual, loc(fi), "paging_out before submit", "page_out must set status=paging_out before submitting exactly one disk job for the dataset's segment with a completion callback")
        else:
            ctx.ok("C09.R6", loc(fi), "status=paging_out set before the disk job is submitted")
    pin = repo.func(f"{DS}.Manager.page_in")
    ctx.analysed(pin.qual)
    for status in STATES:
        d = dset(status, name="d")
        paths = Interp(repo).explore(pin, env={"self.datasets": {"k": d}, "self.free_space": 10}, args={"key": "k"})
        for p in paths:
            if (p.exit[0] == "return") != (status == "on_disk"):
                ctx.violation("C09.R6", pin.qual, loc(pin), "page_in source state", f"page_in in state {status}: {p.exit[0]} (only on_disk may be paged in)")
            else:
                ctx.ok("C09.R6", loc(pin), f"page_in in {status}: {'issued' if status == 'on_disk' else 'rejected'}")


def r_disk(ctx):
    """C09.R8: Disk._page_out writes the whole file before unlinking the segment and reports failure for any exception;
    Disk._page_in recreates the segment with the recorded size before reporting success."""
    repo = ctx.repo
    D = "cascade.shm.disk.Disk"
    fi = repo.func(f"{D}._page_out")
    ctx.analysed(fi.qual)
    risky = ("SharedMemory", "open", "write", "unlink", "close")
    ip = Interp(repo, raising=lambda d: d["name"].rsplit(".", 1)[-1] in risky or d.get("method") in risky)
    paths = ip.explore(fi)
    ctx.evals(len(paths))
    nexc = 0
    for p in paths:
        wr = [e for e in p.effects if e.kind == "call" and e.data.get("method") == "write"]
        ul = [e for e in p.effects if e.kind == "call" and e.data.get("method") == "unlink"]
        wx = [e for e in p.effects if e.kind == "with_exit"]
        cb = [e.data["args"][0] for e in p.effects if e.kind == "call" and e.data["name"] == "callback" and e.data["args"]]
        raised = any(e.kind == "raise" and e.data.get("from_call") for e in p.effects)
        nexc += raised
        if ul and (not wr or min(w.seq for w in wr) > ul[0].seq or not any(x.seq < ul[0].seq for x in wx)):
            ctx.violation("C09.R8", fi.qual, loc(fi, ul[0].node), "write before unlink",
                          f"there is a path on which the shared-memory segment is unlinked {'without writing' if not wr else 'before finishing'} the spill file "
                          f"({p.cond_text()[:160]}): the bytes read back after paging differ from the bytes written")
        elif raised and cb != [False]:
            ctx.violation("C09.R8", fi.qual, loc(fi), "failure reported", f"an exception during page-out leads to callback{cb} (must be exactly callback(False))")
        elif not raised and (cb != [True] or not ul or not wr or p.exit[0] != "return"):
            ctx.violation("C09.R8", fi.qual, loc(fi), "success reported", f"a clean page-out path ends with callback{cb}, write x{len(wr)}, unlink x{len(ul)}")
        elif wr and not ("SharedMemory(" in vkey(wr[0].data["args"]) and ".buf" in vkey(wr[0].data["args"])):
            ctx.violation("C09.R8", fi.qual, loc(fi, wr[0].node), "bytes written", f"the spill file receives {vkey(wr[0].data['args'])[:80]}, not the segment's buffer")
        else:
            ctx.ok("C09.R8", loc(fi), f"page-out path ({'exception' if raised else 'clean'}): write<unlink, callback({cb[0]})")
    ctx.floor("C09.R8.exception_paths", nexc, 3)
    # the segment vanished under the job (a purge or the exit sweep unlinked it while the copy was running): still a failure — success means "this job
    # removed the segment", which is what entitles the completion callback to credit the space; the party that unlinked it has credited it already
    for exc in ("builtins.FileNotFoundError", "builtins.OSError"):
        ip = Interp(repo, raising=lambda d, _e=exc: _e if d.get("method") == "unlink" else None)
        for p in ip.explore(fi):
            if not any(e.kind == "raise" and e.data.get("from_call") for e in p.effects):
                continue
            cb = [e.data["args"][0] for e in p.effects if e.kind == "call" and e.data["name"] == "callback" and e.data["args"]]
            if cb != [False]:
                ctx.violation("C09.R8", fi.qual, loc(fi), "a page-out whose unlink failed is a failed page-out",
                              f"unlinking the segment raises {exc.rsplit('.', 1)[-1]} (somebody else removed it meanwhile) and the job reports callback{cb}: on success the store "
                              f"credits the dataset's size — a second time, since whoever unlinked the segment has credited it already; free space then exceeds what is free")
                break
        else:
            ctx.ok("C09.R8", loc(fi), f"page-out: unlink failing with {exc.rsplit('.', 1)[-1]} -> callback(False)")
    fi = repo.func(f"{D}._page_in")
    ctx.analysed(fi.qual)
    paths = Interp(repo, raising=lambda d: d["name"].rsplit(".", 1)[-1] in ("SharedMemory", "open", "read"), max_while=2).explore(fi)
    ctx.evals(len(paths))
    for p in paths:
        if p.exit[0] == "trunc":
            continue
        cb = [e.data["args"][0] for e in p.effects if e.kind == "call" and e.data["name"] == "callback" and e.data["args"]]
        raised = any(e.kind == "raise" and e.data.get("from_call") for e in p.effects)
        mk = [e for e in p.effects if e.kind == "call" and e.data["name"].endswith("SharedMemory")]
        if raised and cb != [False] or (not raised and cb != [True]):
            ctx.violation("C09.R8", fi.qual, loc(fi), "page-in outcome reported", f"page-in path ({'exception' if raised else 'clean'}) ends with callback{cb}")
        elif mk and not (mk[0].data["kwargs"].get("create") is True and vkey(mk[0].data["kwargs"].get("size")) == "size"):
            ctx.violation("C09.R8", fi.qual, loc(fi), "segment recreated with recorded size", f"segment created with {vkey(mk[0].data['kwargs'])}")
        else:
            ctx.ok("C09.R8", loc(fi), f"page-in path ({'exception' if raised else 'clean'}): callback({cb[0] if cb else '?'})")


def r_reader_ids(ctx):
    """C09.R9: reader ids handed out by Manager.get are unique among the readers still open (history: open a, open b, close a, open c):
    a colliding id would make one reader's close deregister another, so a delayed purge fires under a live reader."""
    repo = ctx.repo
    fi = repo.func(f"{DS}.Manager.get")
    cb = repo.func(f"{DS}.Manager.close_callback")
    rid = "C09.R9" if ctx.pid == "C09" else f"{ctx.pid}.READERID"

    def uuid4(run, a, k, n, f):
        run.model_u = getattr(run, "model_u", 0) + 1
        return f"{getattr(run, 'u_base', 'u')}{run.model_u:08d}"
    heap = {"self.datasets": {"k": dset("in_memory", name="d")}, "self.free_space": 5}
    ids = []
    steps = ["open", "open", "close0", "open"]
    for i, step in enumerate(steps):
        ip = Interp(repo, call_models={**MODELS, "uuid.uuid4": (lambda run, a, k, n, f, _i=i: f"{_i}{getattr(run, 'model_u', 0)}-aaaa-bbbb" if not setattr(run, "model_u", getattr(run, "model_u", 0) + 1) else None)})
        if step == "open":
            ps = ip.explore(fi, env=heap, args={"key": "k"})
        else:
            ps = ip.explore(cb, env=heap, args={"key": "k", "rdid": ids[0]})
        ps = [p for p in ps if p.exit[0] == "return"]
        if len(ps) != 1:
            ctx.undecided(rid, loc(fi), f"history step {i} ({step}) not deterministic")
            return
        if step == "open":
            if not (isinstance(ps[0].exit[1], tuple) and len(ps[0].exit[1]) == 5):
                ctx.undecided(rid, loc(fi), f"Manager.get returns {vkey(ps[0].exit[1])[:80]}: cannot read the reader id")
                return
            ids.append(ps[0].exit[1][2])
        heap = {k: v for k, v in ps[0].heap.items() if k.startswith("self.")}
    d = heap["self.datasets"]["k"]
    open_now = set(d.fields["ongoing_reads"].keys())
    if len(open_now) != 2 or ids[2] == ids[1] or {ids[1], ids[2]} != open_now:
        ctx.violation(rid, fi.qual, loc(fi), "reader ids unique among open readers",
                      f"history open->{ids[0]!r}, open->{ids[1]!r}, close {ids[0]!r}, open->{ids[2]!r}: open readers recorded {sorted(open_now)} — two live readers must have two distinct ids")
    else:
        ctx.ok(rid, loc(fi), "a new reader never receives the id of a reader that is still open")


# ---------------------------------------------------------------------------------- server dispatch / client protocol
SRV = "cascade.shm.server.LocalServer"
API = "cascade.shm.api"
CLI = "cascade.shm.client"


def _serve_one(repo, payload, env=None, add=None, get=None, raising=None):
    """One iteration of LocalServer.start on `payload` (the next message is a shutdown, which ends the loop).
    Returns (paths, client atom)."""
    client = Atom("client-1")

    def m_receive(run, a, k, n, f):
        c = getattr(run, "_rcv", 0)
        run._rcv = c + 1
        if c == 0:
            return (payload, client)
        return (Obj(f"{API}.ShutdownCommand", {}, name="shutdown"), Atom("client-2"))

    models = dict(MODELS)
    models[f"{SRV}.receive"] = m_receive
    from .common import model_ret
    if add is not None:
        models[f"{DS}.Manager.add"] = lambda run, a, k, n, f: model_ret(repo, f"{DS}.Manager.add", add)
    if get is not None:
        models[f"{DS}.Manager.get"] = lambda run, a, k, n, f: model_ret(repo, f"{DS}.Manager.get", get)
    e = {"self.manager.free_space": 77, "self.manager.datasets": {}}
    e.update(env or {})
    ip = Interp(repo, call_models=models, opaque={f"{SRV}.respond", f"{DS}.Manager.close_callback", f"{DS}.Manager.purge"},
                raising=raising, max_while=3)
    return ip.explore(repo.func(f"{SRV}.start"), env=e, args={}), client


def _responses(p):
    """(response value, destination) of every answer the server loop sends on this path, in order."""
    out = []
    for e in p.effects:
        if is_call(e, qual=f"{SRV}.respond") and len(e.data["args"]) >= 2:
            out.append((e.data["args"][0], e.data["args"][1]))
        elif e.kind == "call" and e.data.get("method") == "sendto" and len(e.data["args"]) >= 2:
            a0 = e.data["args"][0]
            if isinstance(a0, App) and a0.fname.endswith("ser") and a0.args:
                out.append((a0.args[0], e.data["args"][1]))
    return out


def r_server_dispatch(ctx):
    """C08.R5 / C09.R10: every request type is served by the matching Manager operation on the request's own fields, and the
    operation's verdict travels back to the requesting client unchanged ('wait' stays 'wait', a grant carries the segment)."""
    repo = ctx.repo
    fi = repo.func(f"{SRV}.start")
    ctx.analysed(fi.qual)
    rid = "C08.R5" if ctx.pid == "C08" else "C09.R10"
    L = loc(fi)

    def req(cls, **f):
        return Obj(f"{API}.{cls}", f, name=cls, frozen=False)

    def one(name, payload, want_call, want_resp, **kw):
        """want_call: (qual, args) or None; want_resp: (class, {field: value})"""
        paths, client = _serve_one(repo, payload, **kw)
        ctx.evals(len(paths))
        if not paths:
            ctx.undecided(rid, L, f"{name}: no path through the server loop")
            return
        for p in paths:
            rs = _responses(p)
            if p.exit[0] != "return":
                ctx.violation(rid, fi.qual, L, f"{name}: server loop survives", f"{name}: the server loop ends with {p.exit[0]} {vkey(p.exit[1])[:80]} "
                              f"instead of answering and going on to the next request", row={"request": name})
                return
            if want_call is not None:
                cq, cargs = want_call
                calls = [e for e in p.effects if is_call(e, qual=cq)]
                if len(calls) != 1 or list(calls[0].data["args"]) + [v for _, v in sorted(calls[0].data["kwargs"].items())] != list(cargs):
                    ctx.violation(rid, fi.qual, L, f"{name}: operation performed",
                                  f"{name}: expected exactly one {cq.rsplit('.', 2)[-2]}.{cq.rsplit('.', 1)[-1]}({', '.join(vkey(a) for a in cargs)}); the loop performs "
                                  f"{[(vkey(c.data['args']), vkey(c.data['kwargs'])) for c in calls]}", row={"request": name})
                    return
            mine = [r for r, dst in rs if dst is client]
            if len(mine) != 1:
                ctx.violation(rid, fi.qual, L, f"{name}: answered once", f"{name}: {len(mine)} answers are sent to the requesting client "
                              f"(all answers: {[(vkey(r)[:60], vkey(d)) for r, d in rs]}) — the client blocks on recv for exactly one", row={"request": name})
                return
            r = mine[0]
            rc, rf = want_resp
            if not (isinstance(r, Obj) and r.cls == f"{API}.{rc}"):
                ctx.violation(rid, fi.qual, L, f"{name}: answer type", f"{name}: answer is {vkey(r)[:100]}, expected a {rc}", row={"request": name})
                return
            bad = {k: (vkey(r.fields.get(k)), vkey(v)) for k, v in rf.items() if vkey(r.fields.get(k)) != vkey(v)}
            if bad:
                ctx.violation(rid, fi.qual, L, f"{name}: answer content", f"{name}: answer fields differ from the operation's verdict (got, expected): {bad}",
                              row={"request": name})
                return
        ctx.ok(rid, L, f"server dispatch | {name}")

    M = f"{DS}.Manager"
    one("allocate granted", req("AllocateRequest", key="k", l=7, deser_fun="df"), (f"{M}.add", ["k", 7, "df"]),
        ("AllocateResponse", {"shmid": "shm-x", "error": ""}), add=("shm-x", ""))
    for err in ("wait", "conflict", "capacity exceeded"):
        one(f"allocate answered {err!r}", req("AllocateRequest", key="k", l=7, deser_fun="df"), (f"{M}.add", ["k", 7, "df"]),
            ("AllocateResponse", {"shmid": "", "error": err}), add=("", err))
    one("get granted", req("GetRequest", key="k"), (f"{M}.get", ["k"]),
        ("GetResponse", {"shmid": "shm-x", "l": 4, "rdid": "r1", "deser_fun": "df", "error": ""}), get=("shm-x", 4, "r1", "df", ""))
    one("get answered 'wait'", req("GetRequest", key="k"), (f"{M}.get", ["k"]), ("GetResponse", {"shmid": "", "error": "wait"}), get=("", 0, "", "", "wait"))
    one("close (reader r1)", req("CloseCallback", key="k", rdid="r1"), (f"{M}.close_callback", ["k", "r1"]), ("OkResponse", {"error": ""}))
    one("close (writer)", req("CloseCallback", key="k", rdid=""), (f"{M}.close_callback", ["k", ""]), ("OkResponse", {"error": ""}))
    one("purge", req("PurgeRequest", key="k"), (f"{M}.purge", ["k"]), ("OkResponse", {"error": ""}))
    one("free space", req("FreeSpaceRequest"), None, ("FreeSpaceResponse", {"free_space": 77}))
    one("status inquiry", req("StatusInquiry"), None, ("OkResponse", {"error": ""}))
    for status in (None,) + STATES:
        env = {"self.manager.datasets": {"k": dset(status, name="d")} if status else {}}
        want = EnumVal(f"{API}.DatasetStatus", "not_present" if status in (None, "created") else "ready")
        one(f"dataset status ({status or 'absent'})", req("DatasetStatusRequest", key="k"), None, ("DatasetStatusResponse", {"status": want}), env=env)
    # a failing operation is reported to the client and does not take the server down
    for opq, payload in ((f"{M}.purge", req("PurgeRequest", key="k")), (f"{M}.close_callback", req("CloseCallback", key="k", rdid="r1"))):
        paths, client = _serve_one(repo, payload, raising=lambda d, q=opq: d.get("qual") == q)
        ctx.evals(len(paths))
        failing = [p for p in paths if any(e.kind == "raise" and e.data.get("from_call") for e in p.effects)]
        if not failing:
            ctx.undecided(rid, L, f"no path on which {opq} fails was explored")
            continue
        okk = True
        for p in failing:
            mine = [r for r, dst in _responses(p) if dst is client]
            if p.exit[0] != "return" or len(mine) != 1 or not isinstance(mine[0], Obj) or mine[0].fields.get("error") in ("", None):
                ctx.violation(rid, fi.qual, L, f"failure of {opq.rsplit('.', 1)[-1]} reported",
                              f"when {opq} raises, the loop ends with {p.exit[0]} and answers {[vkey(m)[:80] for m in mine]}; expected: one answer carrying the "
                              f"error, and the server keeps serving (every other dataset stays reachable)", row={"op": opq})
                okk = False
                break
        if okk:
            ctx.ok(rid, L, f"server dispatch | failure of {opq.rsplit('.', 1)[-1]} is answered with an error, the loop continues")


def _cmd_model(log_attr="_cmds"):
    def m(run, a, k, n, f):
        comm = a[0] if a else k.get("comm")
        lst = getattr(run, log_attr, None)
        if lst is None:
            lst = []
            setattr(run, log_attr, lst)
        lst.append(comm)
        cls = comm.cls.rsplit(".", 1)[-1] if isinstance(comm, Obj) else ""
        if cls == "AllocateRequest":
            return Obj(f"{API}.AllocateResponse", {"shmid": "shm-x", "error": ""}, name="alloc-resp")
        if cls == "GetRequest":
            return Obj(f"{API}.GetResponse", {"shmid": "shm-x", "l": 4, "rdid": "r1", "deser_fun": "df2", "error": ""}, name="get-resp")
        return Obj(f"{API}.OkResponse", {"error": ""}, name="ok-resp")
    return m


def r_client_protocol(ctx):
    """C09.R11: the client side of the protocol: allocate/get attach the segment the server named, with the size it named; closing
    a buffer tells the server exactly once who closed (writer: empty reader id; reader: the id it was given); and a 'wait'
    answer is retried instead of being returned or raised."""
    repo = ctx.repo
    rid = "C09.R11"
    INLINE = {f"{CLI}.AllocatedBuffer.__init__", f"{CLI}.close_callback"}
    for op, args, want_req, want_shm, want_close in (
        ("allocate", {"key": "k", "l": 7, "deser_fun": "df"}, ("AllocateRequest", {"key": "k", "l": 7, "deser_fun": "df"}),
         (["shm-x"], {"create": True, "size": 7}), {"key": "k", "rdid": ""}),
        ("get", {"key": "k"}, ("GetRequest", {"key": "k"}), (["shm-x"], {"create": False, "size": 4}), {"key": "k", "rdid": "r1"}),
    ):
        fi = repo.func(f"{CLI}.{op}")
        ctx.analysed(fi.qual)
        L = loc(fi)
        ip = Interp(repo, call_models={**MODELS, f"{CLI}._send_command": _cmd_model()}, inline=INLINE)
        paths = ip.explore(fi, env={}, args=dict(args))
        ctx.evals(len(paths))
        if len(paths) != 1 or paths[0].exit[0] != "return" or not isinstance(paths[0].exit[1], Obj):
            ctx.undecided(rid, L, f"client.{op} is not a straight-line constructor of a buffer: {[(p.exit[0], vkey(p.exit[1])[:60]) for p in paths]}")
            continue
        p = paths[0]
        buf = p.exit[1]
        cmds = [e.data["args"][0] for e in p.effects if is_call(e, qual=f"{CLI}._send_command") and e.data["args"]]
        if len(cmds) != 1 or not isinstance(cmds[0], Obj) or cmds[0].cls != f"{API}.{want_req[0]}" or \
                {k: cmds[0].fields.get(k) for k in want_req[1]} != want_req[1]:
            ctx.violation(rid, fi.qual, L, f"{op}: request sent", f"client.{op}({args}) sends {[vkey(c)[:100] for c in cmds]} "
                          f"({[vkey(getattr(c, 'fields', None))[:100] for c in cmds]}); expected one {want_req[0]} with {want_req[1]}", row={"op": op})
            continue
        shm_calls = [e for e in p.effects if e.kind == "call" and (e.data.get("name") or "").endswith("SharedMemory")]
        got = [(list(e.data["args"]), dict(e.data["kwargs"])) for e in shm_calls]
        norm = []
        for a, k in got:
            k = dict(k)
            names = ["name", "create", "size"]
            for i, v in enumerate(a):
                k[names[i]] = v
            norm.append(k)
        wantk = {"name": want_shm[0][0], **want_shm[1]}
        if len(norm) != 1 or {x: norm[0].get(x) for x in wantk} != wantk:
            ctx.violation(rid, fi.qual, L, f"{op}: segment attached", f"client.{op} attaches {got}; expected the segment the server named, "
                          f"SharedMemory('shm-x', create={want_shm[1]['create']}, size={want_shm[1]['size']}) — a reader must map exactly the bytes written "
                          f"and must never create the segment", row={"op": op})
            continue
        ci = repo.classes[f"{CLI}.AllocatedBuffer"]
        cfi = repo.func(f"{CLI}.AllocatedBuffer.close")
        ctx.analysed(cfi.qual)
        env = {f"self.{k}": v for k, v in buf.fields.items()}
        if "self.shm" not in env:
            ctx.undecided(rid, L, f"client.{op}: the buffer object built does not record its segment (fields {sorted(buf.fields)})")
            continue
        if isinstance(env["self.shm"], App):
            env["self.shm"] = Obj("multiprocessing.shared_memory.SharedMemory", {"_name": "shm-x"}, name="segment")  # a constructed object, never None
        heap = env
        sent_total = []
        okk = True
        for round_ in (1, 2):
            ip2 = Interp(repo, call_models={**MODELS, f"{CLI}._send_command": _cmd_model()}, inline=INLINE)
            ps2 = ip2.explore(cfi, env=heap, args={})
            ctx.evals(len(ps2))
            if len(ps2) != 1 or ps2[0].exit[0] != "return":
                ctx.violation(rid, cfi.qual, loc(cfi), f"{op}: close #{round_} completes", f"closing the buffer of client.{op} (time #{round_}) ends "
                              f"{[(q.exit[0], vkey(q.exit[1])[:60]) for q in ps2]}", row={"op": op, "close": round_})
                okk = False
                break
            q = ps2[0]
            sent = [e.data["args"][0] for e in q.effects if is_call(e, qual=f"{CLI}._send_command") and e.data["args"]]
            sent_total += sent
            if round_ == 1:
                good = len(sent) == 1 and isinstance(sent[0], Obj) and sent[0].cls == f"{API}.CloseCallback" and \
                    {k: sent[0].fields.get(k) for k in want_close} == want_close
                if not good:
                    ctx.violation(rid, cfi.qual, loc(cfi), f"{op}: close notifies the server",
                                  f"closing the buffer of client.{op} sends {[(vkey(s), vkey(getattr(s, 'fields', None))) for s in sent]}; expected one "
                                  f"CloseCallback{want_close} — the server's reader/writer accounting for the dataset depends on it", row={"op": op})
                    okk = False
                    break
            elif sent:
                ctx.violation(rid, cfi.qual, loc(cfi), f"{op}: close is idempotent", f"a second close of the same buffer sends {[vkey(s) for s in sent]} again",
                              row={"op": op})
                okk = False
                break
            heap = {k: v for k, v in q.heap.items() if k.startswith("self.")}
        if okk:
            ctx.ok(rid, L, f"client.{op}: request, segment attachment and close notification agree with the server's answer")
    # readers get a read-only view
    vfi = repo.func(f"{CLI}.AllocatedBuffer.view")
    ctx.analysed(vfi.qual)
    for ro in (True, False):
        ps = Interp(repo, call_models=MODELS).explore(vfi, env={"self.shm": Obj("SharedMemory", {"buf": Sym("BUF")}, name="shm"), "self.l": 4, "self.readonly": ro}, args={})
        ctx.evals(len(ps))
        for p in ps:
            tro = any(e.kind == "call" and e.data.get("method") == "toreadonly" for e in p.effects)
            if p.exit[0] != "return" or tro != ro or (ro and "toreadonly" not in vkey(p.exit[1])):
                ctx.violation(rid, vfi.qual, loc(vfi), f"view readonly={ro}", f"view() of a {'reader' if ro else 'writer'} buffer ends {p.exit[0]} {vkey(p.exit[1])[:80]}, "
                              f"read-only conversion applied={tro}", row={"readonly": ro})
                break
        else:
            ctx.ok(rid, loc(vfi), f"view | readonly={ro}")
    # 'wait' is retried
    sfi = repo.func(f"{CLI}._send_command")
    ctx.analysed(sfi.qual)
    for first, want in (("wait", "retry"), ("conflict", "ConflictError"), ("", "return")):
        def m_deser(run, a, k, n, f, first=first):
            c = getattr(run, "_des", 0)
            run._des = c + 1
            if c == 0 and first:
                return Obj(f"{API}.GetResponse", {"shmid": "", "l": 0, "rdid": "", "deser_fun": "", "error": first}, name="resp-1")
            return Obj(f"{API}.GetResponse", {"shmid": "shm-x", "l": 4, "rdid": "r1", "deser_fun": "df", "error": ""}, name="resp-ok")
        ip = Interp(repo, call_models={**MODELS, f"{API}.deser": m_deser}, max_while=4)
        from ..terms import ClassRef
        ps = ip.explore(sfi, env={}, args={"comm": Obj(f"{API}.GetRequest", {"key": "k"}, name="req"), "resp_class": ClassRef(f"{API}.GetResponse"), "timeout_sec": 60.0})
        ctx.evals(len(ps))
        if len(ps) != 1:
            ctx.undecided(rid, loc(sfi), f"_send_command not deterministic on first answer {first!r}: {[(p.exit[0], vkey(p.exit[1])[:50]) for p in ps]}")
            continue
        p = ps[0]
        sends = [e for e in p.effects if e.kind == "call" and e.data.get("method") == "send"]
        if want == "retry":
            good = p.exit[0] == "return" and isinstance(p.exit[1], Obj) and p.exit[1].name == "resp-ok" and len(sends) == 2
        elif want == "return":
            good = p.exit[0] == "return" and isinstance(p.exit[1], Obj) and p.exit[1].name == "resp-ok" and len(sends) == 1
        else:
            good = p.exit[0] == "raise" and "ConflictError" in vkey(p.exit[1])
        if not good:
            ctx.violation(rid, sfi.qual, loc(sfi), f"first answer {first!r}", f"when the first answer carries error {first!r} the command ends {p.exit[0]} "
                          f"{vkey(p.exit[1])[:80]} after {len(sends)} sends; expected {want} (a 'wait' must be retried until the store can grant the request)",
                          row={"first": first})
        else:
            ctx.ok(rid, loc(sfi), f"_send_command | first answer {first!r} -> {want}")

    # a command whose answer did not arrive is not sent again: the protocol is not idempotent (a repeated allocate answers 'conflict', which the data
    # server takes for "somebody else stored it"; a repeated get opens a second reader that nobody closes)
    n = 0
    for exc in ("socket.timeout", "builtins.TimeoutError", "builtins.OSError"):
        ip = Interp(repo, call_models={**MODELS}, max_while=3, raising=lambda d, _e=exc: _e if d.get("method") == "recv" else None)
        ps = ip.explore(sfi, env={}, args={"comm": Obj(f"{API}.AllocateRequest", {"key": "k", "l": 4, "deser_fun": "d"}, name="req"), "resp_class": ClassRef(f"{API}.AllocateResponse"), "timeout_sec": 60.0})
        ctx.evals(len(ps))
        for p in ps:
            rz = [e for e in p.effects if e.kind == "raise" and e.data.get("from_call")]
            if not rz:
                continue
            n += 1
            later = [e for e in p.effects if e.kind == "call" and e.data.get("method") == "send" and e.seq > rz[0].seq]
            if later:
                ctx.violation(rid, sfi.qual, loc(sfi, later[0].node), "no blind re-send of a command",
                              f"the answer to a command does not arrive ({exc.rsplit('.', 1)[-1]} while receiving) and the same command is sent again: the server may have "
                              f"executed the first one — a repeated allocate is answered 'conflict' and the caller skips writing the payload, so the dataset stays "
                              f"unwritten and is never announced; only an explicit 'wait' answer may be retried")
                break
        else:
            continue
        break
    else:
        ctx.ok(rid, loc(sfi), "_send_command: a receive failure is never followed by a second send of the command")
    ctx.floor(rid + ".recv_failures", n, 1)


def r_disk_copy(ctx):
    """C09.R13: what page-in copies back is what page-out wrote: _page_out writes the segment's whole buffer to the spill file;
    _page_in recreates the segment with the recorded size and stores every chunk it reads at consecutive offsets from 0 (decided on a
    model file read in chunks of 4 + 2 bytes: the slice stores into the segment must reassemble exactly the file's bytes)."""
    from ..terms import ModelFn
    repo = ctx.repo
    DK = "cascade.shm.disk.Disk"
    rid = "C09.R13"
    # page in
    fi = repo.func(f"{DK}._page_in")
    ctx.analysed(fi.qual)
    chunks = [b"abcd", b"ef", b""]

    def seg(run, a, k, n, f):
        run._segargs = (list(a), dict(k))
        return Obj("multiprocessing.shared_memory.SharedMemory", {"buf": [0] * 6, "_name": "n"}, name="SEG")

    def read(run, a, k, n, f):
        i = getattr(run, "_r", 0)
        run._r = i + 1
        return chunks[i] if i < len(chunks) else b""
    outcome = []
    # entered through the public Disk.page_in / page_out (the thread pool's submit modelled as an immediate call), so that what the submitting side
    # computes for the job — e.g. the spill path — is part of the picture
    submit_now = lambda run, a, k, n, f: run.call_value(a[0], None, list(a[1:]), dict(k), n, f)
    ent_in = repo.func(f"{DK}.page_in")
    ip = Interp(repo, call_models={"multiprocessing.shared_memory.SharedMemory": seg, ("method", "read"): read, ("method", "submit"): submit_now},
                inline={fi.qual}, max_while=8)
    paths = ip.explore(ent_in, env={"self.root": Obj("T", {"name": "/spill"}, name="root")},
                       args={"shmid": "s1", "size": 6, "callback": ModelFn("cb", lambda run, a, k, n, f: outcome.append(a[0] if a else None))})
    ctx.evals(len(paths))
    for p in paths:
        buf = bytearray(6)
        bad = None
        for e in p.effects:
            if e.kind == "store" and e.data.get("subscript") and getattr(e.data.get("base"), "__class__", None) is list and isinstance(e.data.get("index"), slice):
                sl, v = e.data["index"], e.data.get("value")
                if not isinstance(v, (bytes, bytearray)) or sl.start is None or sl.stop is None or sl.stop - sl.start != len(v) or sl.stop > 6:
                    bad = f"stores {vkey(v)} at [{sl.start}:{sl.stop}]"
                    break
                buf[sl.start:sl.stop] = v
        created = [e for e in p.effects if e.kind == "call" and (e.data.get("name") or "").endswith("SharedMemory")]
        kw = {}
        if created:
            kw = dict(created[0].data["kwargs"])
            for nm, v in zip(("name", "create", "size"), created[0].data["args"]):
                kw[nm] = v
        cbs = [e.data["args"][0] for e in p.effects if e.kind == "call" and e.data.get("name") == "callback" and e.data["args"]]
        if bad or bytes(buf) != b"abcdef":
            ctx.violation(rid, fi.qual, loc(fi), "page-in reassembles the file", f"spill file read as chunks b'abcd', b'ef': the re-created segment holds {bytes(buf)!r}"
                          f"{' (' + bad + ')' if bad else ''}; expected b'abcdef' — every chunk must land at the offset where the previous one ended")
        elif kw.get("name") != "s1" or kw.get("create") is not True or kw.get("size") != 6:
            ctx.violation(rid, fi.qual, loc(fi), "page-in recreates the segment", f"the segment is re-created as SharedMemory({vkey(kw)}); expected name 's1', create=True, the recorded size 6")
        elif cbs != [True]:
            ctx.violation(rid, fi.qual, loc(fi), "page-in reports success once", f"completion reported as {cbs}")
        else:
            ctx.ok(rid, loc(fi), "page-in: segment re-created with the recorded size, chunks stored contiguously from 0, success reported")
    # page out
    fo = repo.func(f"{DK}._page_out")
    ctx.analysed(fo.qual)

    def seg2(run, a, k, n, f):
        return Obj("multiprocessing.shared_memory.SharedMemory", {"buf": [1, 2, 3, 4, 5, 6], "_name": "n", "size": 6, "name": "n"}, name="SEG")
    ent_out = repo.func(f"{DK}.page_out")
    ip = Interp(repo, call_models={"multiprocessing.shared_memory.SharedMemory": seg2, ("method", "submit"): submit_now}, inline={fo.qual})
    paths = ip.explore(ent_out, env={"self.root": Obj("T", {"name": "/spill"}, name="root")}, args={"shmid": "s1", "callback": ModelFn("cb", lambda run, a, k, n, f: None)})
    ctx.evals(len(paths))
    for p in paths:
        wr = [e for e in p.effects if e.kind == "call" and e.data.get("method") == "write"]
        op = [e for e in p.effects if e.kind == "call" and e.data.get("name") == "builtins.open"]
        opi = [e for e in paths[0].effects if False]
        if len(wr) != 1 or list(wr[0].data["args"][0]) != [1, 2, 3, 4, 5, 6] if wr and isinstance(wr[0].data["args"][0], (list, tuple, bytes)) else True:
            ctx.violation(rid, fo.qual, loc(fo), "page-out writes the whole buffer",
                          f"segment bytes 1..6: the spill file receives {[vkey(e.data['args'][0])[:40] for e in wr]}; expected one write of all six bytes")
        elif not op or not str(op[0].data["args"][0]).endswith("/s1") or (len(op[0].data["args"]) > 1 and "w" not in str(op[0].data["args"][1])):
            ctx.violation(rid, fo.qual, loc(fo), "spill file named after the segment", f"spill file opened as {[vkey(a) for a in op[0].data['args']] if op else None}")
        else:
            ctx.ok(rid, loc(fo), "page-out: whole buffer written to <spill dir>/<segment name>")
    # the same on a segment of unknown length: the written term is the whole buffer, not a bounded slice of it
    def seg3(run, a, k, n, f):
        return Obj("multiprocessing.shared_memory.SharedMemory", {"buf": Sym("BUF"), "_name": "n"}, name="SEG")
    for p in Interp(repo, call_models={"multiprocessing.shared_memory.SharedMemory": seg3}).explore(
            fo, env={"self.root": Obj("T", {"name": "/spill"}, name="root")}, args={"shmid": "s1", "callback": ModelFn("cb", lambda *a: None)}):
        for e in p.effects:
            if e.kind == "call" and e.data.get("method") == "write" and e.data["args"]:
                t = e.data["args"][0]
                bounded = [x for x in subterms(t) if isinstance(x, Sub) and isinstance(x.index, slice) and not (x.index.start in (None, 0) and x.index.stop is None
                                                                                                           and x.index.step in (None, 1))]
                if bounded or not mentions(t, "BUF"):
                    ctx.violation(rid, fo.qual, loc(fo, e.node), "page-out writes the whole buffer", f"the spill file receives {vkey(t)[:80]}: a bounded part of the segment "
                                  f"(or something else than its buffer) — a dataset longer than the bound loses its tail when paged back in")
                else:
                    ctx.ok(rid, loc(fo, e.node), "page-out: the written term is the segment's whole buffer")
    # both sides name the spill file the same way
    pin = [e for p in Interp(repo, call_models={"multiprocessing.shared_memory.SharedMemory": seg, ("method", "read"): lambda run, a, k, n, f: b"", ("method", "submit"): submit_now},
                             inline={fi.qual}).explore(
        ent_in, env={"self.root": Obj("T", {"name": "/spill"}, name="root")}, args={"shmid": "s1", "size": 6, "callback": ModelFn("cb", lambda *a: None)})
        for e in p.effects if e.kind == "call" and e.data.get("name") == "builtins.open"]
    if pin and vkey(pin[0].data["args"][0]) != "'/spill/s1'":
        ctx.violation(rid, fi.qual, loc(fi), "page-in reads the file page-out wrote", f"page-in opens {vkey(pin[0].data['args'][0])}, page-out writes '/spill/s1'")
    elif pin:
        ctx.ok(rid, loc(fi), "page-in opens the file page-out wrote")


def r_server_shutdown(ctx):
    """C05 / C09: the shutdown command ends the server loop at once — answered 'ok' exactly once, to the requester, whatever the store holds
    (a reader that never closed: a worker killed mid-task, the data server in the middle of a transmit).  `Executor.terminate` asks once
    and then joins the process; a server that answers 'wait' or goes on serving is left behind with its segments when the executor exits."""
    repo = ctx.repo
    fi = repo.func(f"{SRV}.start")
    ctx.analysed(fi.qual)
    rid = f"{ctx.pid}.SHUTDOWN"
    client = Atom("client-1")
    n = 0
    for label, dsets in (("empty store", {}), ("a dataset with a reader that never closed", {"k": dset("in_memory", readers={"r": NOW - 9}, name="d")}),
                         ("a dataset still being written", {"k": dset("created", name="d")})):
        def m_receive(run, a, k, n_, f):
            c = getattr(run, "_rcv", 0)
            run._rcv = c + 1
            if c == 0:
                return (Obj(f"{API}.ShutdownCommand", {}, name="shutdown"), client)
            return (Obj(f"{API}.StatusInquiry", {}, name="later"), Atom("client-2"))
        ip = Interp(repo, call_models={**MODELS, f"{SRV}.receive": m_receive}, opaque={f"{SRV}.respond"}, inline=INL, max_while=2)
        paths = ip.explore(fi, env={"self.manager.free_space": 3, "self.manager.datasets": dsets}, args={})
        ctx.evals(len(paths))
        for p in paths:
            n += 1
            rs = _responses(p)
            mine = [r for r, dst in rs if dst is client]
            served_more = getattr(p, "heap", {}) is not None and any(dst is not client for _, dst in rs)
            spin = any(e.kind == "loop_exit" and e.data.get("bound") for e in p.effects) or p.exit[0] == "trunc"
            okk = p.exit[0] == "return" and not spin and not served_more and len(mine) == 1 and isinstance(mine[0], Obj) and not mine[0].fields.get("error")
            if not okk:
                ctx.violation(rid, fi.qual, loc(fi), "shutdown ends the server loop",
                              f"shutdown command with {label}: the loop {'keeps serving' if (spin or served_more) else 'ends with ' + p.exit[0]}, answers to the requester "
                              f"{[vkey(r)[:60] for r in mine]} — expected one OkResponse without error and the end of the loop; the executor asks once and exits, so a "
                              f"server that defers stays behind with every segment it holds")
                break
        else:
            ctx.ok(rid, loc(fi), f"shutdown | {label}: answered ok once, loop ends")
    ctx.floor(rid + ".paths", n, 3)


def r_client_failures(ctx):
    """C09.R14 / C05: failure behaviour of the client: (a) when the server cannot be reached (recv raises ConnectionRefusedError) a
    command fails — it is raised, or retried only while its time budget is being used up, never retried for ever; (b) closing a buffer
    tells the server that the reader / writer is gone only if the local close succeeded — when `shm.close()` raises (a view is still
    exported) the process still holds the segment, and deregistering it lets a purge / page-out hit memory that is in use."""
    repo = ctx.repo
    rid = "C09.R14" if ctx.pid == "C09" else "C05.R9"
    sfi = repo.func(f"{CLI}._send_command")
    ctx.analysed(sfi.qual)
    from ..terms import ClassRef
    ip = Interp(repo, max_while=5, raising=lambda d: "builtins.ConnectionRefusedError" if d.get("method") == "recv" else None,
                call_models={**MODELS, f"{API}.deser": lambda run, a, k, n, f: Obj(f"{API}.OkResponse", {"error": ""}, name="ok")})
    paths = ip.explore(sfi, env={}, args={"comm": Obj(f"{API}.GetRequest", {"key": "k"}, name="req"), "resp_class": ClassRef(f"{API}.OkResponse"), "timeout_sec": 60.0})
    ctx.evals(len(paths))
    n = 0
    for p in paths:
        recvs = [e for e in p.effects if e.kind == "call" and e.data.get("method") == "recv"]
        failed = [e for e in p.effects if e.kind == "raise" and (e.data.get("from_call") or "").endswith("recv")]
        if not recvs or len(failed) != len(recvs):
            continue  # a path on which some recv succeeded
        n += 1
        spin = [e for e in p.effects if e.kind == "loop_exit" and e.data.get("bound")]
        budget = [e for e in p.effects if e.kind == "aug" and "timeout_sec" in str(e.data.get("target"))]
        if spin and len(budget) < len(recvs) - 1:
            ctx.violation(rid, sfi.qual, loc(sfi), "unreachable server: the command fails in bounded time",
                          f"every recv raises (server gone): after {len(recvs)} attempts the command is still retrying and its time budget was charged {len(budget)} time(s) — "
                          f"a worker talking to a dead shm server never returns, is never reported as failed and blocks the executor's shutdown")
        elif p.exit[0] != "raise" and not spin:
            ctx.violation(rid, sfi.qual, loc(sfi), "unreachable server: the command fails", f"every recv raises but the command ends {p.exit[0]} {vkey(p.exit[1])[:60]}")
        else:
            ctx.ok(rid, loc(sfi), f"unreachable server: {'raised at once' if not spin else 'retried against the time budget'}")
    ctx.floor(f"{rid}.unreachable_paths", n, 1)
    # (b) close: server notified only after a successful local close
    cfi = repo.func(f"{CLI}.AllocatedBuffer.close")
    ctx.analysed(cfi.qual)
    sent = []
    SEG = Obj("multiprocessing.shared_memory.SharedMemory", {"_name": "n"}, name="SEG")
    ip = Interp(repo, raising=lambda d: "builtins.BufferError" if d.get("method") == "close" and getattr(d.get("recv_value"), "name", "") == "SEG" else None)
    cb = ModelFn_("notify-server")
    paths = ip.explore(cfi, env={"self.shm": SEG, "self.close_callback": cb}, args={})
    ctx.evals(len(paths))
    m = 0
    for p in paths:
        failed = any(e.kind == "raise" and (e.data.get("from_call") or "").endswith("close") for e in p.effects)
        told = [e for e in p.effects if e.kind == "call" and "notify-server" in vkey(e.data.get("callee"))]
        if failed:
            m += 1
            if told:
                ctx.violation(rid, cfi.qual, loc(cfi, told[0].node), "server told about a close that did not happen",
                              "when self.shm.close() raises (e.g. BufferError: a view is still exported) the close callback is sent all the same: the server drops the reader "
                              "while this process still maps the segment, so a purge or page-out can hit memory in use")
            else:
                ctx.ok(rid, loc(cfi), "failed local close: the server is not told the reader is gone")
        elif len(told) != 1:
            ctx.violation(rid, cfi.qual, loc(cfi), "server told about the close", f"successful close: the close callback is invoked {len(told)} time(s)")
    ctx.floor(f"{rid}.failed_close_paths", m, 1)


def ModelFn_(name):
    from ..terms import ModelFn
    return ModelFn(name, lambda run, a, k, n, f: None)


def r_manager_init(ctx):
    """C08.R6: a new store starts with free_space == capacity, and capacity never exceeds what the machine offers (configured None,
    less than, equal to and more than the available amount)."""
    repo = ctx.repo
    fi = repo.func(f"{DS}.Manager.__init__")
    ctx.analysed(fi.qual)
    for cfg, want in ((None, 8), (5, 5), (8, 8), (100, 8)):
        ip = Interp(repo, call_models={**MODELS, f"{DS}.get_capacity": lambda run, a, k, n, f: 8})
        paths = ip.explore(fi, env={}, args={"prefix": "p", "capacity": cfg})
        ctx.evals(len(paths))
        row = {"configured": cfg, "available": 8}
        for p in paths:
            cap, free = p.heap.get("self.capacity"), _free_space_of(repo, p)
            if p.exit[0] != "return" or cap != want or free != want:
                ctx.violation("C08.R6", fi.qual, loc(fi), "initial capacity and free space",
                              f"{row}: the store starts with capacity={vkey(cap)} free_space={vkey(free)} ({p.exit[0]}); expected both = {want} — free space above the "
                              f"capacity lets add() grant more than the machine has", row=row)
                break
        else:
            ctx.ok("C08.R6", loc(fi), f"Manager() | {row} -> capacity = free_space = {want}")


def r_size_nonnegative(ctx):
    """C08.R7: the size that reaches Manager.add from the wire cannot be negative: either AllocateRequest decodes its length as an
    unsigned integer, or add() refuses a negative size — a negative size passes both capacity checks and `free_space -= size` then
    *raises* the free space above the capacity."""
    repo = ctx.repo
    from .C17 import _deser_field, INL as C17_INL
    des = repo.find_method(f"{API}.AllocateRequest", "deser")
    ctx.analysed(des.qual)
    dp = Interp(repo, inline=C17_INL).explore(des)
    ctx.evals(len(dp))
    signed = None
    if len(dp) == 1 and dp[0].exit[0] == "return" and isinstance(dp[0].exit[1], App):
        rv = dp[0].exit[1]
        names = list(repo.classes[f"{API}.AllocateRequest"].fields)
        fields = {names[i]: a for i, a in enumerate(rv.args) if i < len(names)}
        fields.update(dict(rv.kwargs))
        f = _deser_field(fields.get("l"))
        if f is not None and f[0] == "int":
            signed = f[4]
    # does add() itself refuse a negative size?
    fi = repo.func(f"{DS}.Manager.add")
    env = {"self.datasets": {}, "self.capacity": 10, "self.free_space": 4, "self.prefix": "p"}
    guarded = True
    for p in Interp(repo, call_models=MODELS).explore(fi, env=env, args={"key": "k", "size": -6, "deser_fun": "df"}):
        f_after = p.heap.get("self.free_space")
        if p.exit[0] == "return" and (not isinstance(f_after, int) or f_after > 4 or "k" in (p.heap.get("self.datasets") or {})):
            guarded = False
    if signed is None and not guarded:
        ctx.undecided("C08.R7", loc(des), "cannot read how AllocateRequest decodes its length, and Manager.add accepts a negative size")
    elif signed and not guarded:
        ctx.violation("C08.R7", des.qual, loc(des), "allocation size cannot be negative",
                      "AllocateRequest.deser decodes the requested length as a *signed* integer and Manager.add does not refuse a negative size: a datagram with the top "
                      "bit set is granted, free_space -= size raises the free space above the capacity, and later requests that do not fit are granted")
    else:
        ctx.ok("C08.R7", loc(des), f"allocation size is non-negative ({'unsigned decode' if not signed else 'guard in add()'})")
