"""Loader and resolver: parses /repo/src (never imports or runs it) and indexes
modules, classes, functions, nested functions, imports, enums and type aliases
by qualified name.  stdlib `ast` only."""
from __future__ import annotations

import ast
import hashlib
import os
from dataclasses import dataclass, field
from typing import Iterator, Optional

REPO_ROOT = os.environ.get("VERIF_REPO", "/repo")
SRC_DIRS = ("src",)


class AnalysisError(Exception):
    """The analysis itself cannot proceed (anchor vanished, unsupported
    construct at a site a rule must decide, bound exceeded).  Exit code 2."""


@dataclass(repr=False)
class Module:
    name: str
    path: str
    tree: ast.Module
    source: str
    is_pkg: bool
    imports: dict[str, str] = field(default_factory=dict)  # local name -> qualified target
    digest: str = ""
    module_imports: set = field(default_factory=set)

    def __repr__(self) -> str:
        return f"<module {self.name}>"


@dataclass(repr=False)
class ClassInfo:
    qual: str
    node: ast.ClassDef
    module: Module
    bases: list[str] = field(default_factory=list)  # resolved quals where possible, else text
    methods: dict[str, "FuncInfo"] = field(default_factory=dict)
    fields: dict[str, Optional[ast.expr]] = field(default_factory=dict)  # name -> annotation
    init_values: dict[str, ast.expr] = field(default_factory=dict)  # self.<name> = <expr> in __init__
    class_attrs: dict[str, ast.expr] = field(default_factory=dict)  # name -> value expr
    outer: Optional["FuncInfo"] = None

    @property
    def name(self) -> str:
        return self.node.name

    def __repr__(self) -> str:
        return f"<class {self.qual}>"


@dataclass(repr=False)
class FuncInfo:
    qual: str
    node: ast.FunctionDef | ast.Lambda
    module: Module
    cls: Optional[ClassInfo] = None
    parent: Optional["FuncInfo"] = None
    nested: dict[str, "FuncInfo"] = field(default_factory=dict)
    decorators: list[str] = field(default_factory=list)

    @property
    def name(self) -> str:
        return getattr(self.node, "name", "<lambda>")

    def __repr__(self) -> str:
        return f"<func {self.qual}>"

    @property
    def params(self) -> list[str]:
        a = self.node.args
        names = [x.arg for x in a.posonlyargs + a.args]
        if a.vararg:
            names.append(a.vararg.arg)
        names += [x.arg for x in a.kwonlyargs]
        if a.kwarg:
            names.append(a.kwarg.arg)
        return names

    @property
    def is_generator(self) -> bool:
        for n in walk_scope(self.node):
            if isinstance(n, (ast.Yield, ast.YieldFrom)):
                return True
        return False

    @property
    def lineno(self) -> int:
        return self.node.lineno

    def loc(self, node: ast.AST | None = None) -> str:
        n = node if node is not None else self.node
        rel = os.path.relpath(self.module.path, REPO_ROOT)
        return f"{rel}:{getattr(n, 'lineno', '?')}"


def walk_scope(fn: ast.AST) -> Iterator[ast.AST]:
    """Walk the body of a function without descending into nested scopes."""
    body = fn.body if isinstance(fn.body, list) else [fn.body]
    todo = list(body)
    while todo:
        n = todo.pop()
        yield n
        if isinstance(n, (ast.FunctionDef, ast.AsyncFunctionDef, ast.Lambda, ast.ClassDef)):
            continue  # the def itself, not its body
        todo.extend(ast.iter_child_nodes(n))


class Repo:
    def __init__(self, root: str = REPO_ROOT, overlay: dict | None = None):
        """overlay: {absolute path: source text} replaces the file content (in-memory variants for the sweep)."""
        self.root = root
        self.overlay = overlay or {}
        self.modules: dict[str, Module] = {}
        self.classes: dict[str, ClassInfo] = {}
        self.funcs: dict[str, FuncInfo] = {}
        self.consts: dict[str, tuple[Module, ast.expr]] = {}  # module-level NAME = expr
        self.const_ann: dict[str, ast.expr] = {}
        self._load()

    # ------------------------------------------------------------------ load
    def _load(self) -> None:
        for sd in SRC_DIRS:
            base = os.path.join(self.root, sd)
            for dp, dns, fns in os.walk(base):
                dns[:] = [d for d in dns if d != "__pycache__"]
                for fn in sorted(fns):
                    if not fn.endswith(".py"):
                        continue
                    path = os.path.join(dp, fn)
                    rel = os.path.relpath(path, base)
                    parts = rel[:-3].split(os.sep)
                    is_pkg = parts[-1] == "__init__"
                    if is_pkg:
                        parts = parts[:-1]
                    name = ".".join(parts)
                    try:
                        src = self.overlay[path] if path in self.overlay else open(path, encoding="utf-8").read()
                        tree = ast.parse(src, filename=path)
                    except SyntaxError as e:  # the tree does not "build"
                        raise AnalysisError(f"cannot parse {path}: {e}")
                    m = Module(name, path, tree, src, is_pkg)
                    m.digest = hashlib.sha256(src.encode()).hexdigest()[:16]
                    self.modules[name] = m
        for m in self.modules.values():
            self._index_module(m)

    def _index_module(self, m: Module) -> None:
        pkg = m.name if m.is_pkg else m.name.rpartition(".")[0]

        def add_imports(stmts):
            for st in stmts:
                if isinstance(st, ast.Import):
                    for a in st.names:
                        if a.asname:
                            m.imports[a.asname] = a.name
                            m.module_imports.add(a.asname)
                        else:
                            top = a.name.split(".")[0]
                            m.imports[top] = top
                            m.module_imports.add(top)
                elif isinstance(st, ast.ImportFrom):
                    if st.level:
                        base_parts = pkg.split(".") if pkg else []
                        if st.level > 1:
                            base_parts = base_parts[: len(base_parts) - (st.level - 1)]
                        base = ".".join(base_parts + ([st.module] if st.module else []))
                    else:
                        base = st.module or ""
                    for a in st.names:
                        m.imports[a.asname or a.name] = f"{base}.{a.name}" if base else a.name
                elif isinstance(st, (ast.Try, ast.If)):
                    add_imports(st.body)
                    add_imports(getattr(st, "orelse", []))
                    for h in getattr(st, "handlers", []):
                        add_imports(h.body)

        add_imports(m.tree.body)
        self._index_body(m, m.tree.body, m.name, None, None)

    def _index_body(self, m, stmts, prefix, cls: ClassInfo | None, parent: FuncInfo | None):
        for st in stmts:
            if isinstance(st, (ast.FunctionDef, ast.AsyncFunctionDef)):
                self._index_func(m, st, prefix, cls, parent)
            elif isinstance(st, ast.ClassDef):
                ci = ClassInfo(f"{prefix}.{st.name}", st, m, outer=parent)
                self.classes[ci.qual] = ci
                for b in st.bases:
                    ci.bases.append(self._text(b))
                for s2 in st.body:
                    if isinstance(s2, ast.AnnAssign) and isinstance(s2.target, ast.Name):
                        ci.fields[s2.target.id] = s2.annotation
                        if s2.value is not None:
                            ci.class_attrs[s2.target.id] = s2.value
                    elif isinstance(s2, ast.Assign):
                        for t in s2.targets:
                            if isinstance(t, ast.Name):
                                ci.class_attrs[t.id] = s2.value
                self._index_body(m, st.body, ci.qual, ci, parent)
            elif cls is None and parent is None:
                if isinstance(st, ast.Assign):
                    for t in st.targets:
                        if isinstance(t, ast.Name):
                            self.consts[f"{prefix}.{t.id}"] = (m, st.value)
                elif isinstance(st, ast.AnnAssign) and isinstance(st.target, ast.Name):
                    if st.value is not None:
                        self.consts[f"{prefix}.{st.target.id}"] = (m, st.value)
                    self.const_ann[f"{prefix}.{st.target.id}"] = st.annotation
                elif isinstance(st, (ast.Try, ast.If)):
                    self._index_body(m, st.body, prefix, None, None)

    def _index_func(self, m, node, prefix, cls, parent) -> FuncInfo:
        fi = FuncInfo(f"{prefix}.{node.name}", node, m, cls, parent)
        fi.decorators = [self._text(d) for d in node.decorator_list]
        self.funcs[fi.qual] = fi
        if cls is not None and (parent is None or cls.outer is parent):
            cls.methods[node.name] = fi
        if parent is not None:
            parent.nested[node.name] = fi
        # nested defs / lambdas assigned to names / classes
        for n in walk_scope(node):
            if isinstance(n, (ast.FunctionDef, ast.AsyncFunctionDef)):
                self._index_func(m, n, fi.qual, None, fi)
            elif isinstance(n, ast.ClassDef):
                self._index_body(m, [n], fi.qual, None, fi)
            elif isinstance(n, ast.Assign) and isinstance(n.value, ast.Lambda):
                for t in n.targets:
                    if isinstance(t, ast.Name):
                        li = FuncInfo(f"{fi.qual}.{t.id}", n.value, m, None, fi)
                        self.funcs[li.qual] = li
                        fi.nested[t.id] = li
        # __init__ assignments give instance fields
        if cls is not None and node.name == "__init__":
            for n in walk_scope(node):
                tgt = None
                ann = None
                if isinstance(n, ast.Assign) and len(n.targets) == 1:
                    tgt, val = n.targets[0], n.value
                elif isinstance(n, ast.AnnAssign):
                    tgt, val, ann = n.target, n.value, n.annotation
                else:
                    continue
                if (
                    isinstance(tgt, ast.Attribute)
                    and isinstance(tgt.value, ast.Name)
                    and tgt.value.id == "self"
                ):
                    if tgt.attr not in cls.fields or cls.fields[tgt.attr] is None:
                        cls.fields[tgt.attr] = ann if ann is not None else _ctor_ann(val)
                    if val is not None:
                        cls.init_values.setdefault(tgt.attr, val)
        return fi

    @staticmethod
    def _text(n: ast.AST) -> str:
        try:
            return ast.unparse(n)
        except Exception:
            return "<?>"

    # --------------------------------------------------------------- lookup
    def func(self, qual: str) -> FuncInfo:
        fi = self.funcs.get(qual)
        if fi is None:
            raise AnalysisError(f"anchor function vanished: {qual}")
        return fi

    def cls(self, qual: str) -> ClassInfo:
        ci = self.classes.get(qual)
        if ci is None:
            raise AnalysisError(f"anchor class vanished: {qual}")
        return ci

    def module(self, name: str) -> Module:
        m = self.modules.get(name)
        if m is None:
            raise AnalysisError(f"anchor module vanished: {name}")
        return m

    def lookup(self, qual: str, _depth: int = 0):
        """qualified name -> ('module'|'class'|'func'|'const', obj) or None; follows
        import aliases (re-exports)."""
        if _depth > 8:
            return None
        if qual in self.modules:
            return ("module", self.modules[qual])
        if qual in self.classes:
            return ("class", self.classes[qual])
        if qual in self.funcs:
            return ("func", self.funcs[qual])
        if qual in self.consts:
            return ("const", self.consts[qual])
        head, _, tail = qual.rpartition(".")
        if not head:
            return None
        if head in self.modules:
            m = self.modules[head]
            if tail in m.imports:
                return self.lookup(m.imports[tail], _depth + 1)
            return None
        # member of something reachable through an alias
        r = self.lookup(head, _depth + 1)
        if r is None:
            return None
        kind, obj = r
        if kind == "module":
            return self.lookup(f"{obj.name}.{tail}", _depth + 1)
        if kind == "class":
            if tail in obj.methods:
                return ("func", obj.methods[tail])
            q = f"{obj.qual}.{tail}"
            if q in self.classes:
                return ("class", self.classes[q])
            if tail in obj.class_attrs:
                return ("classattr", (obj, obj.class_attrs[tail]))
        return None

    def resolve_name(self, m: Module, name: str) -> Optional[str]:
        """A bare name used at module scope of `m` -> qualified name (may be external)."""
        q = f"{m.name}.{name}"
        if q in self.classes or q in self.funcs or q in self.consts:
            return q
        if name in m.imports:
            return m.imports[name]
        return None

    def resolve_expr(self, m: Module, e: ast.expr) -> Optional[str]:
        """Name / dotted Attribute chain -> qualified name, canonicalised through aliases."""
        parts = []
        while isinstance(e, ast.Attribute):
            parts.append(e.attr)
            e = e.value
        if not isinstance(e, ast.Name):
            return None
        q = self.resolve_name(m, e.id)
        if q is None:
            return None
        for p in reversed(parts):
            q = f"{q}.{p}"
        return self.canon(q)

    def canon(self, qual: str) -> str:
        r = self.lookup(qual)
        if r is None:
            return qual
        kind, obj = r
        if kind == "module":
            return obj.name
        if kind in ("class", "func"):
            return obj.qual
        return qual

    # ---------------------------------------------------------------- types
    def class_mro(self, qual: str) -> list[str]:
        out, todo = [], [qual]
        while todo:
            q = todo.pop(0)
            if q in out:
                continue
            out.append(q)
            ci = self.classes.get(q)
            if ci is None:
                continue
            for b in ci.node.bases:
                rb = self.resolve_expr(ci.module, b) if isinstance(b, (ast.Name, ast.Attribute)) else None
                todo.append(rb or self._text(b))
        return out

    def is_subclass(self, qual: str, of: str) -> bool:
        return of in self.class_mro(qual)

    def find_method(self, cls_qual: str, name: str) -> Optional[FuncInfo]:
        for q in self.class_mro(cls_qual):
            ci = self.classes.get(q)
            if ci and name in ci.methods:
                return ci.methods[name]
        return None

    def field_ann(self, cls_qual: str, name: str) -> tuple[Optional[ClassInfo], Optional[ast.expr]]:
        for q in self.class_mro(cls_qual):
            ci = self.classes.get(q)
            if ci and name in ci.fields:
                return ci, ci.fields[name]
        return None, None

    def is_enum(self, cls_qual: str) -> bool:
        return any(b.split(".")[-1] in ("Enum", "IntEnum", "StrEnum") for b in self.class_mro(cls_qual)[1:])

    def enum_members(self, cls_qual: str) -> list[str]:
        ci = self.cls(cls_qual)
        out = []
        for st in ci.node.body:
            if isinstance(st, ast.Assign):
                for t in st.targets:
                    if isinstance(t, ast.Name) and not t.id.startswith("_"):
                        out.append(t.id)
        return out

    def union_members(self, m: Module, e: ast.expr) -> Optional[list[str]]:
        """A | B | C (possibly through aliases) -> list of class quals."""
        if isinstance(e, ast.BinOp) and isinstance(e.op, ast.BitOr):
            l = self.union_members(m, e.left)
            r = self.union_members(m, e.right)
            if l is None or r is None:
                return None
            return l + r
        if isinstance(e, ast.Tuple):
            out = []
            for x in e.elts:
                r = self.union_members(m, x)
                if r is None:
                    return None
                out += r
            return out
        if isinstance(e, (ast.Name, ast.Attribute)):
            q = self.resolve_expr(m, e)
            if q is None:
                return None
            r = self.lookup(q)
            if r is None:
                return [q]  # external class (e.g. builtins)
            kind, obj = r
            if kind == "class":
                return [obj.qual]
            if kind == "const":
                cm, ce = obj
                return self.union_members(cm, ce)
            return None
        if isinstance(e, ast.Constant) and e.value is None:
            return ["builtins.NoneType"]
        return None

    def all_funcs(self) -> list[FuncInfo]:
        return list(self.funcs.values())

    def digest(self, module_names: list[str] | None = None) -> str:
        h = hashlib.sha256()
        for n in sorted(module_names or self.modules):
            if n in self.modules:
                h.update(self.modules[n].digest.encode())
        return h.hexdigest()[:16]


def _ctor_ann(val: ast.expr | None) -> Optional[ast.expr]:
    """`self.x = ClassName(...)` -> annotation `ClassName`."""
    if isinstance(val, ast.Call) and isinstance(val.func, (ast.Name, ast.Attribute)):
        return val.func
    return None


_REPO: Repo | None = None


def get_repo() -> Repo:
    global _REPO
    if _REPO is None:
        _REPO = Repo()
    return _REPO


def set_repo(repo: Repo | None) -> None:
    """Swap the process-wide repository (used by the in-memory sweep); clears dependent caches."""
    global _REPO
    _REPO = repo
    try:
        from . import calls
        calls._RA_CACHE.clear()
        from .props import common
        common._scan = None
    except Exception:
        pass


def _read_list(name):
    path = os.path.join(os.path.dirname(os.path.abspath(__file__)), name)
    try:
        return {l.strip() for l in open(path) if l.strip() and not l.startswith("#")}
    except OSError:
        return set()


KNOWN_FUNCS = _read_list("known_functions.txt")
KNOWN_CLASSES = _read_list("known_classes.txt")


def _read_params():
    path = os.path.join(os.path.dirname(os.path.abspath(__file__)), "known_params.txt")
    out = {}
    try:
        for l in open(path):
            if l.strip() and not l.startswith("#"):
                q, *ps = l.split()
                out[q] = set(ps)
    except OSError:
        pass
    return out


KNOWN_PARAMS = _read_params()
