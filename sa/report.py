"""Obligation bookkeeping, VIOLATION / KNOWN-FINDING / ANALYSIS-ERROR lines, evidence and replay files."""
from __future__ import annotations

import json
import os
import re
import time
from dataclasses import dataclass, field

VERIF = os.path.dirname(os.path.dirname(os.path.abspath(__file__)))
KNOWN_FILE = os.path.join(VERIF, "KNOWN_FINDINGS.txt")


def norm(s: str) -> str:
    return re.sub(r"\s+", " ", s).strip()


@dataclass
class Violation:
    rule: str
    key: str
    site: str
    func: str
    what: str
    detail: dict = field(default_factory=dict)


class Ctx:
    """One run of one property's rule set."""

    def __init__(self, pid: str, tier: str, repo):
        self.pid = pid
        self.tier = tier
        self.repo = repo
        self.t0 = time.time()
        self.obligations: list[dict] = []
        self.violations: list[Violation] = []
        self.errors: list[str] = []
        self.notes: list[str] = []
        self.evaluations = 0
        self.nontrivial: set[str] = set()
        self.functions: set[str] = set()
        self.floors: dict[str, tuple[int, int]] = {}
        self.samples: list = []
        self.tables: dict[str, list] = {}
        self.controls: list[dict] = []

    # ------------------------------------------------------------ recording
    def ok(self, rule: str, site: str, what: str, nontrivial: bool = True, sample=None):
        self.obligations.append({"rule": rule, "site": site, "what": what, "verdict": "holds"})
        if nontrivial:
            self.nontrivial.add(f"{rule}|{site}|{what}")
        if sample is not None and len(self.samples) < 12:
            self.samples.append(sample)

    def violation(self, rule: str, func: str, site: str, construct: str, what: str, **detail):
        key = f"{rule}:{func}:{norm(construct)}"
        self.obligations.append({"rule": rule, "site": site, "what": what, "verdict": "VIOLATED"})
        self.nontrivial.add(f"{rule}|{site}|{what}")
        if not any(v.key == key for v in self.violations):
            self.violations.append(Violation(rule, key, site, func, what, detail))

    def undecided(self, rule: str, site: str, why: str):
        self.errors.append(f"{rule} at {site}: {why}")

    def note(self, text: str):
        if text not in self.notes:
            self.notes.append(text)

    def evals(self, n: int = 1):
        self.evaluations += n

    def analysed(self, qual: str):
        self.functions.add(qual)

    def floor(self, rule: str, found: int, expected_min: int):
        self.floors[rule] = (found, expected_min)
        if found < expected_min:
            self.errors.append(f"{rule}: matched {found} instance(s), fewer than the {expected_min} confirmed by hand "
                               f"(anchor moved or rule went vacuous)")

    def table(self, rule: str, rows: list):
        self.tables[rule] = rows

    # ------------------------------------------------------------- finishing
    def finish(self, meta: dict) -> int:
        known, fixed = load_known()
        wall = time.time() - self.t0
        out_dir = os.path.join(VERIF, "out", self.pid)
        lines = []
        unknown = []
        known_hits = []
        for v in self.violations:
            kf = next((k for k in known if k["property"] == self.pid and k["key"] == v.key), None)
            if kf:
                known_hits.append((v, kf))
            else:
                unknown.append(v)
        for v, kf in known_hits:
            lines.append(f"KNOWN-FINDING: property={self.pid} {kf['text']} [{v.rule} at {v.site}]")
        code = 0
        if self.errors:
            code = 2
            for e in self.errors:
                lines.append(f"ANALYSIS-ERROR property={self.pid} {e}")
        if unknown:
            code = 1 if code == 0 else code
            os.makedirs(out_dir, exist_ok=True)
            for i, v in enumerate(unknown):
                rp = os.path.join(out_dir, f"{re.sub(r'[^A-Za-z0-9_.-]+', '_', v.key)[:120]}.json")
                with open(rp, "w") as f:
                    json.dump({"property": self.pid, "rule": v.rule, "key": v.key, "site": v.site, "function": v.func,
                               "what": v.what, "detail": _js(v.detail)}, f, indent=1)
                lines.append(f"  {v.rule} {v.site} in {v.func}: {v.what}")
                lines.append(f"VIOLATION property={self.pid} replay={rp}")
            if code == 2 and unknown:
                code = 1
        n_obl = len(self.obligations)
        n_ok = sum(1 for o in self.obligations if o["verdict"] == "holds")
        ev = {
            "property_id": self.pid,
            "tier": self.tier,
            "seed": int(os.environ.get("VERIF_SEED", "0") or 0),
            "level": "other",
            "coverage": {
                "explanation": meta.get("explanation", ""),
                "obligations": n_obl,
                "discharged": n_ok,
                "evaluations": max(self.evaluations, n_obl),
                "distinct_nontrivial": len(self.nontrivial),
                "rule": meta.get("rule", "each obligation is a (rule, site, condition) triple decided on /repo's current "
                                 "source; evaluations counts abstract-interpretation paths, truth-table rows and scanned "
                                 "sites; an obligation is non-trivial when its verdict depends on the analysed code "
                                 "(not a constant of the checker)"),
                "samples": self.samples[:12] or [o for o in self.obligations[:5]],
                "exhaustive": True,
                "functions_analysed": sorted(self.functions),
                "instance_floors": {k: {"found": a, "min": b} for k, (a, b) in self.floors.items()},
                "truth_tables": {k: v[:40] for k, v in self.tables.items()},
                "positive_controls": self.controls,
                "obligation_list": self.obligations,
                "notes": self.notes,
                "known_findings_matched": [kf["text"] for _, kf in known_hits],
                "fixed_findings_recorded": [f["text"] for f in fixed if f["property"] == self.pid],
                "trusted_base": ["CPython ast parser", "/verif/sa abstract interpreter and rule tables",
                                 "per-property spec tables in DESIGN.md section 4"],
                "repo_digest": self.repo.digest(),
                "sensitivity_sweep": getattr(self, "sweep", None),
            },
            "assumptions": meta.get("assumptions", []),
            "wall_s": round(wall, 3),
            "violations": len(unknown),
            "analysis_errors": self.errors,
        }
        os.makedirs(os.path.join(VERIF, "evidence"), exist_ok=True)
        with open(os.path.join(VERIF, "evidence", f"{self.pid}.json"), "w") as f:
            json.dump(_js(ev), f, indent=1)
        print(f"[{self.pid} {self.tier}] obligations={n_obl} discharged={n_ok} violations={len(unknown)} "
              f"known={len(known_hits)} errors={len(self.errors)} functions={len(self.functions)} "
              f"evaluations={ev['coverage']['evaluations']} wall={wall:.2f}s")
        sw = getattr(self, "sweep", None)
        if sw:
            print(f"[{self.pid} sweep] mutants={sw['mutants']} killed={sw['killed']} undecided={sw['undecided_exit2']} survived={sw['survived']} | "
                  f"rewrites={sw['rewrites']} silent={sw['rewrites_silent']} alarms={len(sw['rewrite_alarms'])}")
        for l in lines:
            print(l)
        return code


def _js(o, _d=0):
    if _d > 8:
        return str(o)
    if isinstance(o, dict):
        return {str(k): _js(v, _d + 1) for k, v in o.items()}
    if isinstance(o, (list, tuple, set, frozenset)):
        return [_js(x, _d + 1) for x in o]
    if isinstance(o, (str, int, float, bool)) or o is None:
        return o
    return str(o)


def load_known():
    known, fixed = [], []
    if not os.path.exists(KNOWN_FILE):
        return known, fixed
    for line in open(KNOWN_FILE):
        line = line.strip()
        if not line or line.startswith("#"):
            continue
        if line.startswith("known:"):
            m = re.match(r"known:\s+property=(\S+)\s+key=(.*?)\s+::\s+(.*)$", line)
            if m:
                known.append({"property": m.group(1), "key": norm(m.group(2)), "text": m.group(3)})
        elif line.startswith("fixed:"):
            m = re.match(r"fixed:\s+property=(\S+)\s+(.*)$", line)
            if m:
                fixed.append({"property": m.group(1), "text": m.group(2)})
    return known, fixed
