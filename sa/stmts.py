"""Statement execution for the abstract interpreter (mixin of interp.Run)."""
from __future__ import annotations

import ast

from .repo import AnalysisError
from .terms import (App, Atom, Attr, Closure, Elem, EnumVal, FuncRef, Obj, Op, Sub, Sym, Term, contains_term, vkey)

PY_CONTAINERS = (list, tuple, dict, set, frozenset, str, bytes, range)


class StmtMixin:
    # ------------------------------------------------------------ functions
    def bind_param_types(self, fr):
        fi = fr.fi
        a = fi.node.args
        for arg in a.posonlyargs + a.args + a.kwonlyargs:
            if arg.annotation is not None:
                t = self.ann_classes(fi.module, arg.annotation)
                if t:
                    self.tpos.setdefault(arg.arg, set(t))

    def exec_function_body(self, fr):
        from .interp import _Return

        node = fr.fi.node
        if isinstance(node, ast.Lambda):
            return self.eval(node.body, fr)
        try:
            self.exec_block(node.body, fr)
        except _Return as r:
            return r.value
        return None

    def exec_block(self, stmts, fr):
        for st in stmts:
            self.exec_stmt(st, fr)

    def exec_stmt(self, st, fr):
        self.tick()
        m = getattr(self, "st_" + type(st).__name__, None)
        if m is None:
            raise AnalysisError(f"unsupported statement {type(st).__name__} at {fr.fi.loc(st)}")
        return m(st, fr)

    # ------------------------------------------------------------- simple
    def st_Pass(self, st, fr):
        pass

    def st_Expr(self, st, fr):
        if isinstance(st.value, ast.Constant):
            return
        self._stmt_call = st.value
        v = self.eval(st.value, fr)
        if not isinstance(st.value, (ast.Call, ast.Yield, ast.YieldFrom, ast.NamedExpr, ast.Await)):
            self.effect("discard", st, fr, value=v)
        elif isinstance(st.value, ast.Call) and isinstance(v, Obj) and self.is_exception_class(v.cls):
            self.effect("discard", st, fr, value=v)

    def st_Assign(self, st, fr):
        v, ref = self.eval_ref(st.value, fr)
        for t in st.targets:
            self.assign(t, v, fr, st, ref)

    def st_AnnAssign(self, st, fr):
        if st.value is None:
            return
        v, ref = self.eval_ref(st.value, fr)
        self.assign(st.target, v, fr, st, ref)

    def st_AugAssign(self, st, fr):
        opname = type(st.op).__name__
        rhs = self.eval(st.value, fr)
        if isinstance(st.target, ast.Name):
            cur = self.load_name(st.target.id, fr, st.target)
            new = self.binop(opname, cur, rhs, st)
            self.store_name(st.target.id, new, fr, None)
            self.effect("aug", st, fr, target=st.target.id, ref=None, op=opname, value=rhs, local=True)
            return
        # attribute / subscript
        loader = ast.copy_location(_as_load(st.target), st.target)
        cur, ref = self.eval_ref(loader, fr)
        if isinstance(cur, PY_CONTAINERS) and isinstance(cur, (list, set, dict)) and opname in ("Add", "BitOr", "Sub", "BitAnd"):
            # in-place container update
            try:
                if isinstance(cur, list) and opname == "Add":
                    cur.extend(list(rhs) if isinstance(rhs, (list, tuple)) else [App("iter", (rhs,))])
                elif isinstance(cur, set) and isinstance(rhs, (set, frozenset)):
                    {"BitOr": cur.update, "Sub": cur.difference_update, "BitAnd": cur.intersection_update}[opname](rhs)
                elif isinstance(cur, dict) and opname == "BitOr" and isinstance(rhs, dict):
                    cur.update(rhs)
            except Exception:
                pass
            new = cur
        else:
            new = self.binop(opname, cur, rhs, st)
        self.assign(st.target, new, fr, st, None, record=False)
        self.effect("aug", st, fr, target=vkey(ref) if ref is not None else ast.unparse(st.target), ref=ref,
                    op=opname, value=rhs, local=False, field=self.field_of(ref))

    def st_Delete(self, st, fr):
        for t in st.targets:
            if isinstance(t, ast.Name):
                if t.id in fr.locals:
                    del fr.locals[t.id]
                self.effect("del", st, fr, target=t.id, ref=None)
            elif isinstance(t, ast.Subscript):
                base, bref = self.eval_ref(t.value, fr)
                idx = self.eval_index(t.slice, fr)
                if isinstance(base, (dict, list)):
                    try:
                        del base[idx]
                    except Exception:
                        pass
                ref = Sub(bref, idx) if bref is not None else None
                self.effect("del", st, fr, target=vkey(ref) if ref is not None else ast.unparse(t), ref=ref,
                            field=self.field_of(bref), index=idx)
            elif isinstance(t, ast.Attribute):
                base, bref = self.eval_ref(t.value, fr)
                ref = Attr(bref, t.attr) if bref is not None else None
                if ref is not None:
                    self.heap.pop(ref.key(), None)
                self.effect("del", st, fr, target=vkey(ref) if ref is not None else ast.unparse(t), ref=ref)

    def st_Global(self, st, fr):
        pass

    def st_Nonlocal(self, st, fr):
        pass

    def _import_guarded(self, st, fr) -> bool:
        """is this import statement inside a try whose handlers catch ImportError (an optional dependency)?"""
        for t in ast.walk(fr.fi.node):
            if isinstance(t, ast.Try) and any(st is x for b in t.body for x in ast.walk(b)):
                for h in t.handlers:
                    names = [] if h.type is None else [ast.unparse(e) for e in (h.type.elts if isinstance(h.type, ast.Tuple) else [h.type])]
                    if h.type is None or any(n.split(".")[-1] in ("ImportError", "ModuleNotFoundError") for n in names):
                        return True
        return False

    def st_Import(self, st, fr):
        for a in st.names:
            nm = (a.asname or a.name).split(".")[0]
            from .terms import ModRef

            if a.name.split(".")[0] not in ("cascade", "earthkit") and a.name not in self.repo.modules and self._import_guarded(st, fr):
                # optional third-party module imported under `except ImportError`: both outcomes are explored
                if self.decide(f"import_fails({a.name})", st):
                    self.raise_implicit("builtins.ImportError", st, fr)

            self.store_name(nm, ModRef(a.name if a.asname else a.name.split(".")[0]), fr, None)

    def st_ImportFrom(self, st, fr):
        for a in st.names:
            q = f"{st.module}.{a.name}" if st.module else a.name
            self.store_name(a.asname or a.name, self.global_value(q, fr), fr, None)

    def st_FunctionDef(self, st, fr):
        fi = fr.fi.nested.get(st.name) or self.repo.funcs.get(f"{fr.fi.qual}.{st.name}")
        if fi is None:
            raise AnalysisError(f"nested function not indexed: {fr.fi.qual}.{st.name}")
        self.store_name(st.name, Closure(fi, fr), fr, None)

    def st_ClassDef(self, st, fr):
        from .terms import ClassRef

        self.store_name(st.name, ClassRef(f"{fr.fi.qual}.{st.name}"), fr, None)

    def st_Assert(self, st, fr):
        from .interp import _Raise

        t = self.truth(self.eval(st.test, fr), st.test, fr)
        if not t:
            exc = Obj("builtins.AssertionError", args=())
            self.effect("raise", st, fr, value=exc)
            raise _Raise(exc, st)

    def st_Return(self, st, fr):
        from .interp import _Return

        v = self.eval(st.value, fr) if st.value is not None else None
        self.effect("return", st, fr, value=v)
        raise _Return(v)

    def st_Raise(self, st, fr):
        from .interp import _Raise

        if st.exc is None:
            exc = fr.exc_stack[-1] if fr.exc_stack else Obj("builtins.RuntimeError")
            self.effect("raise", st, fr, value=exc, reraise=True)
            raise _Raise(exc, st)
        exc = self.eval(st.exc, fr)
        from .terms import BuiltinRef, ClassRef

        if isinstance(exc, BuiltinRef):
            exc = Obj("builtins." + exc.name)
        elif isinstance(exc, ClassRef):
            exc = Obj(exc.qual)
        if st.cause is not None:
            self.eval(st.cause, fr)
        self.effect("raise", st, fr, value=exc, reraise=False)
        raise _Raise(exc, st)

    def st_Break(self, st, fr):
        from .interp import _Break

        raise _Break()

    def st_Continue(self, st, fr):
        from .interp import _Continue

        raise _Continue()

    # -------------------------------------------------------------- control
    def st_If(self, st, fr):
        if self.truth(self.eval(st.test, fr), st.test, fr):
            self.exec_block(st.body, fr)
        else:
            self.exec_block(st.orelse, fr)

    # ------------------------------------------------------------- match
    def st_Match(self, st, fr):
        """`match` is executed as the if/elif chain it abbreviates: the subject is evaluated once, each case pattern becomes a test expression
        over it (class pattern -> isinstance + attribute sub-patterns, value -> ==, singleton -> is, or-pattern -> or, sequence -> length +
        element tests) and its captures become assignments; everything is then handled by the ordinary expression machinery."""
        cache = self.repo.__dict__.setdefault("_match_desugar", {})
        if id(st) not in cache:
            cache[id(st)] = (st, _desugar_match(st, fr.fi, self.repo))
        tmp, chain = cache[id(st)][1]
        self.store_name(tmp, self.eval(st.subject, fr), fr, None)
        self.exec_block(chain, fr)

    def st_While(self, st, fr):
        from .interp import _Break, _Continue, _Trunc

        n = 0
        const_true = isinstance(st.test, ast.Constant) and bool(st.test.value)
        while True:
            if not self.truth(self.eval(st.test, fr), st.test, fr):
                self.effect("loop_exit", st, fr, loop=id(st), iters=n)
                self.exec_block(st.orelse, fr)
                return
            if n >= self.opts.max_while:
                self.notes.append(f"while bound at {fr.fi.loc(st)}")
                if const_true:
                    raise _Trunc(f"while-True bound at {fr.fi.loc(st)}")
                self.effect("loop_exit", st, fr, loop=id(st), iters=n, bound=True)
                return
            self.effect("loop_iter", st, fr, loop=id(st), k=n, elem=None)
            n += 1
            try:
                self.exec_block(st.body, fr)
            except _Break:
                self.effect("loop_exit", st, fr, loop=id(st), iters=n, broke=True)
                return
            except _Continue:
                continue

    def st_For(self, st, fr):
        from .interp import _Break, _Continue

        it, itref = self.eval_ref(st.iter, fr)
        items = self.concrete_iter(it)
        n = 0
        if items is not None:
            if len(items) > self.opts.max_concrete_iter:
                items = items[: self.opts.max_concrete_iter]
                self.notes.append(f"concrete loop cut at {fr.fi.loc(st)}")
            for x in items:
                self.effect("loop_iter", st, fr, loop=id(st), k=n, elem=x, it=it, itref=itref)
                n += 1
                self.assign(st.target, x, fr, st, None, record=False)
                try:
                    self.exec_block(st.body, fr)
                except _Break:
                    self.effect("loop_exit", st, fr, loop=id(st), iters=n, broke=True)
                    return
                except _Continue:
                    continue
            self.effect("loop_exit", st, fr, loop=id(st), iters=n)
            self.exec_block(st.orelse, fr)
            return
        # symbolic iterable
        while n < self.opts.max_iter:
            key = self.nonempty_key(it, n, st)
            if not self.decide(key, st):
                break
            x = self.elem_of(it, n)
            self.effect("loop_iter", st, fr, loop=id(st), k=n, elem=x, it=it, itref=itref)
            n += 1
            self.assign(st.target, x, fr, st, None, record=False)
            try:
                self.exec_block(st.body, fr)
            except _Break:
                self.effect("loop_exit", st, fr, loop=id(st), iters=n, broke=True)
                return
            except _Continue:
                continue
        self.effect("loop_exit", st, fr, loop=id(st), iters=n, bound=(n >= self.opts.max_iter))
        self.exec_block(st.orelse, fr)

    def elem_of(self, it, n):
        """n-th element of a symbolic iterable; a comprehension's element is its elt
        instantiated for iteration n."""
        from .terms import Comp, Mut

        base = it
        while isinstance(base, Mut):
            base = base.prev
        if isinstance(base, Comp) and base.kind in ("list", "gen", "set") and base.elt is not None:
            return subst_star(base.elt, n)
        return Elem(it, n)

    def nonempty_key(self, it, n, st) -> str:
        if n == 0:
            return f"truthy({vkey(it)})"
        return f"more({vkey(it)},{n})"

    def concrete_iter(self, it):
        if isinstance(it, (list, tuple)):
            return list(it)
        if isinstance(it, (set, frozenset)):
            return sorted(it, key=vkey)
        if isinstance(it, dict):
            return list(it.keys())
        if isinstance(it, (str, range)):
            return list(it)
        if isinstance(it, _ConcreteIter):
            return it.drain()
        return None

    def st_With(self, st, fr):
        from .interp import _Signal

        ctxs = []
        for item in st.items:
            cv, cref = self.eval_ref(item.context_expr, fr)
            self.effect("with_enter", st, fr, ctx=cv, ref=cref, field=self.field_of(cref), text=ast.unparse(item.context_expr))
            ctxs.append((cv, cref, item))
            if item.optional_vars is not None:
                val = cv if isinstance(cv, Obj) else App("__enter__", (cv,), uid=self.next_uid())
                self.assign(item.optional_vars, val, fr, st, None, record=False)

        def leave():
            for cv, cref, item in reversed(ctxs):
                self.effect("with_exit", st, fr, ctx=cv, ref=cref, field=self.field_of(cref), text=ast.unparse(item.context_expr))

        try:
            self.exec_block(st.body, fr)
        except _Signal:
            leave()
            raise
        leave()

    def st_Try(self, st, fr):
        from .interp import _Break, _Continue, _Raise, _Return

        modelled = (_Return, _Break, _Continue, _Raise)
        try:
            try:
                self.exec_block(st.body, fr)
            except _Raise as r:
                h = self.match_handler(st.handlers, r.exc, fr)
                if h is None:
                    raise
                self.effect("except", h, fr, exc=r.exc, handler=ast.unparse(h.type) if h.type is not None else "")
                if h.name:
                    self.store_name(h.name, r.exc, fr, None)
                fr.exc_stack.append(r.exc)
                try:
                    self.exec_block(h.body, fr)
                finally:
                    fr.exc_stack.pop()
            else:
                self.exec_block(st.orelse, fr)
        except modelled:
            if st.finalbody:
                self.effect("finally", st, fr, via="signal")
                self.exec_block(st.finalbody, fr)
            raise
        if st.finalbody:
            self.effect("finally", st, fr, via="normal")
            self.exec_block(st.finalbody, fr)

    def match_handler(self, handlers, exc, fr):
        for h in handlers:
            if h.type is None:
                return h
            names = self.handler_classes(h.type, fr)
            ecls = exc.cls if isinstance(exc, Obj) else None
            if ecls is None:
                # symbolic exception: `except Exception`/BaseException catch it; others fork
                if any(n in ("builtins.Exception", "builtins.BaseException") for n in names):
                    return h
                if self.decide(f"exc_is({vkey(exc)},{'|'.join(sorted(names))})", h):
                    return h
                continue
            for n in names:
                if self.exc_isinstance(ecls, n):
                    return h
        return None

    def handler_classes(self, t, fr) -> list[str]:
        if isinstance(t, ast.Tuple):
            out = []
            for e in t.elts:
                out += self.handler_classes(e, fr)
            return out
        v = self.eval(t, fr)
        from .terms import BuiltinRef, ClassRef

        if isinstance(v, BuiltinRef):
            return ["builtins." + v.name]
        if isinstance(v, ClassRef):
            return [v.qual]
        return [vkey(v)]

    BASE_ONLY = {"builtins.KeyboardInterrupt", "builtins.SystemExit", "builtins.GeneratorExit"}
    EXC_PARENTS = {
        "builtins.KeyError": "builtins.LookupError", "builtins.IndexError": "builtins.LookupError",
        "builtins.LookupError": "builtins.Exception", "builtins.ValueError": "builtins.Exception",
        "builtins.TypeError": "builtins.Exception", "builtins.AttributeError": "builtins.Exception",
        "builtins.RuntimeError": "builtins.Exception", "builtins.NotImplementedError": "builtins.RuntimeError",
        "builtins.StopIteration": "builtins.Exception", "builtins.AssertionError": "builtins.Exception",
        "builtins.OSError": "builtins.Exception", "builtins.FileNotFoundError": "builtins.OSError",
        "builtins.ConnectionRefusedError": "builtins.OSError", "builtins.TimeoutError": "builtins.OSError",
        "builtins.UnboundLocalError": "builtins.NameError", "builtins.NameError": "builtins.Exception",
        "builtins.OverflowError": "builtins.ArithmeticError", "builtins.ZeroDivisionError": "builtins.ArithmeticError",
        "builtins.ArithmeticError": "builtins.Exception", "builtins.ImportError": "builtins.Exception",
        "builtins.Exception": "builtins.BaseException",
    }

    def exc_isinstance(self, ecls: str, target: str) -> bool:
        seen = set()
        todo = [ecls]
        while todo:
            c = todo.pop()
            if c in seen:
                continue
            seen.add(c)
            if c == target:
                return True
            if c in self.EXC_PARENTS:
                todo.append(self.EXC_PARENTS[c])
            elif c in self.repo.classes:
                mro = self.repo.class_mro(c)[1:]
                todo += [m if "." in m else "builtins." + m for m in mro]
            elif c in self.BASE_ONLY:
                todo.append("builtins.BaseException")
            elif c.startswith("builtins.") and c != "builtins.BaseException":
                todo.append("builtins.Exception")
            elif c != "builtins.BaseException":
                todo.append("builtins.Exception")
        return False

    def is_exception_class(self, cls: str) -> bool:
        return (cls.startswith("builtins.") and (cls.endswith("Error") or cls.endswith("Exception"))) or (
            cls in self.repo.classes and self.exc_isinstance(cls, "builtins.BaseException") and cls != "builtins.BaseException"
            and any(b.endswith(("Error", "Exception")) for b in self.repo.class_mro(cls)[1:])
        )

    # ------------------------------------------------------------ assignment
    def assign(self, target, value, fr, st, ref=None, record=True):
        from .interp import _Raise

        if isinstance(target, ast.Name):
            self.store_name(target.id, value, fr, ref)
            return
        if isinstance(target, (ast.Tuple, ast.List)):
            elts = target.elts
            if isinstance(value, (tuple, list)) and not any(isinstance(e, ast.Starred) for e in elts):
                if len(value) != len(elts):
                    exc = Obj("builtins.ValueError", args=("unpack",))
                    self.effect("raise", st, fr, value=exc, implicit=True)
                    raise _Raise(exc, st)
                for e, v in zip(elts, value):
                    self.assign(e, v, fr, st, None, record)
                return
            if isinstance(value, (int, float, type(None), bool)) and not isinstance(value, Term):
                exc = Obj("builtins.TypeError", args=("cannot unpack non-iterable",))
                self.effect("raise", st, fr, value=exc, implicit=True)
                raise _Raise(exc, st)
            for i, e in enumerate(elts):
                if isinstance(e, ast.Starred):
                    self.assign(e.value, Sub(value, f"{i}:"), fr, st, None, record)
                else:
                    self.assign(e, Sub(value, i), fr, st, None, record)
            return
        if isinstance(target, ast.Attribute):
            base, bref = self.eval_ref(target.value, fr)
            if isinstance(base, Obj):
                base.fields[target.attr] = value
                tref = Attr(bref if bref is not None else Sym(base.name), target.attr)
            else:
                tref = Attr(bref if bref is not None else base, target.attr)
                self.heap[tref.key()] = value
            if record:
                self.effect("store", st, fr, target=tref.key(), ref=tref, value=value, attr=target.attr,
                            base=base, field=self.field_of(tref), value_ref=ref)
            return
        if isinstance(target, ast.Subscript):
            base, bref = self.eval_ref(target.value, fr)
            idx = self.eval_index(target.slice, fr)
            if isinstance(base, (dict, list)):
                try:
                    if isinstance(base, list) and isinstance(idx, Term):
                        pass
                    else:
                        base[idx] = value
                except Exception:
                    exc = Obj("builtins.IndexError")
                    self.effect("raise", st, fr, value=exc, implicit=True)
                    raise _Raise(exc, st)
            tref = Sub(bref if bref is not None else base, idx) if (bref is not None or isinstance(base, Term)) else None
            if tref is not None and not isinstance(base, (dict, list)):
                self.heap[tref.key()] = value
            if record:
                self.effect("store", st, fr, target=tref.key() if tref is not None else ast.unparse(target), ref=tref,
                            value=value, index=idx, base=base, baseref=bref, field=self.field_of(bref), value_ref=ref,
                            subscript=True)
            return
        if isinstance(target, ast.Starred):
            self.assign(target.value, value, fr, st, None, record)
            return
        raise AnalysisError(f"unsupported assignment target {type(target).__name__} at {fr.fi.loc(st)}")

    def store_name(self, name, value, fr, ref):
        from .interp import Cell

        f = fr
        if name in fr.globals_decl:
            # nonlocal / global: write where it lives
            p = fr.parent
            while p is not None:
                if name in p.locals or name in p.declared:
                    p.locals[name] = Cell(value, ref)
                    return
                p = p.parent
            self.heap[f"{fr.fi.module.name}.{name}"] = value
            return
        f.locals[name] = Cell(value, ref)


def _as_load(t):
    t2 = ast.parse(ast.unparse(t), mode="eval").body
    return t2


class _ConcreteIter:
    """Model of iter(<concrete list>)."""

    def __init__(self, items):
        self.items = list(items)
        self.pos = 0

    def drain(self):
        r = self.items[self.pos:]
        self.pos = len(self.items)
        return r

    def __repr__(self):
        return f"<iter {self.items[self.pos:]}>"


class _CycleIter(_ConcreteIter):
    """itertools.cycle(<concrete items>): never exhausted; only consumed by zip() next to a finite partner."""

    cyclic = True


def subst_star(v, n, _d=0):
    """Replace Elem(x, '*') by Elem(x, n) throughout a value."""
    from .terms import App, Attr, Comp, FStr, Mut, Op, Sub

    if _d > 10:
        return v
    r = lambda x: subst_star(x, n, _d + 1)
    if isinstance(v, Elem):
        return Elem(r(v.it), n if v.k == "*" else v.k)
    if isinstance(v, Attr):
        return Attr(r(v.base), v.attr)
    if isinstance(v, Sub):
        return Sub(r(v.base), r(v.index))
    if isinstance(v, App):
        return App(v.fn if isinstance(v.fn, str) else r(v.fn), [r(a) for a in v.args], {k: r(a) for k, a in v.kwargs},
                   uid=v.uid, fname=None if not isinstance(v.fn, str) else v.fname)
    if isinstance(v, Op):
        return Op(v.op, *[r(a) for a in v.operands])
    from .terms import NTuple
    if isinstance(v, NTuple):
        return NTuple([r(a) for a in v], v.names, v.qual)
    if isinstance(v, tuple):
        return tuple(r(a) for a in v)
    if isinstance(v, list):
        return [r(a) for a in v]
    return v


class _MatchUnsupported(Exception):
    pass


def _desugar_match(st, fi, repo):
    """-> (temp name, [If chain]) equivalent to the match statement."""
    tmp = f"__match_{st.lineno}_{st.col_offset}"

    def load(expr):
        return expr

    def subj_name():
        return ast.Name(id=tmp, ctx=ast.Load())

    def conj(tests):
        tests = [t for t in tests if not (isinstance(t, ast.Constant) and t.value is True)]
        if not tests:
            return ast.Constant(value=True)
        return tests[0] if len(tests) == 1 else ast.BoolOp(op=ast.And(), values=tests)

    def pat(p, subj):
        """-> (test expr, [(name, expr)] captures).  Or-patterns with captures are expanded by the caller."""
        if isinstance(p, ast.MatchValue):
            return ast.Compare(left=subj, ops=[ast.Eq()], comparators=[p.value]), []
        if isinstance(p, ast.MatchSingleton):
            return ast.Compare(left=subj, ops=[ast.Is()], comparators=[ast.Constant(value=p.value)]), []
        if isinstance(p, ast.MatchAs):
            if p.pattern is None:
                return ast.Constant(value=True), ([(p.name, subj)] if p.name else [])
            t, c = pat(p.pattern, subj)
            return t, c + [(p.name, subj)]
        if isinstance(p, ast.MatchOr):
            parts = [pat(q, subj) for q in p.patterns]
            if any(c for _, c in parts):
                raise _MatchUnsupported("or-pattern with captures nested inside another pattern")
            return ast.BoolOp(op=ast.Or(), values=[t for t, _ in parts]), []
        if isinstance(p, ast.MatchClass):
            tests = [ast.Call(func=ast.Name(id="isinstance", ctx=ast.Load()), args=[subj, p.cls], keywords=[])]
            caps = []
            names = list(p.kwd_attrs)
            subs = list(p.kwd_patterns)
            if p.patterns:
                cname = ast.unparse(p.cls)
                if cname in ("int", "str", "float", "bool", "bytes", "list", "tuple", "dict", "set", "frozenset", "bytearray") and len(p.patterns) == 1:
                    t, c = pat(p.patterns[0], subj)
                    tests.append(t)
                    caps += c
                else:
                    cq = repo.resolve_expr(fi.module, p.cls)
                    ci = repo.classes.get(cq) if cq else None
                    fields = list(ci.fields) if ci is not None and ci.fields else None
                    if fields is None or len(fields) < len(p.patterns):
                        raise _MatchUnsupported(f"positional class pattern for {cname}: field order unknown")
                    names = fields[:len(p.patterns)] + names
                    subs = list(p.patterns) + subs
            for a, q in zip(names, subs):
                t, c = pat(q, ast.Attribute(value=subj, attr=a, ctx=ast.Load()))
                tests.append(t)
                caps += c
            return conj(tests), caps
        if isinstance(p, ast.MatchSequence):
            star = [i for i, q in enumerate(p.patterns) if isinstance(q, ast.MatchStar)]
            n = len(p.patterns)
            tests = [ast.Call(func=ast.Name(id="isinstance", ctx=ast.Load()),
                              args=[subj, ast.Tuple(elts=[ast.Name(id="list", ctx=ast.Load()), ast.Name(id="tuple", ctx=ast.Load())], ctx=ast.Load())], keywords=[])]
            ln = ast.Call(func=ast.Name(id="len", ctx=ast.Load()), args=[subj], keywords=[])
            caps = []
            if not star:
                tests.append(ast.Compare(left=ln, ops=[ast.Eq()], comparators=[ast.Constant(value=n)]))
                for i, q in enumerate(p.patterns):
                    t, c = pat(q, ast.Subscript(value=subj, slice=ast.Constant(value=i), ctx=ast.Load()))
                    tests.append(t)
                    caps += c
            else:
                k = star[0]
                tests.append(ast.Compare(left=ln, ops=[ast.GtE()], comparators=[ast.Constant(value=n - 1)]))
                for i, q in enumerate(p.patterns):
                    if i < k:
                        idx = ast.Constant(value=i)
                    elif i > k:
                        idx = ast.UnaryOp(op=ast.USub(), operand=ast.Constant(value=n - i))
                    else:
                        if q.name:
                            hi = None if n - 1 - k == 0 else ast.UnaryOp(op=ast.USub(), operand=ast.Constant(value=n - 1 - k))
                            sl = ast.Slice(lower=ast.Constant(value=k), upper=hi, step=None)
                            caps.append((q.name, ast.Call(func=ast.Name(id="list", ctx=ast.Load()),
                                                          args=[ast.Subscript(value=subj, slice=sl, ctx=ast.Load())], keywords=[])))
                        continue
                    t, c = pat(q, ast.Subscript(value=subj, slice=idx, ctx=ast.Load()))
                    tests.append(t)
                    caps += c
            return conj(tests), caps
        if isinstance(p, ast.MatchMapping):
            tests = [ast.Call(func=ast.Name(id="isinstance", ctx=ast.Load()), args=[subj, ast.Name(id="dict", ctx=ast.Load())], keywords=[])]
            caps = []
            for kx, q in zip(p.keys, p.patterns):
                tests.append(ast.Compare(left=kx, ops=[ast.In()], comparators=[subj]))
                t, c = pat(q, ast.Subscript(value=subj, slice=kx, ctx=ast.Load()))
                tests.append(t)
                caps += c
            if p.rest:
                raise _MatchUnsupported("mapping pattern with **rest")
            return conj(tests), caps
        raise _MatchUnsupported(type(p).__name__)

    def alternatives(p):
        """Top-level or-patterns (possibly wrapped in `as`) are expanded so that each alternative binds its own captures."""
        if isinstance(p, ast.MatchOr):
            return [a for q in p.patterns for a in alternatives(q)]
        return [p]

    try:
        arms = []  # (test, captures, guard, body)
        for case in st.cases:
            for alt in alternatives(case.pattern):
                t, c = pat(alt, subj_name())
                arms.append((t, c, case.guard, case.body))
    except _MatchUnsupported as e:
        raise AnalysisError(f"unsupported match pattern at {fi.loc(st)}: {e}")
    # if t1: <captures>; if guard: body; matched ... -- guards may fall through to the next case, so a flag variable carries "done"
    done = f"{tmp}_done"
    out = [ast.Assign(targets=[ast.Name(id=done, ctx=ast.Store())], value=ast.Constant(value=False))]
    for t, c, guard, body in arms:
        inner = [ast.Assign(targets=[ast.Name(id=n, ctx=ast.Store())], value=v) for n, v in c]
        run = [ast.Assign(targets=[ast.Name(id=done, ctx=ast.Store())], value=ast.Constant(value=True))] + list(body)
        inner.append(ast.If(test=guard, body=run, orelse=[]) if guard is not None else None)
        if inner[-1] is None:
            inner = inner[:-1] + run
        test = ast.BoolOp(op=ast.And(), values=[ast.UnaryOp(op=ast.Not(), operand=ast.Name(id=done, ctx=ast.Load())), t])
        out.append(ast.If(test=test, body=inner, orelse=[]))
    for n in out:
        for sub in ast.walk(n):
            if isinstance(sub, (ast.expr, ast.stmt)) and getattr(sub, "lineno", None) is None:
                ast.copy_location(sub, st)
    return tmp, out
