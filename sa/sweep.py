"""Thorough tier: in-memory sensitivity sweep.  Nothing is written to /repo and nothing is executed: each variant is an
edited copy of one module's *source text* handed to the loader as an overlay, and the property's rules are re-run on it.

 * mutants (behaviour-changing edits inside the functions the property's rules analysed): killed = a rule reports a
   VIOLATION, undecided = analysis error (exit 2), survived = silent.  Survivors document what the rule set does not see;
   they are not violations of the property.
 * rewrites (behaviour-preserving: alpha-renaming of locals, `is not` -> `not (… is …)`, if/else swap, re-formatting):
   every rule must stay silent.
The sweep only adds evidence about the checker; it never changes the verdict on /repo's tree."""
from __future__ import annotations

import ast
import copy
import os
import random
from concurrent.futures import ProcessPoolExecutor

CMP_FLIP = {ast.Lt: ast.LtE, ast.LtE: ast.Lt, ast.Gt: ast.GtE, ast.GtE: ast.Gt, ast.Eq: ast.NotEq, ast.NotEq: ast.Eq,
            ast.Is: ast.IsNot, ast.IsNot: ast.Is, ast.In: ast.NotIn, ast.NotIn: ast.In}


def _func_nodes(tree, lineno, name):
    for n in ast.walk(tree):
        if isinstance(n, (ast.FunctionDef, ast.AsyncFunctionDef)) and n.name == name and n.lineno == lineno:
            return n
    return None


def _sites(fn):
    """(kind, node) mutation sites inside a function (nested functions included)."""
    out = []
    for n in ast.walk(fn):
        if isinstance(n, (ast.If, ast.While, ast.IfExp)):
            out.append(("negate-test", n))
        if isinstance(n, ast.Compare) and len(n.ops) == 1 and type(n.ops[0]) in CMP_FLIP:
            out.append(("flip-comparator", n))
        if isinstance(n, ast.BoolOp):
            out.append(("and<->or", n))
        if isinstance(n, ast.Constant) and isinstance(n.value, bool):
            out.append(("bool-constant", n))
        elif isinstance(n, ast.Constant) and isinstance(n.value, int) and not isinstance(n.value, bool) and n.value in (0, 1, 2, 4, 8):
            out.append(("int-constant", n))
        if isinstance(n, ast.Call) and len(n.args) >= 2 and all(isinstance(a, (ast.Name, ast.Attribute)) for a in n.args[:2]) \
                and ast.unparse(n.args[0]) != ast.unparse(n.args[1]):
            out.append(("swap-args", n))
    for parent in ast.walk(fn):
        for fld in ("body", "orelse", "finalbody"):
            body = getattr(parent, fld, None)
            if isinstance(body, list):
                for i, st in enumerate(body):
                    if isinstance(st, (ast.AugAssign, ast.Raise)) or (isinstance(st, ast.Expr) and isinstance(st.value, ast.Call)) or \
                            (isinstance(st, ast.Assign) and any(isinstance(t, (ast.Attribute, ast.Subscript)) for t in st.targets)):
                        out.append(("delete-statement", (parent, fld, i)))
    return out


def _apply(kind, site):
    if kind == "negate-test":
        site.test = ast.UnaryOp(op=ast.Not(), operand=site.test)
    elif kind == "flip-comparator":
        site.ops = [CMP_FLIP[type(site.ops[0])]()]
    elif kind == "and<->or":
        site.op = ast.Or() if isinstance(site.op, ast.And) else ast.And()
    elif kind == "bool-constant":
        site.value = not site.value
    elif kind == "int-constant":
        site.value = site.value + 1
    elif kind == "swap-args":
        site.args[0], site.args[1] = site.args[1], site.args[0]
    elif kind == "delete-statement":
        parent, fld, i = site
        getattr(parent, fld)[i] = ast.Pass()


def _describe(kind, site):
    try:
        if kind == "delete-statement":
            parent, fld, i = site
            st = getattr(parent, fld)[i]
            return f"{kind} L{st.lineno}: {ast.unparse(st)[:70]}"
        return f"{kind} L{getattr(site, 'lineno', '?')}: {ast.unparse(site)[:70]}"
    except Exception:
        return kind


# ------------------------------------------------------------------ behaviour-preserving rewrites
class _IsNot(ast.NodeTransformer):
    def visit_Compare(self, n):
        self.generic_visit(n)
        if len(n.ops) == 1 and isinstance(n.ops[0], (ast.IsNot, ast.NotEq, ast.NotIn)):
            pos = {ast.IsNot: ast.Is, ast.NotEq: ast.Eq, ast.NotIn: ast.In}[type(n.ops[0])]()
            return ast.UnaryOp(op=ast.Not(), operand=ast.Compare(left=n.left, ops=[pos], comparators=n.comparators))
        return n


class _SwapIfElse(ast.NodeTransformer):
    def visit_If(self, n):
        self.generic_visit(n)
        if n.orelse and not (len(n.orelse) == 1 and isinstance(n.orelse[0], ast.If)):
            return ast.If(test=ast.UnaryOp(op=ast.Not(), operand=n.test), body=n.orelse, orelse=n.body)
        return n


def _rename_locals(fn):
    """alpha-rename plain local variables of a function without nested scopes capturing them"""
    if any(isinstance(n, (ast.FunctionDef, ast.AsyncFunctionDef, ast.Lambda, ast.ClassDef, ast.Global, ast.Nonlocal)) for n in ast.walk(fn) if n is not fn):
        return False
    params = {a.arg for a in fn.args.posonlyargs + fn.args.args + fn.args.kwonlyargs}
    if fn.args.vararg:
        params.add(fn.args.vararg.arg)
    if fn.args.kwarg:
        params.add(fn.args.kwarg.arg)
    stored = {n.id for n in ast.walk(fn) if isinstance(n, ast.Name) and isinstance(n.ctx, (ast.Store, ast.Del))} - params
    handlers = {n.name for n in ast.walk(fn) if isinstance(n, ast.ExceptHandler) and n.name}
    stored -= handlers
    if not stored:
        return False
    for n in ast.walk(fn):
        if isinstance(n, ast.Name) and n.id in stored:
            n.id = "rn_" + n.id
    return True


REWRITES = {"is-not->not-is": lambda fn: (_IsNot().visit(fn), True)[1], "swap-if-else": lambda fn: (_SwapIfElse().visit(fn), True)[1],
            "rename-locals": _rename_locals, "reformat": lambda fn: True}


# ------------------------------------------------------------------ variant runner (worker process)
def _run_variant(args):
    pid, path, source, label = args
    import io
    import contextlib
    from . import repo as repomod
    from .report import Ctx
    import importlib

    try:
        r = repomod.Repo(overlay={path: source})
    except Exception as e:
        return label, "does-not-parse", str(e)[:80]
    repomod.set_repo(r)
    mod = importlib.import_module(f"sa.props.{pid}")
    ctx = Ctx(pid, "thorough", r)
    with contextlib.redirect_stdout(io.StringIO()):
        for rule in mod.RULES:
            try:
                rule(ctx)
            except repomod.AnalysisError as e:
                ctx.undecided(getattr(rule, "__name__", "?"), "-", str(e))
            except Exception as e:
                ctx.undecided(getattr(rule, "__name__", "?"), "-", f"{type(e).__name__}: {e}")
    from .report import load_known

    known, _ = load_known()
    viol = [v for v in ctx.violations if not any(k["property"] == pid and k["key"] == v.key for k in known)]
    if viol:
        return label, "killed", sorted({v.rule for v in viol})
    if ctx.errors:
        return label, "undecided", ctx.errors[0][:120]
    return label, "survived", ""


def sweep(ctx, mod, max_mutants_per_function: int = 40):
    repo = ctx.repo
    seed = int(os.environ.get("VERIF_SEED", "0") or 0)
    rng = random.Random(seed)
    funcs = [repo.funcs[q] for q in sorted(ctx.functions) if q in repo.funcs and not isinstance(repo.funcs[q].node, ast.Lambda)]
    # analyse top-level functions only (nested ones are mutated through their parents)
    funcs = [f for f in funcs if f.parent is None]
    jobs, rjobs = [], []
    for fi in funcs:
        path = fi.module.path
        base = fi.module.tree
        fn0 = _func_nodes(base, fi.node.lineno, fi.node.name)
        if fn0 is None:
            continue
        n_sites = len(_sites(fn0))
        idxs = list(range(n_sites))
        rng.shuffle(idxs)
        for i in sorted(idxs[:max_mutants_per_function]):
            tree = copy.deepcopy(base)
            fn = _func_nodes(tree, fi.node.lineno, fi.node.name)
            sites = _sites(fn)
            kind, site = sites[i]
            label = f"{fi.qual}: {_describe(kind, site)}"
            _apply(kind, site)
            ast.fix_missing_locations(tree)
            try:
                src = ast.unparse(tree)
            except Exception:
                continue
            jobs.append((ctx.pid, path, src, label))
        for rname, rw in REWRITES.items():
            tree = copy.deepcopy(base)
            fn = _func_nodes(tree, fi.node.lineno, fi.node.name)
            try:
                if not rw(fn):
                    continue
                ast.fix_missing_locations(tree)
                src = ast.unparse(tree)
            except Exception:
                continue
            rjobs.append((ctx.pid, path, src, f"{fi.qual}: {rname}"))
    workers = min(16, os.cpu_count() or 4)
    with ProcessPoolExecutor(workers) as ex:
        mres = list(ex.map(_run_variant, jobs, chunksize=4))
        rres = list(ex.map(_run_variant, rjobs, chunksize=4))
    killed = [r for r in mres if r[1] == "killed"]
    undec = [r for r in mres if r[1] == "undecided"]
    surv = [r for r in mres if r[1] == "survived"]
    alarms = [r for r in rres if r[1] != "survived"]
    ctx.evals(len(mres) + len(rres))
    return {
        "functions_mutated": [f.qual for f in funcs],
        "mutants": len(mres), "killed": len(killed), "undecided_exit2": len(undec), "survived": len(surv),
        "killed_by_rule": _count([x for r in killed for x in r[2]]),
        "survivors": [r[0] for r in surv][:400],
        "undecided": [f"{r[0]} :: {r[2]}" for r in undec][:20],
        "rewrites": len(rres), "rewrites_silent": len(rres) - len(alarms),
        "rewrite_alarms": [f"{r[0]} :: {r[1]} {r[2]}" for r in alarms][:40],
        "note": "mutants are edits of the anchored functions' source evaluated in memory; survivors are listed to document what the "
                "structural rules do not observe (many are equivalent or touch logging/tracing) and are not violations of the property",
    }


def _count(xs):
    d = {}
    for x in xs:
        d[x] = d.get(x, 0) + 1
    return d
