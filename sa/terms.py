"""Abstract values used by the path-sensitive abstract interpreter.

Concrete representatives are plain Python values (None, bool, int, str, tuple,
list, dict, set) plus Atom / EnumVal / Obj.  Everything the analysis cannot
evaluate is a symbolic Term with a canonical key; terms are only ever compared
structurally (no solver)."""
from __future__ import annotations

from typing import Any


class Term:
    __slots__ = ("_key",)

    def key(self) -> str:
        return self._key

    def __repr__(self) -> str:
        return self._key

    def __hash__(self) -> int:
        return hash(self._key)

    def __eq__(self, other) -> bool:
        return isinstance(other, Term) and other._key == self._key

    def __ne__(self, other) -> bool:
        return not self.__eq__(other)

    def __deepcopy__(self, memo):
        return self


def vkey(v: Any) -> str:
    """Canonical text of any abstract value."""
    if isinstance(v, Term):
        return v.key()
    if isinstance(v, (Atom, EnumVal, Obj, Closure, FuncRef, ClassRef, ModRef, BuiltinRef, BoundMethod)):
        return repr(v)
    if isinstance(v, str):
        return repr(v)
    if isinstance(v, tuple):
        return "(" + ", ".join(vkey(x) for x in v) + ("," if len(v) == 1 else "") + ")"
    if isinstance(v, list):
        return "[" + ", ".join(vkey(x) for x in v) + "]"
    if isinstance(v, (set, frozenset)):
        return "{" + ", ".join(sorted(vkey(x) for x in v)) + "}" if v else "set()"
    if isinstance(v, dict):
        return "{" + ", ".join(f"{vkey(k)}: {vkey(x)}" for k, x in v.items()) + "}"
    return repr(v)


class Sym(Term):
    __slots__ = ("name",)

    def __init__(self, name: str):
        self.name = name
        self._key = name


class Attr(Term):
    __slots__ = ("base", "attr")

    def __init__(self, base, attr: str):
        self.base = base
        self.attr = attr
        self._key = f"{vkey(base)}.{attr}"


class Sub(Term):
    __slots__ = ("base", "index")

    def __init__(self, base, index):
        self.base = base
        self.index = index
        self._key = f"{vkey(base)}[{vkey(index)}]"


class App(Term):
    """Result of a call that was not evaluated.  uid distinguishes call instances."""

    __slots__ = ("fn", "args", "kwargs", "uid", "fname")

    def __init__(self, fn, args=(), kwargs=(), uid: int | None = None, fname: str | None = None):
        self.fn = fn
        self.args = tuple(args)
        self.kwargs = tuple(sorted(kwargs.items())) if isinstance(kwargs, dict) else tuple(kwargs)
        self.uid = uid
        self.fname = fname if fname is not None else (fn if isinstance(fn, str) else vkey(fn))
        a = ", ".join([vkey(x) for x in self.args] + [f"{k}={vkey(v)}" for k, v in self.kwargs])
        self._key = f"{self.fname}({a})" + (f"#{uid}" if uid is not None else "")

    def kw(self, name, default=None):
        for k, v in self.kwargs:
            if k == name:
                return v
        return default


class Op(Term):
    __slots__ = ("op", "operands")

    def __init__(self, op: str, *operands):
        self.op = op
        self.operands = tuple(operands)
        self._key = f"({op} " + " ".join(vkey(x) for x in operands) + ")"


class Elem(Term):
    """k-th element produced by iterating `it` (k = '*' inside comprehensions)."""

    __slots__ = ("it", "k")

    def __init__(self, it, k):
        self.it = it
        self.k = k
        self._key = f"elem({vkey(it)}, {k})"


class Comp(Term):
    """Symbolic comprehension: kind in list/set/dict/gen; elt is a value (dict: (k, v))
    over Elem(iter, '*') terms; conds are condition terms."""

    __slots__ = ("kind", "elt", "iters", "conds")

    def __init__(self, kind, elt, iters, conds):
        self.kind = kind
        self.elt = elt
        self.iters = tuple(iters)
        self.conds = tuple(conds)
        self._key = f"comp<{kind}>({vkey(elt)} for {', '.join(vkey(i) for i in iters)}" + (
            " if " + " and ".join(vkey(c) for c in conds) if conds else ""
        ) + ")"


class FStr(Term):
    __slots__ = ("parts",)

    def __init__(self, parts):
        self.parts = tuple(parts)
        self._key = "f'" + "".join(p if isinstance(p, str) else "{" + vkey(p) + "}" for p in parts) + "'"


class Mut(Term):
    """A symbolic container after an in-place mutation we do not model (version n)."""

    __slots__ = ("prev", "n")

    def __init__(self, prev, n):
        self.prev = prev
        self.n = n
        self._key = f"{vkey(prev)}@{n}"


class Opaque(Term):
    __slots__ = ("text",)

    def __init__(self, text: str):
        self.text = text
        self._key = f"<{text}>"


class Star:
    """*x / **x argument that could not be expanded."""

    def __init__(self, value, double=False):
        self.value = value
        self.double = double

    def __repr__(self):
        return ("**" if self.double else "*") + vkey(self.value)


# ----------------------------------------------------------------- concrete-ish
class Atom:
    """An opaque distinct constant (a dataset id, a task, a host ...)."""

    def __init__(self, name: str, cls: str | None = None, **fields):
        self.name = name
        self.cls = cls
        self.fields = fields

    def __repr__(self):
        return f"`{self.name}`"

    def __deepcopy__(self, memo):
        return self

    def __lt__(self, other):
        return self.name < other.name


class EnumVal:
    _cache: dict = {}

    def __new__(cls, enum_qual: str, member: str):
        k = (enum_qual, member)
        if k not in cls._cache:
            o = object.__new__(cls)
            o.enum = enum_qual
            o.member = member
            cls._cache[k] = o
        return cls._cache[k]

    def __repr__(self):
        return f"{self.enum.rsplit('.', 1)[-1]}.{self.member}"

    def __deepcopy__(self, memo):
        return self


class Obj:
    """A model object: instance of a repo or builtin class with tracked fields."""

    _n = 0

    def __init__(self, cls: str, fields: dict | None = None, args=(), kwargs=None, name: str | None = None,
                 frozen: bool = False):
        self.frozen = frozen
        self.cls = cls
        self.fields = dict(fields or {})
        self.args = tuple(args)
        self.kwargs = dict(kwargs or {})
        Obj._n += 1
        self.named = name is not None
        self.name = name or f"{cls.rsplit('.', 1)[-1]}#{Obj._n}"

    def __repr__(self):
        if self.named:
            return f"`{self.name}`"
        if self.frozen and self.fields:
            return f"{self.cls.rsplit('.', 1)[-1]}(" + ", ".join(f"{k}={vkey(v)}" for k, v in self.fields.items()) + ")"
        a = ", ".join([vkey(x) for x in self.args] + [f"{k}={vkey(v)}" for k, v in self.kwargs.items()])
        return f"{self.cls.rsplit('.', 1)[-1]}({a})"

    def skey(self):
        return (self.cls, tuple(sorted((k, vkey(v)) for k, v in self.fields.items())))

    def __hash__(self):
        if self.frozen:
            return hash(self.skey())
        return id(self)

    def __eq__(self, o):
        if self is o:
            return True
        if self.frozen and isinstance(o, Obj) and o.frozen:
            return self.skey() == o.skey()
        return False


class NTuple(tuple):
    """A NamedTuple instance: a tuple (indexing, equality with plain tuples) whose fields are also reachable by name."""

    def __new__(cls, values, names=(), qual=""):
        o = super().__new__(cls, values)
        o.names = tuple(names)
        o.qual = qual
        return o

    def field(self, name):
        return self[self.names.index(name)]

    def __deepcopy__(self, memo):
        import copy

        return NTuple([copy.deepcopy(v, memo) for v in self], self.names, self.qual)


class Partial:
    """functools.partial(callee, *args, **kwargs)"""

    def __init__(self, fn, args, kwargs):
        self.fn, self.args, self.kwargs = fn, tuple(args), dict(kwargs)

    def __repr__(self):
        return f"<partial {vkey(self.fn)}>"


class ModelFn:
    """A callable supplied by a rule as a model of an opaque function value."""

    def __init__(self, name, fn):
        self.name = name
        self.fn = fn

    def __repr__(self):
        return f"<model {self.name}>"

    def __deepcopy__(self, memo):
        return self


class Closure:
    def __init__(self, fi, frame):
        self.fi = fi
        self.frame = frame

    def __repr__(self):
        return f"<closure {self.fi.qual}>"


class FuncRef:
    def __init__(self, fi):
        self.fi = fi

    def __repr__(self):
        return f"<fn {self.fi.qual}>"

    def __eq__(self, o):
        return isinstance(o, FuncRef) and o.fi is self.fi

    def __hash__(self):
        return hash(self.fi.qual)


class ClassRef:
    def __init__(self, qual: str):
        self.qual = qual

    def __repr__(self):
        return f"<class {self.qual}>"

    def __eq__(self, o):
        return isinstance(o, ClassRef) and o.qual == self.qual

    def __hash__(self):
        return hash(self.qual)


class ModRef:
    def __init__(self, qual: str):
        self.qual = qual

    def __repr__(self):
        return f"<module {self.qual}>"


class BuiltinRef:
    def __init__(self, name: str):
        self.name = name

    def __repr__(self):
        return f"<builtin {self.name}>"

    def __eq__(self, o):
        return isinstance(o, BuiltinRef) and o.name == self.name

    def __hash__(self):
        return hash(self.name)


class BoundMethod:
    def __init__(self, recv, name: str, fi=None, recv_ref=None):
        self.recv = recv
        self.name = name
        self.fi = fi
        self.recv_ref = recv_ref

    def __repr__(self):
        return f"<bound {vkey(self.recv)}.{self.name}>"


def contains_term(v, _d=0) -> bool:
    if isinstance(v, Term):
        return True
    if _d > 6:
        return False
    if isinstance(v, (tuple, list, set, frozenset)):
        return any(contains_term(x, _d + 1) for x in v)
    if isinstance(v, dict):
        return any(contains_term(k, _d + 1) or contains_term(x, _d + 1) for k, x in v.items())
    return False


def subterms(v, _d=0):
    """All terms / values nested in v (pre-order)."""
    yield v
    if _d > 12:
        return
    if isinstance(v, Attr):
        yield from subterms(v.base, _d + 1)
    elif isinstance(v, Sub):
        yield from subterms(v.base, _d + 1)
        yield from subterms(v.index, _d + 1)
    elif isinstance(v, App):
        if not isinstance(v.fn, str):
            yield from subterms(v.fn, _d + 1)
        for a in v.args:
            yield from subterms(a, _d + 1)
        for _, a in v.kwargs:
            yield from subterms(a, _d + 1)
    elif isinstance(v, Op):
        for a in v.operands:
            yield from subterms(a, _d + 1)
    elif isinstance(v, Elem):
        yield from subterms(v.it, _d + 1)
    elif isinstance(v, Comp):
        yield from subterms(v.elt, _d + 1)
        for a in v.iters:
            yield from subterms(a, _d + 1)
        for a in v.conds:
            yield from subterms(a, _d + 1)
    elif isinstance(v, FStr):
        for p in v.parts:
            if not isinstance(p, str):
                yield from subterms(p, _d + 1)
    elif isinstance(v, Mut):
        yield from subterms(v.prev, _d + 1)
    elif isinstance(v, BoundMethod):
        yield from subterms(v.recv, _d + 1)
    elif isinstance(v, Star):
        yield from subterms(v.value, _d + 1)
    elif isinstance(v, Obj):
        for a in v.args:
            yield from subterms(a, _d + 1)
        for a in v.kwargs.values():
            yield from subterms(a, _d + 1)
    elif isinstance(v, (tuple, list, set, frozenset)):
        for a in v:
            yield from subterms(a, _d + 1)
    elif isinstance(v, dict):
        for k, a in v.items():
            yield from subterms(k, _d + 1)
            yield from subterms(a, _d + 1)


def mentions(v, key: str) -> bool:
    """Does value v structurally contain a term with this key?"""
    for t in subterms(v):
        if isinstance(t, Term) and t.key() == key:
            return True
    return False
