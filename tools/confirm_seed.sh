#!/bin/bash
# confirm_seed.sh <seed-dir containing patch.diff + demo> : verifies in a scratch worktree that
#  (1) the patch applies, (2) baseline suite passes with it, (3) demo fails with it, (4) demo passes without it.
set -u
SD=$(readlink -f "$1"); WT=/tmp/vp-confirm-$$
git -C /repo worktree add -q --detach "$WT" HEAD || exit 9
trap 'git -C /repo worktree remove --force "$WT" >/dev/null 2>&1' EXIT
DEMO=$(ls "$SD"/demo.py "$SD"/test_demo.py 2>/dev/null | head -1)
run_demo() { if [[ "$DEMO" == *test_demo.py ]]; then (cd "$WT" && PYTHONPATH="$WT/src" timeout 600 /venv/bin/python -m pytest -q -p no:cacheprovider "$DEMO" >/dev/null 2>&1); else (cd "$WT" && PYTHONPATH="$WT/src" timeout 600 /venv/bin/python "$DEMO" >/dev/null 2>&1); fi; }
run_demo; D0=$?
git -C "$WT" apply "$SD/patch.diff" || { echo "RESULT $SD apply=FAIL"; exit 1; }
(cd "$WT" && PYTHONPATH="$WT/src" timeout 900 /venv/bin/python -m pytest -q -p no:cacheprovider tests/earthkit_workflows --ignore=tests/earthkit_workflows/backends/test_earthkit.py 2>&1 | tail -1 > /tmp/vp-confirm-$$.suite)
SUITE=$(cat /tmp/vp-confirm-$$.suite); rm -f /tmp/vp-confirm-$$.suite
/venv/bin/python -m compileall -q "$WT/src" >/dev/null 2>&1; COMP=$?
run_demo; D1=$?
echo "RESULT $SD demo_clean_exit=$D0 demo_patched_exit=$D1 compile=$COMP suite='$SUITE'"
