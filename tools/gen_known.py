#!/venv/bin/python
"""Regenerates sa/known_functions.txt and sa/known_classes.txt from /repo's current tree.  Run ONLY when the rule tables have been
re-confirmed against a new upstream version: symbols absent from these lists are treated as newly extracted code and inlined."""
import os, sys
V = os.path.dirname(os.path.dirname(os.path.abspath(__file__)))
sys.path.insert(0, V)
from sa.repo import Repo
r = Repo("/repo")
if "--write" not in sys.argv:
    print(f"{len(r.funcs)} functions, {len(r.classes)} classes (pass --write to overwrite the lists)")
    sys.exit(0)
open(f"{V}/sa/known_functions.txt", "w").write("\n".join(sorted(r.funcs)) + "\n")
open(f"{V}/sa/known_classes.txt", "w").write("\n".join(sorted(r.classes)) + "\n")
# parameter names of every function of the pinned tree: a parameter NOT listed here was added later; when such a function is the entry
# point of a rule, the new parameter takes its declared default (no caller of the pinned world passes it)
open(f"{V}/sa/known_params.txt", "w").write("\n".join(f"{q} {' '.join(r.funcs[q].params)}" for q in sorted(r.funcs)) + "\n")
