#!/venv/bin/python
"""Regenerates /verif/MANIFEST.json from the rule modules present in sa/props."""
import importlib, json, os, sys
sys.path.insert(0, os.path.dirname(os.path.dirname(os.path.abspath(__file__))))
ALL = [f"C{i:02d}" for i in range(1, 20)]
NA = {}
TECH = "path-sensitive abstract interpretation of the anchored functions over finite model states (own AST interpreter, symbolic terms, effect traces) + whole-repo writer scans"
checks, na = [], []
for pid in ALL:
    if pid in NA:
        na.append({"property_id": pid, "reason": NA[pid]}); continue
    try:
        mod = importlib.import_module(f"sa.props.{pid}")
    except ModuleNotFoundError:
        na.append({"property_id": pid, "reason": "check not built yet in this round (not claimed); see DESIGN.md section 4 for the planned rules"}); continue
    meta = mod.META
    checks.append({
        "property_id": pid,
        "quick_cmd": f"./check {pid} quick",
        "thorough_cmd": f"./check {pid} thorough",
        "evidence_file": f"/verif/evidence/{pid}.json",
        "replay_cmd_template": "./check explain {path}",
        "engine": "sa",
        "level_claimed": {"category": "other",
                          "text": "Static analysis (no execution of repository code): decides the structural necessary conditions of the property named "
                                  "in the evidence explanation, for all inputs at once, on /repo's current source. " + meta["explanation"],
                          "design_ref": f"DESIGN.md section 4, {pid}"},
        "level_note": "Trusted base: CPython ast, the /verif/sa interpreter and the per-property model states/spec tables. "
                      "Assumptions: " + "; ".join(meta.get("assumptions", [])) + ". Clauses listed as 'Not decided' are not claimed.",
        "technique": meta.get("technique", TECH),
    })
m = {
    "version": 1,
    "setup_cmd": "/venv/bin/python -m compileall -q sa >/dev/null 2>&1 || python3 -m compileall -q sa",
    "hooks": {"guard": "ECMWF_EARTHKIT_WORKFLOWS_VERIF",
              "enable": "no hook is needed: the checks are static and only parse /repo's working tree (nothing is instrumented, nothing is run)",
              "baseline_off_cmd": "cd /repo && /venv/bin/python -m pytest -ra -q -p no:cacheprovider --timeout=900 --continue-on-collection-errors",
              "source_commits": [], "add_only": True},
    "engines": [{"name": "sa", "path": "/verif/sa", "serves_properties": [c["property_id"] for c in checks],
                 "kind_free_text": "repository-specific static analyser: stdlib-ast loader/resolver, forking abstract interpreter with symbolic terms and effect traces, rule tables per property"}],
    "checks": checks,
    "not_applicable": na,
    "notes": "Exit codes: 0 holds (KNOWN-FINDING lines allowed), 1 VIOLATION, 2 ANALYSIS-ERROR (analysis broken: anchor vanished / undecidable). "
             "Genuine defects repaired in /repo as 'fix:' commits are listed in KNOWN_FINDINGS.txt (fixed:), recorded ones as known:.",
}
json.dump(m, open(os.path.join(os.path.dirname(__file__), "..", "MANIFEST.json"), "w"), indent=1)
print(len(checks), "checks;", len(na), "not applicable")
