#!/venv/bin/python
"""Rewrites seeded/RESULTS.md from the seeded/<id>/meta.json files (written by tools/run_seeds.py) without re-running anything."""
import json, os
V = os.path.dirname(os.path.dirname(os.path.abspath(__file__)))
seeds = sorted(d for d in os.listdir(f"{V}/seeded") if os.path.isfile(f"{V}/seeded/{d}/patch.diff"))
with open(f"{V}/seeded/RESULTS.md", "w") as f:
    f.write("# Seeded defects vs. checks (quick tier)\n\n| seed | property | own check exit | rules firing in own check | other checks firing |\n|---|---|---|---|---|\n")
    for s in seeds:
        m = json.load(open(f"{V}/seeded/{s}/meta.json"))
        own = m["own_check"]; prop = m["breaks_property"]
        others = ", ".join(f"{c}({d['exit']})" for c, d in m["detected_by"].items() if c != prop)
        f.write(f"| {s} | {prop} | {own['exit']} | {', '.join(own['rules'])} | {others} |\n")
print(len(seeds), "rows")
