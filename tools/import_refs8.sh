#!/bin/bash
# import finished wave-8 refactorings (/tmp/ref8-Cxx/REF/<k>/) into /verif/refactors/<Cxx>-Tr<k>; confirms the suite passes with each patch
cd /verif
for d in /tmp/ref8-C*; do id=$(basename $d | sed 's/ref8-//'); for k in 1 2; do
  if [ -f $d/REF/$k/patch.diff ] && [ -f $d/REF/$k/notes.md ] && [ ! -d refactors/$id-Tr$k ]; then
    mkdir -p refactors/$id-Tr$k; cp $d/REF/$k/patch.diff $d/REF/$k/notes.md refactors/$id-Tr$k/
    WT=/tmp/vp-refc-$$; git -C /repo worktree add -q --detach $WT HEAD
    if git -C $WT apply /verif/refactors/$id-Tr$k/patch.diff; then
      S=$(cd $WT && PYTHONPATH=$WT/src timeout 900 /venv/bin/python -m pytest -q -p no:cacheprovider tests/earthkit_workflows --ignore=tests/earthkit_workflows/backends/test_earthkit.py 2>&1 | tail -1)
    else S="APPLY FAILED"; fi
    git -C /repo worktree remove --force $WT
    echo "$id-Tr$k suite='$S'" | tee -a refactors/CONFIRM-T.log
  fi; done; done
