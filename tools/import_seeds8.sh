#!/bin/bash
# import finished wave-8 seeds into /verif/seeded/<Cxx>-8a, confirm each in a scratch worktree
cd /verif
for d in /tmp/seed8-C*; do id=$(basename $d | sed 's/seed8-//'); for v in a b c; do
  if [ -f $d/SEED/$v/patch.diff ] && [ ! -d seeded/$id-8$v ]; then
    mkdir -p seeded/$id-8$v; cp $d/SEED/$v/patch.diff seeded/$id-8$v/; cp $d/SEED/$v/notes.md seeded/$id-8$v/ 2>/dev/null
    cp $d/SEED/$v/demo.py $d/SEED/$v/test_demo.py seeded/$id-8$v/ 2>/dev/null
    for extra in $d/SEED/$v/*.py; do b=$(basename $extra); [ "$b" != demo.py ] && [ "$b" != test_demo.py ] && cp $extra seeded/$id-8$v/; done
    tools/confirm_seed.sh seeded/$id-8$v >> seeded/CONFIRM.log 2>&1
    tail -1 seeded/CONFIRM.log | sed 's/.*seeded.//' | cut -c1-120
  fi; done; done
