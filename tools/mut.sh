#!/bin/bash
# mut.sh <file-rel-to-repo> <checks...> <<< "OLD\n===SEP===\nNEW"   : one-off hand mutant
F=$1; shift
cd /repo && /venv/bin/python /verif/tools/rep.py $F || { echo "edit failed"; git checkout -- .; exit 9; }
/venv/bin/python -m py_compile $F || echo "DOES NOT COMPILE"
for c in "$@"; do (cd /verif && ./check $c quick 2>&1 | grep -E "^\[|VIOLATION|ANALYSIS-ERROR|^  C" | cut -c1-260; echo "  -> exit ${PIPESTATUS[0]}"); done
git checkout -- .
