#!/bin/bash
# rebase_patch.sh <patch.diff> <old-commit> : re-express a corpus patch written against <old-commit> as a diff against /repo's HEAD
# (scratch worktree under /tmp: apply on the old commit, commit, cherry-pick onto HEAD, diff).  Leaves the patch untouched on conflict.
P=$(readlink -f "$1"); OLD=$2; WT=/tmp/vp-rebase-$$
git -C /repo worktree add -q --detach $WT $OLD || exit 9
trap 'git -C /repo worktree remove --force $WT >/dev/null 2>&1; git -C /repo worktree prune' EXIT
cd $WT && git apply "$P" || { echo "$1: does not apply on $OLD"; exit 1; }
git add -A && git -c user.name=x -c user.email=x@x commit -q -m tmp || exit 1
T=$(git rev-parse HEAD)
git checkout -q --detach $(git -C /repo rev-parse HEAD) && git -c user.name=x -c user.email=x@x cherry-pick -n $T >/dev/null 2>&1 || { echo "$1: CONFLICT"; git status --short | head -5; exit 2; }
git diff --cached > "$P.new" && mv "$P.new" "$P" && echo "$1: rebased"
