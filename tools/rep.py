import sys, pathlib
# usage: rep.py file <<< "OLD\n===SEP===\nNEW"
p = pathlib.Path(sys.argv[1]); s = p.read_text()
old, new = sys.stdin.read().split("\n===SEP===\n")
new = new.rstrip("\n") if not old.endswith("\n") else new
old = old.rstrip("\n"); new = new.rstrip("\n")
assert s.count(old) == 1, f"count={s.count(old)}"
p.write_text(s.replace(old, new))
