#!/venv/bin/python
"""Applies every behaviour-preserving refactoring in /verif/refactors to /repo (working tree only), runs all quick checks
(all must stay silent: exit 0), restores the tree, writes refactors/RESULTS.md.  Developer tool — not a registered check."""
import os, re, subprocess, sys
from concurrent.futures import ThreadPoolExecutor
V = os.path.dirname(os.path.dirname(os.path.abspath(__file__)))
PROPS = [f"C{i:02d}" for i in range(1, 20)]
def sh(cmd):
    return subprocess.run(cmd, shell=True, capture_output=True, text=True)
def main():
    rs = sorted(d for d in os.listdir(f"{V}/refactors") if os.path.isfile(f"{V}/refactors/{d}/patch.diff"))
    if len(sys.argv) > 1:
        rs = [r for r in rs if any(r.startswith(a) for a in sys.argv[1:])]
    if sh("git -C /repo diff --quiet").returncode != 0:
        print("/repo dirty"); return 2
    rows = []
    for r in rs:
        a = sh(f"git -C /repo apply {V}/refactors/{r}/patch.diff")
        if a.returncode != 0:
            rows.append((r, "PATCH DOES NOT APPLY", "")); print(r, "does not apply"); continue
        def run(c):
            o = sh(f"cd {V} && ./check {c} quick")
            return c, o.returncode, [l for l in o.stdout.splitlines() if l.startswith(("ANALYSIS-ERROR", "  C"))]
        with ThreadPoolExecutor(8) as ex:
            res = list(ex.map(run, PROPS))
        sh("git -C /repo checkout -- .")
        bad = [(c, rc, lines) for c, rc, lines in res if rc != 0]
        rows.append((r, "silent" if not bad else "ALARM", "; ".join(f"{c} exit {rc}: {(lines[0] if lines else '')[:160]}" for c, rc, lines in bad)))
        print(r, "silent" if not bad else f"ALARM {[(c, rc) for c, rc, _ in bad]}")
        for c, rc, lines in bad:
            for l in lines[:3]:
                print("     ", l[:220])
    if len(sys.argv) > 1:
        return 0
    with open(f"{V}/refactors/RESULTS.md", "w") as f:
        f.write("# Behaviour-preserving refactorings vs. checks (quick tier; every check must stay silent)\n\n| refactoring | verdict | detail |\n|---|---|---|\n")
        for r, v, d in rows:
            f.write(f"| {r} | {v} | {d} |\n")
    sh(f"cd {V} && for c in {' '.join(PROPS)}; do ./check $c quick >/dev/null; done")
    return 0
sys.exit(main())
