#!/venv/bin/python
"""Applies every behaviour-preserving refactoring in /verif/refactors to a scratch working tree of /repo's HEAD, runs all quick checks against it
(all must stay silent: exit 0), restores the tree, writes refactors/RESULTS.md.  Developer tool — not a registered check."""
import os, re, subprocess, sys
from concurrent.futures import ThreadPoolExecutor
V = os.path.dirname(os.path.dirname(os.path.abspath(__file__)))
PROPS = [f"C{i:02d}" for i in range(1, 20)]
def sh(cmd):
    return subprocess.run(cmd, shell=True, capture_output=True, text=True)
def par_map(fn, items):
    """Run fn(item, worktree) over the items on N scratch worktrees of /repo's HEAD (default 4; -jN), each check pointed at its worktree
    through VERIF_REPO; the worktrees live under /tmp and are removed at the end.  /repo itself is not touched."""
    import queue, threading
    jobs = next((int(a[2:]) for a in sys.argv[1:] if a.startswith("-j")), 4)
    jobs = max(1, min(jobs, len(items)))
    q = queue.Queue()
    for i, it in enumerate(items):
        q.put((i, it))
    out = [None] * len(items)
    wts = [f"/tmp/vp-par-{os.getpid()}-{k}" for k in range(jobs)]
    for wt in wts:
        sh(f"git -C /repo worktree add -q --detach {wt} HEAD")
    def worker(wt):
        while True:
            try:
                i, it = q.get_nowait()
            except queue.Empty:
                return
            try:
                out[i] = fn(it, wt)
            except Exception as e:
                print(it, "RUNNER ERROR", e, flush=True)
    try:
        ts = [threading.Thread(target=worker, args=(wt,)) for wt in wts]
        [t.start() for t in ts]
        [t.join() for t in ts]
    finally:
        for wt in wts:
            sh(f"git -C /repo worktree remove --force {wt}")
        sh("git -C /repo worktree prune")
    return [o for o in out if o is not None]
def main():
    rs = sorted(d for d in os.listdir(f"{V}/refactors") if os.path.isfile(f"{V}/refactors/{d}/patch.diff"))
    args = [a for a in sys.argv[1:] if not a.startswith('-j')]
    if args:
        rs = [r for r in rs if any(r.startswith(a) for a in args)]
    if sh("git -C /repo diff --quiet").returncode != 0:
        print("/repo dirty"); return 2
    def one(r, wt):
        a = sh(f"git -C {wt} apply {V}/refactors/{r}/patch.diff")
        if a.returncode != 0:
            print(r, "does not apply"); return (r, "PATCH DOES NOT APPLY", "")
        def run(c):
            o = sh(f"cd {V} && VERIF_REPO={wt} ./check {c} quick")
            return c, o.returncode, [l for l in o.stdout.splitlines() if l.startswith(("ANALYSIS-ERROR", "  C"))]
        with ThreadPoolExecutor(5) as ex:
            res = list(ex.map(run, PROPS))
        sh(f"git -C {wt} checkout -- . && git -C {wt} clean -fdq")
        bad = [(c, rc, lines) for c, rc, lines in res if rc != 0]
        print(r, "silent" if not bad else f"ALARM {[(c, rc) for c, rc, _ in bad]}", flush=True)
        for c, rc, lines in bad:
            for l in lines[:3]:
                print("     ", l[:220], flush=True)
        return (r, "silent" if not bad else "ALARM", "; ".join(f"{c} exit {rc}: {(lines[0] if lines else '')[:160]}" for c, rc, lines in bad))
    rows = par_map(one, rs)
    if args:
        return 0
    with open(f"{V}/refactors/RESULTS.md", "w") as f:
        f.write("# Behaviour-preserving refactorings vs. checks (quick tier; every check must stay silent)\n\n| refactoring | verdict | detail |\n|---|---|---|\n")
        for r, v, d in rows:
            f.write(f"| {r} | {v} | {d} |\n")
    sh(f"cd {V} && for c in {' '.join(PROPS)}; do ./check $c quick >/dev/null; done")
    return 0
sys.exit(main())
