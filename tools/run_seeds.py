#!/venv/bin/python
"""Applies every seeded defect in /verif/seeded to a scratch working tree of /repo's HEAD, runs all quick checks against it,
and writes seeded/<id>/meta.json plus seeded/RESULTS.md.  Developer tool — not a registered check."""
import json, os, re, subprocess, sys
from concurrent.futures import ThreadPoolExecutor
V = os.path.dirname(os.path.dirname(os.path.abspath(__file__)))
PROPS = [f"C{i:02d}" for i in range(1, 20)]
NEEDS = {
 "C01-a": "a 'transfer completed' DatasetPublished for a requested output arriving after the value was fetched and the dataset purged everywhere (>= 2 hosts, output also consumed remotely)",
 "C01-b": "a keyword edge into a parameter that also has a static value/signature default",
 "C02-a": "GPU task assigned in the second (greedy) phase + more computable CPU tasks than free CPU workers in the same round",
 "C02-b": "multi-output task whose schema keys are not declared in sorted order; early output's notice delivered in an earlier batch",
 "C03-a": "a GPU worker, a GPU task and a CPU task computable in the same round and component",
 "C03-b": ">= 2 hosts, sibling worker loading a dataset its host already holds, later consumer on another host",
 "C04-a": "dataset both requested and consumed downstream; last consumer's completion processed before the fetch payload arrives",
 "C04-b": "multi-output task (>= 11 outputs or keys declared out of order) with dataset inputs",
 "C05-a": "a worker-side process exiting with code 0 (task calling sys.exit(0), shm server receiving SIGTERM)",
 "C05-b": "a reader that never closes its buffer (worker SIGKILLed mid-task) followed by executor exit",
 "C06-a": "data frame of message k lost, message k+1 from the same sender delivered first, then the retry of k",
 "C06-b": "data frame of k to host H lost and k+1 to H acknowledged",
 "C07-a": "a purge overtaking a same-dataset store on the target (redundant transfer, busy pool)",
 "C07-b": "out-of-order arrival from one sender (lost payload + later retry, or two pool threads overtaking)",
 "C08-a": "memory pressure scheduling a page-out whose disk job fails after the segment was opened",
 "C08-b": "another request for the same space handled between page-in issue and page-in completion",
 "C09-a": "key written, evicted, read back, purged, re-written with other bytes of the same length, evicted again",
 "C09-b": "a page-out job failing while the segment still exists (spill directory gone / disk full)",
 "C10-a": "one upstream output wired to two or more inputs of the same node",
 "C10-b": "a task with 11 or more static positional arguments",
 "C11-a": "a sub-graph sink named in the output map whose first character also occurs in the expanded node's name",
 "C11-b": "a multi-output parent with the same operation applied to each of its outputs",
 "C12-a": "a graph with an isolated node (single-node graph, stand-alone source)",
 "C12-b": "two differently named nodes with equal outputs, inputs and payloads, through the Cascade file format",
 "C13-a": "operand and target sharing >= 2 dimensions in a different order",
 "C13-b": "n % batch_size == 1 at some batching level with non-0-d internal arrays",
 "C14-a": "union of two programs differing only in a keyword value",
 "C14-b": "two actions with different coordinate values, then a later use of the right operand",
 "C15-a": "a partition into batches of unequal size",
 "C15-b": "plain arrays, scalar index, input with another axis of length 1",
 "C17-a": "a dataset of >= 4 GiB allocated and then fetched with get",
 "C17-b": "a string field holding a non-ASCII character",
 "C18-a": "a result report and a progress report of the same job reordered",
 "C18-b": ">= 2 jobs on one gateway and a cross-job query or equal dataset ids",
 "C19-a": "a positional edge whose sink task does not exist",
 "C19-b": "the same task object specialised twice with positional values",
}
def sh(cmd, **kw):
    return subprocess.run(cmd, shell=True, capture_output=True, text=True, **kw)
def par_map(fn, items):
    """Run fn(item, worktree) over the items on N scratch worktrees of /repo's HEAD (default 4; -jN), each check pointed at its worktree
    through VERIF_REPO; the worktrees live under /tmp and are removed at the end.  /repo itself is not touched."""
    import queue, threading
    jobs = next((int(a[2:]) for a in sys.argv[1:] if a.startswith("-j")), 4)
    jobs = max(1, min(jobs, len(items)))
    q = queue.Queue()
    for i, it in enumerate(items):
        q.put((i, it))
    out = [None] * len(items)
    wts = [f"/tmp/vp-par-{os.getpid()}-{k}" for k in range(jobs)]
    for wt in wts:
        sh(f"git -C /repo worktree add -q --detach {wt} HEAD")
    def worker(wt):
        while True:
            try:
                i, it = q.get_nowait()
            except queue.Empty:
                return
            try:
                out[i] = fn(it, wt)
            except Exception as e:
                print(it, "RUNNER ERROR", e, flush=True)
    try:
        ts = [threading.Thread(target=worker, args=(wt,)) for wt in wts]
        [t.start() for t in ts]
        [t.join() for t in ts]
    finally:
        for wt in wts:
            sh(f"git -C /repo worktree remove --force {wt}")
        sh("git -C /repo worktree prune")
    return [o for o in out if o is not None]
def main():
    seeds = sorted(d for d in os.listdir(f"{V}/seeded") if os.path.isfile(f"{V}/seeded/{d}/patch.diff"))
    args = [a for a in sys.argv[1:] if not a.startswith('-j')]
    if args:
        seeds = [s for s in seeds if s in args]
    confirm = {}
    if os.path.exists(f"{V}/seeded/CONFIRM.log"):
        for l in open(f"{V}/seeded/CONFIRM.log"):
            m = re.search(r"seeded/([^/ ]+)/? (.*)$", l)
            if m:
                confirm[m.group(1)] = m.group(2).strip()
    if sh("git -C /repo diff --quiet").returncode != 0:
        print("/repo dirty"); return 2
    def one(s, wt):
        prop = s.split("-")[0]
        r = sh(f"git -C {wt} apply {V}/seeded/{s}/patch.diff")
        if r.returncode != 0:
            return (s, prop, "PATCH DOES NOT APPLY", [])
        def run(c):
            o = sh(f"cd {V} && VERIF_REPO={wt} ./check {c} quick")
            rules = sorted(set(re.findall(r"^  (C\d+\.[A-Za-z0-9]+) ", o.stdout, re.M)))
            return c, o.returncode, rules
        with ThreadPoolExecutor(5) as ex:
            res = list(ex.map(run, PROPS))
        sh(f"git -C {wt} checkout -- . && git -C {wt} clean -fdq")
        det = [(c, rc, rules) for c, rc, rules in res if rc != 0]
        own = next((x for x in res if x[0] == prop), None)
        meta = {"seed": s, "breaks_property": prop, "needs_to_manifest": NEEDS.get(s, "see notes.md"),
                "files": {"patch": "patch.diff", "demonstration": "demo.py", "notes": "notes.md"},
                "confirmed_in_scratch_worktree": confirm.get(s, "see seeded/CONFIRM.log"),
                "ran": ["tools/confirm_seed.sh seeded/%s (suite with patch: 133 pass; demo with patch: exit 1; demo without: exit 0)" % s,
                        "tools/run_seeds.py %s (patch applied to a working tree of /repo's HEAD; ./check <all> quick against it; tree restored)" % s],
                "own_check": {"exit": own[1], "rules": own[2]} if own else None,
                "detected_by": {c: {"exit": rc, "rules": rules} for c, rc, rules in det}}
        json.dump(meta, open(f"{V}/seeded/{s}/meta.json", "w"), indent=1)
        print(s, "own:", own[1:], "| all:", [(c, rc) for c, rc, _ in det], flush=True)
        return (s, prop, own, det)
    rows = par_map(one, seeds)
    if args:
        return 0
    with open(f"{V}/seeded/RESULTS.md", "w") as f:
        f.write("# Seeded defects vs. checks (quick tier)\n\n| seed | property | own check exit | rules firing in own check | other checks firing |\n|---|---|---|---|---|\n")
        for s, prop, own, det in rows:
            if isinstance(own, str):
                f.write(f"| {s} | {prop} | {own} | | |\n"); continue
            others = ", ".join(f"{c}({rc})" for c, rc, _ in det if c != prop)
            f.write(f"| {s} | {prop} | {own[1]} | {', '.join(own[2])} | {others} |\n")
    sh(f"cd {V} && for c in {' '.join(PROPS)}; do ./check $c quick >/dev/null; done")
    return 0
sys.exit(main())
