#!/bin/bash
# Runs the thorough tier (rules + in-memory sensitivity sweep) for every claimed property and collects the sweep summaries.
cd /verif
out=sweep-RESULTS.md
echo "# Thorough-tier sensitivity sweep (in-memory mutants of the anchored functions; behaviour-preserving rewrites must stay silent)" > $out
echo >> $out
echo '```' >> $out
for i in 01 02 03 04 05 06 07 08 09 10 11 12 13 14 15 16 17 18 19; do
  ./check C$i thorough 2>&1 | grep -E "^\[C$i (thorough|sweep)\]" >> $out
done
echo '```' >> $out
