#!/bin/bash
# survivors.sh Cxx : run the thorough tier and list the surviving mutants (minus log statements); restores quick evidence afterwards
cd /verif; ./check $1 thorough >/dev/null 2>&1
/venv/bin/python - "$1" <<'PY'
import json,sys
e=json.load(open(f'/verif/evidence/{sys.argv[1]}.json'))
for s in e['coverage']['sensitivity_sweep']['survivors']:
    t=str(s)
    if 'logger.' in t or 'logging.' in t: continue
    print(t.replace("\n"," ")[:260])
PY
./check $1 quick >/dev/null 2>&1
