#!/bin/bash
# try_seed.sh <patch.diff> <Cxx> [Cyy ...] : apply the patch to /repo, run the quick checks, undo.
P=$(readlink -f "$1"); shift
cd /repo || exit 9
if ! git diff --quiet; then echo "/repo has local changes, refusing"; exit 9; fi
git apply "$P" || { echo "patch does not apply"; exit 9; }
for c in "$@"; do (cd /verif && ./check $c quick 2>&1 | grep -E "^\[|VIOLATION|ANALYSIS-ERROR|KNOWN|^  C" | cut -c1-300; echo "  -> exit ${PIPESTATUS[0]}"); done
git checkout -- . 
