#!/bin/bash
# unfix.sh <commit> <checks...> : reverse-apply a fix commit in /repo's working tree, run checks, restore.
C=$1; shift; cd /repo || exit 9
git diff --quiet || { echo "/repo dirty"; exit 9; }
git show $C | git apply -R || { echo "cannot reverse-apply $C"; git checkout -- .; exit 9; }
for c in "$@"; do (cd /verif && ./check $c quick 2>&1 | grep -E "^\[|VIOLATION|ANALYSIS-ERROR|^  C" | cut -c1-260; echo "  -> exit ${PIPESTATUS[0]}"); done
git checkout -- .
